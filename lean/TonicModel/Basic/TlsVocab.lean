/-
Vocabulary shared by the TLS model (`Model/Tls`) and its oracle (`Spec/Tls`): the *inputs* a
caller can give to tonic's TLS configuration API (as data), and the interface to the part that
is NOT tonic — rustls/webpki's handshake — as plain data types.  No functions of tonic live
here.  Core Lean only.

`Root` is the type of trust anchors / CA certificates, `Chain` the type of certificate chains
(both abstract: the theorems quantify over them).
-/
namespace Tls

/-- A PEM blob handed to `Certificate::from_pem`.  `none`: some PEM section is malformed, so
`convert_certificate_to_pki_types` fails; `some rs`: it parses, and `rs` are the certificates
in it that `RootCertStore::add_parsable_certificates` accepts (others are silently dropped). -/
abbrev Pem (Root : Type) := Option (List Root)

/-- What `Identity::from_pem(cert, key)` was given, as far as the code can tell the cases apart. -/
structure IdentityPem (Chain : Type) where
  /-- certificate PEM: `none` = malformed (`CertificateParseError`) -/
  cert : Option Chain
  /-- `PrivateKeyDer::from_pem_reader` succeeds -/
  keyOk : Bool
  /-- rustls accepts the pair (`with_client_auth_cert` / `with_single_cert`) -/
  accepted : Bool
  deriving DecidableEq, Repr

/-- The builder methods of `ClientTlsConfig`, as data. -/
inductive ClientOp (Root Chain : Type)
  | domainName (d : String)
  | caCertificate (c : Pem Root)
  | caCertificates (cs : List (Pem Root))
  | trustAnchor (r : Root)
  | trustAnchors (rs : List Root)
  | identity (i : IdentityPem Chain)
  | assumeHttp2 (b : Bool)
  | useKeyLog
  | withNativeRoots      -- exists only with feature `tls-native-roots`
  | withWebpkiRoots      -- exists only with feature `tls-webpki-roots`
  | withEnabledRoots
  deriving Repr

/-- The builder methods of `ServerTlsConfig`, as data. -/
inductive ServerOp (Root Chain : Type)
  | identity (i : IdentityPem Chain)
  | clientCaRoot (c : Pem Root)
  | clientAuthOptional (b : Bool)
  | ignoreClientOrder (b : Bool)
  | useKeyLog
  deriving Repr

inductive Scheme | http | https | other
  deriving DecidableEq, Repr

/-- The two parts of an endpoint URI the TLS wiring looks at. -/
structure Uri where
  scheme : Option Scheme
  host : Option String
  deriving DecidableEq, Repr

/-- One statement of a caller's program that sets up SEVERAL configurations and endpoints in one
process (`ClientTlsConfig` and `Endpoint` are `Clone`; builder methods and `Endpoint::tls_config`
consume `self`, so a value that is used more than once is used through clones).  Configurations
and endpoints live in numbered variables `c0, c1, …` / `e0, e1, …`, numbered in the order the
statements that define them appear. -/
inductive Stmt (Root Chain : Type)
  /-- `let cN = ClientTlsConfig::new().<ops>;` (`src = none`) or `let cN = cK.clone().<ops>;` -/
  | config (src : Option Nat) (ops : List (ClientOp Root Chain))
  /-- `let eN = Endpoint::from_shared(uri);` -/
  | endpoint (uri : Uri)
  /-- `let eN = Endpoint::new(uri);` (what generated `connect` functions call) -/
  | endpointNew (uri : Uri)
  /-- `let eN = eK.clone();` -/
  | cloneEndpoint (e : Nat)
  /-- `let eN = eK.clone().tls_config(cJ.clone());` -/
  | tlsConfig (e c : Nat)
  /-- `eK.connect…(..)` and a call over the channel (`&self`: defines no variable) -/
  | connect (e : Nat)
  /-- `let eN = Endpoint::new(eK.clone());` — generated `connect(dst)` called with a `dst` that
  already is an `Endpoint` (`D: TryInto<Endpoint>` holds for `Endpoint` itself) -/
  | endpointNewFrom (e : Nat)
  deriving Repr

/-- Build features and ambient state outside the caller's configuration. -/
structure Sys (Root : Type) where
  featNative : Bool
  featWebpki : Bool
  /-- what `rustls_native_certs::load_native_certs` returns -/
  nativeCerts : List Root
  /-- `webpki_roots::TLS_SERVER_ROOTS` -/
  webpkiRoots : List Root
  /-- `ServerName::try_from` succeeds -/
  validServerName : String → Bool

def alpnH2 : String := "h2"

/-- What tonic hands to rustls on the client side of a handshake. -/
structure ClientHello (Root Chain : Type) where
  roots : List Root
  domain : String
  identity : Option Chain
  alpn : List String

inductive CertFault | unknownIssuer | nameMismatch | other
  deriving DecidableEq, Repr

/-- How the client side of a rustls handshake ends. -/
inductive ClientView
  /-- a fatal alert arrived before the server's certificate was judged (ALPN refusal) -/
  | alert
  /-- the certificate verifier rejected the server's chain -/
  | badCert (f : CertFault)
  /-- the peer does not speak TLS -/
  | garbage
  /-- handshake complete on the client side; the negotiated ALPN protocol, if any -/
  | done (alpn : Option String)
  deriving DecidableEq, Repr

/-- What tonic hands to rustls on the server side. -/
inductive ClientAuth (Root : Type)
  | off
  | required (roots : List Root)
  | optional (roots : List Root)
  deriving Repr

structure ServerHello (Root Chain : Type) where
  chain : Chain
  clientAuth : ClientAuth Root
  alpn : List String

/-- Both ends of one handshake: the client's view and, if the server side completed, the
client certificate chain the server's session holds (`peer_certificates()`). -/
structure HsOut (Chain : Type) where
  client : ClientView
  server : Option (Option Chain)

/-- The handshake environment (rustls on both ends): for what the client side and the server
side were configured with, both views of the outcome. -/
abbrev Handshake (Root Chain : Type) := ClientHello Root Chain → ServerHello Root Chain → HsOut Chain

/-- Connection info of the IO below TLS: `TcpConnectInfo` or anything else. -/
inductive InnerInfo | tcp | other
  deriving DecidableEq, Repr

end Tls
