/-
Vocabulary of the C06 `lim.seq` cases: ONE `server::Grpc` / `client::Grpc` value taken through a
program of configuration statements and calls (harness/src/c06_x.rs).  Shared by the model
(`Model/LimitCfg.lean`) and the oracle (`Spec/LimitCfg.lean`), which say independently what the
program does.
-/
namespace LimitProg

/-- a configuration statement -/
inductive Op
  | setDec (l : Nat)              -- `max_decoding_message_size(l)`
  | setEnc (l : Nat)              -- `max_encoding_message_size(l)`
  | apply (d e : Option Nat)      -- `server::Grpc::apply_max_message_size_config(d, e)`
  | acceptZ                       -- `accept_compressed(Gzip)`
  | sendZ                         -- `send_compressed(Gzip)`
  | clone                         -- `client::Grpc::clone()`, the original dropped
deriving DecidableEq, Repr

inductive Shape | unary | serverStreaming | clientStreaming | streaming
deriving DecidableEq, Repr

/-- one call.  `qs`: on-the-wire payload lengths of the messages travelling towards the server,
`rs`: of those travelling towards the client (each a complete, valid frame). -/
structure Call where
  shape : Shape
  peerZ : Bool
  qs : List Nat
  rs : List Nat
deriving DecidableEq, Repr

inductive Stmt
  | op (o : Op)
  | call (k : Call)
deriving DecidableEq, Repr

/-- what the harness observes of a call handled by `server::Grpc`: grpc-status, handler runs,
request messages the handler received, response messages in the body -/
structure SrvObs where
  code : Nat
  h : Nat
  m : Nat
  r : Nat
deriving DecidableEq, Repr

/-- what the harness observes of a call made through `client::Grpc`: request messages the
transport received, response messages delivered, the error code (`none` = the call ended well) -/
structure CliObs where
  s : Nat
  r : Nat
  code : Option Nat
deriving DecidableEq, Repr

/-- single-message sides: a unary / server-streaming call sends ONE request message … -/
def Shape.oneRequest : Shape → Bool
  | .unary | .serverStreaming => true
  | _ => false

/-- … and a unary / client-streaming call is answered with ONE response message -/
def Shape.oneResponse : Shape → Bool
  | .unary | .clientStreaming => true
  | _ => false

/-- every call of the program carries at least one message each way -/
def WellFormed (prog : List Stmt) : Bool :=
  prog.all (fun | .call k => !k.qs.isEmpty && !k.rs.isEmpty | .op _ => true)

end LimitProg
