import TonicModel.Basic.Bytes
/-
The vocabulary of C20: the ten standard error details of google/rpc/error_details.proto as
tonic-types exposes them (`tonic_types::{RetryInfo, …, ErrorDetail, ErrorDetails}`), shared by
the model and the spec.  Strings are byte strings (valid UTF-8 is a well-formedness condition,
`String` guarantees it in Rust); `std::time::Duration` is `(secs, nanos)` with `nanos < 10^9`;
`HashMap<String,String>` is an association list with distinct keys.  Core Lean only.
-/
namespace RichError

structure Dur where
  secs : Nat
  nanos : Nat
  deriving DecidableEq, Repr

structure RetryInfo where
  retryDelay : Option Dur
  deriving DecidableEq, Repr

structure DebugInfo where
  stackEntries : List Bytes
  detail : Bytes
  deriving DecidableEq, Repr

structure QuotaViolation where
  subject : Bytes
  description : Bytes
  deriving DecidableEq, Repr

structure QuotaFailure where
  violations : List QuotaViolation
  deriving DecidableEq, Repr

structure ErrorInfo where
  reason : Bytes
  domain : Bytes
  metadata : List (Bytes × Bytes)
  deriving DecidableEq, Repr

structure PreconditionViolation where
  type : Bytes
  subject : Bytes
  description : Bytes
  deriving DecidableEq, Repr

structure PreconditionFailure where
  violations : List PreconditionViolation
  deriving DecidableEq, Repr

structure FieldViolation where
  field : Bytes
  description : Bytes
  deriving DecidableEq, Repr

structure BadRequest where
  fieldViolations : List FieldViolation
  deriving DecidableEq, Repr

structure RequestInfo where
  requestId : Bytes
  servingData : Bytes
  deriving DecidableEq, Repr

structure ResourceInfo where
  resourceType : Bytes
  resourceName : Bytes
  owner : Bytes
  description : Bytes
  deriving DecidableEq, Repr

structure HelpLink where
  description : Bytes
  url : Bytes
  deriving DecidableEq, Repr

structure Help where
  links : List HelpLink
  deriving DecidableEq, Repr

structure LocalizedMessage where
  locale : Bytes
  message : Bytes
  deriving DecidableEq, Repr

inductive Kind
  | retryInfo | debugInfo | quotaFailure | errorInfo | preconditionFailure
  | badRequest | requestInfo | resourceInfo | help | localizedMessage
  deriving DecidableEq, Repr

/-- `tonic_types::ErrorDetail` -/
inductive ErrorDetail
  | retryInfo (x : RetryInfo)
  | debugInfo (x : DebugInfo)
  | quotaFailure (x : QuotaFailure)
  | errorInfo (x : ErrorInfo)
  | preconditionFailure (x : PreconditionFailure)
  | badRequest (x : BadRequest)
  | requestInfo (x : RequestInfo)
  | resourceInfo (x : ResourceInfo)
  | help (x : Help)
  | localizedMessage (x : LocalizedMessage)
  deriving DecidableEq, Repr

def ErrorDetail.kind : ErrorDetail → Kind
  | .retryInfo _ => .retryInfo
  | .debugInfo _ => .debugInfo
  | .quotaFailure _ => .quotaFailure
  | .errorInfo _ => .errorInfo
  | .preconditionFailure _ => .preconditionFailure
  | .badRequest _ => .badRequest
  | .requestInfo _ => .requestInfo
  | .resourceInfo _ => .resourceInfo
  | .help _ => .help
  | .localizedMessage _ => .localizedMessage

/-- `tonic_types::ErrorDetails` (the "set" form: at most one detail of each kind) -/
structure ErrorDetails where
  retryInfo : Option RetryInfo := none
  debugInfo : Option DebugInfo := none
  quotaFailure : Option QuotaFailure := none
  errorInfo : Option ErrorInfo := none
  preconditionFailure : Option PreconditionFailure := none
  badRequest : Option BadRequest := none
  requestInfo : Option RequestInfo := none
  resourceInfo : Option ResourceInfo := none
  help : Option Help := none
  localizedMessage : Option LocalizedMessage := none
  deriving DecidableEq, Repr

/-- ASCII constant as bytes (kernel-reducible, unlike `String.toUTF8`) -/
def asciiBytes (s : String) : Bytes := s.toList.map (fun c => UInt8.ofNat c.toNat)

end RichError
