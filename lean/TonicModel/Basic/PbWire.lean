import TonicModel.Basic.Bytes
import TonicModel.Basic.Utf8Rust
/-
`PbWire` — the protobuf wire format as prost 0.13 reads and writes it (`prost::encoding`), for
messages of the shape that occurs in google/rpc/status.proto and error_details.proto:

* level 0 ("flat") messages: fields 1..n, each a singular `string` / `bytes` / `int32` / `int64`;
* level 1 messages: fields 1..n, each a singular scalar, a `repeated string`, a repeated or
  optional flat message, or a `map<string,string>`.

The reader is the streaming one of prost (`decode_key`, `merge_field` per field, `skip_field`
with its recursion budget, `merge_loop` for nested messages — taken on the nested slice, which
gives the same success/failure as prost's limit bookkeeping), including its leniencies: last
value wins, non-canonical varints, a `map` field is read without looking at its wire type.
The writer is `encode_raw` of the derived `Message` impls (proto3: default scalars are omitted,
fields in tag order).  A schema is data, so one pair of functions serves all sixteen messages.
Core Lean only.
-/
namespace PbWire

def byteOf (n : Nat) : UInt8 := UInt8.ofNat n

/-! ### varints and keys -/

/-- `encode_varint`: at most ten 7-bit groups, least significant first. -/
def encodeVarintAux : Nat → Nat → Bytes
  | 0, _ => []
  | f + 1, v =>
    if v < 128 then [byteOf v] else byteOf (v % 128 + 128) :: encodeVarintAux f (v / 128)

def encodeVarint (v : Nat) : Bytes := encodeVarintAux 10 v

/-- `decode_varint` (fast and slow path agree): at most ten bytes; the tenth must be 0 or 1. -/
def decodeVarintAux : Nat → Bytes → Option (Nat × Bytes)
  | 0, _ => none
  | _, [] => none
  | n + 1, b :: bs =>
    if b.toNat < 128 then
      if n = 0 ∧ 2 ≤ b.toNat then none else some (b.toNat, bs)
    else
      match decodeVarintAux n bs with
      | some (v, r) => some (b.toNat - 128 + 128 * v, r)
      | none => none

def decodeVarint (buf : Bytes) : Option (Nat × Bytes) := decodeVarintAux 10 buf

/-- `encode_key(tag, wire_type)` -/
def encodeKey (tag wt : Nat) : Bytes := encodeVarint (tag * 8 + wt)

/-- `decode_key`: key ≤ u32::MAX, wire type 0..5, tag ≥ 1.  Result `(tag, wire type, rest)`. -/
def decodeKey (buf : Bytes) : Option (Nat × Nat × Bytes) :=
  match decodeVarint buf with
  | none => none
  | some (key, r) =>
    if 4294967295 < key then none
    else if 6 ≤ key % 8 then none
    else if key / 8 = 0 then none
    else some (key / 8, key % 8, r)

/-- take `n` bytes or fail with "buffer underflow" -/
def splitLen (n : Nat) (buf : Bytes) : Option (Bytes × Bytes) :=
  if n ≤ buf.length then some (buf.take n, buf.drop n) else none

/-- a length varint followed by that many bytes -/
def lenPrefixed (buf : Bytes) : Option (Bytes × Bytes) :=
  match decodeVarint buf with
  | none => none
  | some (n, r) => splitLen n r

/-! ### skipping unknown fields -/

/-- the `StartGroup` arm of `skip_field`: skip inner fields until the matching `EndGroup` -/
def skipGroupLoop (skipInner : Nat → Nat → Bytes → Option Bytes) (tag : Nat) :
    Nat → Bytes → Option Bytes
  | 0, _ => none
  | f + 1, buf =>
    match decodeKey buf with
    | none => none
    | some (t, w, r) =>
      if w = 4 then (if t = tag then some r else none)
      else
        match skipInner w t r with
        | none => none
        | some r' => skipGroupLoop skipInner tag f r'

/-- `skip_field(wire_type, tag, buf, ctx)`; the first argument is `ctx.recurse_count`. -/
def skipField : Nat → Nat → Nat → Bytes → Option Bytes
  | 0, _, _, _ => none                                   -- "recursion limit reached"
  | c + 1, wt, tag, buf =>
    if wt = 0 then (decodeVarint buf).map (·.2)
    else if wt = 1 then (splitLen 8 buf).map (·.2)
    else if wt = 5 then (splitLen 4 buf).map (·.2)
    else if wt = 2 then (lenPrefixed buf).map (·.2)
    else if wt = 3 then skipGroupLoop (fun w t r => skipField c w t r) tag (buf.length + 1) buf
    else none                                            -- EndGroup: "unexpected end group tag"

/-! ### scalar fields -/

inductive Sc | str | bytes | i32 | i64
  deriving DecidableEq, Repr

/-- scalar values: byte strings (for `string` they are valid UTF-8) and integers -/
inductive SV | b (x : Bytes) | i (x : Int)
  deriving DecidableEq, Repr

def Sc.default : Sc → SV
  | .str | .bytes => .b []
  | .i32 | .i64 => .i 0

/-- `value as i32` of a decoded u64 -/
def toI32 (v : Nat) : Int :=
  if v % 4294967296 < 2147483648 then (v % 4294967296 : Nat) else (v % 4294967296 : Nat) - 4294967296

/-- `value as i64` of a decoded u64 -/
def toI64 (v : Nat) : Int :=
  if v % 18446744073709551616 < 9223372036854775808 then (v % 18446744073709551616 : Nat)
  else (v % 18446744073709551616 : Nat) - 18446744073709551616

/-- `*value as u64` for i32/i64 (sign extension) -/
def u64OfInt (x : Int) : Nat := (x % 18446744073709551616).toNat

/-- `string::merge` / `bytes::merge` / `int32::merge` / `int64::merge` -/
def mergeScalar (k : Sc) (wt : Nat) (buf : Bytes) : Option (SV × Bytes) :=
  match k with
  | .str =>
    if wt ≠ 2 then none
    else match lenPrefixed buf with
      | some (s, r) => if Utf8Rust.valid s then some (.b s, r) else none
      | none => none
  | .bytes =>
    if wt ≠ 2 then none
    else match lenPrefixed buf with
      | some (s, r) => some (.b s, r)
      | none => none
  | .i32 =>
    if wt ≠ 0 then none
    else match decodeVarint buf with
      | some (v, r) => some (.i (toI32 v), r)
      | none => none
  | .i64 =>
    if wt ≠ 0 then none
    else match decodeVarint buf with
      | some (v, r) => some (.i (toI64 v), r)
      | none => none

/-- key, length, payload -/
def lenDelim (tag : Nat) (p : Bytes) : Bytes := encodeKey tag 2 ++ (encodeVarint p.length ++ p)

/-- proto3 singular scalar: omitted when it has the default value -/
def encScalarField (tag : Nat) (k : Sc) (v : SV) : Bytes :=
  match k, v with
  | .str, .b s => if s = [] then [] else lenDelim tag s
  | .bytes, .b s => if s = [] then [] else lenDelim tag s
  | .i32, .i x => if x = 0 then [] else encodeKey tag 0 ++ encodeVarint (u64OfInt x)
  | .i64, .i x => if x = 0 then [] else encodeKey tag 0 ++ encodeVarint (u64OfInt x)
  | _, _ => []

/-! ### the per-message field loop -/

/-- `while buf.has_remaining() { (tag, wt) = decode_key(buf)?; msg.merge_field(tag, wt, buf, ctx)? }`.
The first argument bounds the number of iterations; each one consumes at least the key, so the
length of the buffer is always enough (`runFields`). -/
def fieldsLoop {σ : Type} (mf : σ → Nat → Nat → Bytes → Option (σ × Bytes)) :
    Nat → σ → Bytes → Option σ
  | _, s, [] => some s
  | 0, _, _ :: _ => none
  | f + 1, s, b :: bs =>
    match decodeKey (b :: bs) with
    | none => none
    | some (t, w, r) =>
      match mf s t w r with
      | none => none
      | some (s', r') => fieldsLoop mf f s' r'

def runFields {σ : Type} (mf : σ → Nat → Nat → Bytes → Option (σ × Bytes)) (init : σ)
    (buf : Bytes) : Option σ :=
  fieldsLoop mf buf.length init buf

/-- `message::merge` after its wire-type check: recursion budget, length prefix, then the field
loop over exactly that slice with the budget decremented. -/
def mergeNested {σ : Type} (ctx : Nat) (mf : Nat → σ → Nat → Nat → Bytes → Option (σ × Bytes))
    (init : σ) (buf : Bytes) : Option (σ × Bytes) :=
  if ctx = 0 then none
  else
    match lenPrefixed buf with
    | none => none
    | some (inner, r) =>
      match runFields (mf (ctx - 1)) init inner with
      | some v => some (v, r)
      | none => none

/-! ### flat messages -/

abbrev Flat := List Sc

def Flat.defaults (s : Flat) : List SV := s.map Sc.default

/-- `merge_field` of a derived flat message -/
def mergeFlatField (sch : Flat) (ctx : Nat) (st : List SV) (tag wt : Nat) (buf : Bytes) :
    Option (List SV × Bytes) :=
  match sch[tag - 1]? with
  | some k =>
    match mergeScalar k wt buf with
    | some (v, r) => some (st.set (tag - 1) v, r)
    | none => none
  | none =>
    match skipField ctx wt tag buf with
    | some r => some (st, r)
    | none => none

def encFlatFrom (tag : Nat) : Flat → List SV → Bytes
  | k :: ks, v :: vs => encScalarField tag k v ++ encFlatFrom (tag + 1) ks vs
  | _, _ => []

def encFlat (s : Flat) (v : List SV) : Bytes := encFlatFrom 1 s v

/-! ### messages with repeated / optional / map fields -/

inductive F2 | sc (k : Sc) | repStr | repFlat (s : Flat) | optFlat (s : Flat) | mapSS
  deriving DecidableEq, Repr

inductive V2
  | sc (v : SV) | repStr (l : List Bytes) | repFlat (l : List (List SV))
  | optFlat (o : Option (List SV)) | map (l : List (Bytes × Bytes))
  deriving DecidableEq, Repr

def F2.default : F2 → V2
  | .sc k => .sc k.default
  | .repStr => .repStr []
  | .repFlat _ => .repFlat []
  | .optFlat _ => .optFlat none
  | .mapSS => .map []

/-- `HashMap::insert` on an association list with distinct keys (new keys go to the end; the
order is not observable, outputs are compared sorted) -/
def mapInsert (l : List (Bytes × Bytes)) (k v : Bytes) : List (Bytes × Bytes) :=
  if l.any (fun e => e.1 == k) then l.map (fun e => if e.1 == k then (k, v) else e)
  else l ++ [(k, v)]

def entrySchema : Flat := [.str, .str]

/-- `merge_field` of a derived message -/
def mergeL2Field (sch : List F2) (ctx : Nat) (st : List V2) (tag wt : Nat) (buf : Bytes) :
    Option (List V2 × Bytes) :=
  match sch[tag - 1]?, st[tag - 1]? with
  | some f, some cur =>
    match f, cur with
    | .sc k, _ =>
      match mergeScalar k wt buf with
      | some (v, r) => some (st.set (tag - 1) (.sc v), r)
      | none => none
    | .repStr, .repStr l =>
      match mergeScalar .str wt buf with
      | some (.b s, r) => some (st.set (tag - 1) (.repStr (l ++ [s])), r)
      | _ => none
    | .repFlat s, .repFlat l =>
      if wt ≠ 2 then none
      else match mergeNested ctx (mergeFlatField s) s.defaults buf with
        | some (v, r) => some (st.set (tag - 1) (.repFlat (l ++ [v])), r)
        | none => none
    | .optFlat s, .optFlat o =>
      if wt ≠ 2 then none
      else match mergeNested ctx (mergeFlatField s) (o.getD s.defaults) buf with
        | some (v, r) => some (st.set (tag - 1) (.optFlat (some v)), r)
        | none => none
    | .mapSS, .map l =>
      -- `hash_map::merge` never looks at the wire type of the map field itself
      match mergeNested ctx (mergeFlatField entrySchema) entrySchema.defaults buf with
      | some ([.b k, .b v], r) => some (st.set (tag - 1) (.map (mapInsert l k v)), r)
      | _ => none
    | _, _ => none
  | _, _ =>
    match skipField ctx wt tag buf with
    | some r => some (st, r)
    | none => none

/-- `prost::RECURSION_LIMIT` -/
def recursionLimit : Nat := 100

/-- `Message::decode` of a message with schema `sch` -/
def decodeL2 (sch : List F2) (buf : Bytes) : Option (List V2) :=
  runFields (mergeL2Field sch recursionLimit) (sch.map F2.default) buf

def encEntry (e : Bytes × Bytes) : Bytes := encFlat entrySchema [.b e.1, .b e.2]

def encL2Field (tag : Nat) : F2 → V2 → Bytes
  | .sc k, .sc v => encScalarField tag k v
  | .repStr, .repStr l => l.flatMap (fun s => lenDelim tag s)
  | .repFlat s, .repFlat l => l.flatMap (fun v => lenDelim tag (encFlat s v))
  | .optFlat s, .optFlat o =>
    match o with
    | none => []
    | some v => lenDelim tag (encFlat s v)
  | .mapSS, .map l => l.flatMap (fun e => lenDelim tag (encEntry e))
  | _, _ => []

def encL2From (tag : Nat) : List F2 → List V2 → Bytes
  | f :: fs, v :: vs => encL2Field tag f v ++ encL2From (tag + 1) fs vs
  | _, _ => []

/-- `Message::encode_to_vec` -/
def encL2 (sch : List F2) (v : List V2) : Bytes := encL2From 1 sch v

example : encodeVarint 300 = [0xAC, 0x02] := by decide
example : decodeVarint [0xAC, 0x02, 7] = some (300, [7]) := by decide
example : decodeVarint [0xff, 0xff, 0xff, 0xff, 0xff, 0xff, 0xff, 0xff, 0xff, 0x02] = none := by decide
example : decodeL2 [.sc .i32, .sc .str] [0x08, 0x03, 0x12, 0x01, 0x6d] = some [.sc (.i 3), .sc (.b [0x6d])] := by
  decide

end PbWire
