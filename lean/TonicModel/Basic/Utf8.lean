import TonicModel.Basic.Bytes
/-
UTF-8 validation as Rust's `core::str::from_utf8` performs it (`run_utf8_validation`): the
well-formed byte sequences of Unicode Table 3-7 (no overlong forms, no surrogates, nothing
above U+10FFFF), and on failure the position (`valid_up_to`) and `error_len` that
`Utf8Error`'s `Display` prints.  Core Lean only.
-/
namespace Utf8

def isCont (b : UInt8) : Bool := 128 ≤ b.toNat && b.toNat ≤ 191

inductive Err
  | invalid (upTo len : Nat)
  | incomplete (upTo : Nat)
deriving DecidableEq, Repr

/-- decoder state between bytes: between characters, or inside one that started at `start`,
of which `seen` bytes have been read, `remaining` are still due, the next one within `lo..hi` -/
inductive State
  | idle
  | inChar (start seen remaining lo hi : Nat)

/-- `none` = valid; otherwise what `Utf8Error` reports (`valid_up_to`, `error_len`).
`i` = index of the head of the list. -/
def scan : Bytes → Nat → State → Option Err
  | [], _, .idle => none
  | [], _, .inChar start _ _ _ _ => some (.incomplete start)
  | b :: rest, i, .idle =>
    let v := b.toNat
    if v < 128 then scan rest (i + 1) .idle
    else if 194 ≤ v ∧ v ≤ 223 then scan rest (i + 1) (.inChar i 1 1 128 191)
    else if 224 ≤ v ∧ v ≤ 239 then
      scan rest (i + 1) (.inChar i 1 2 (if v = 224 then 160 else 128) (if v = 237 then 159 else 191))
    else if 240 ≤ v ∧ v ≤ 244 then
      scan rest (i + 1) (.inChar i 1 3 (if v = 240 then 144 else 128) (if v = 244 then 143 else 191))
    else some (.invalid i 1)
  | b :: rest, i, .inChar start seen remaining lo hi =>
    if lo ≤ b.toNat ∧ b.toNat ≤ hi then
      if remaining ≤ 1 then scan rest (i + 1) .idle
      else scan rest (i + 1) (.inChar start (seen + 1) (remaining - 1) 128 191)
    else some (.invalid start seen)

def validate (bs : Bytes) : Option Err := scan bs 0 .idle

def valid (bs : Bytes) : Bool := (validate bs).isNone

/-- `impl Display for Utf8Error` -/
def Err.text : Err → Bytes
  | .invalid upTo len =>
    Ascii.ofString "invalid utf-8 sequence of " ++ decimal len ++ Ascii.ofString " bytes from index " ++ decimal upTo
  | .incomplete upTo =>
    Ascii.ofString "incomplete utf-8 byte sequence from index " ++ decimal upTo

end Utf8

/-! ### every Unicode string is accepted

The encoder below is the textbook UTF-8 encoding of a scalar value (RFC 3629 §3); the theorem
says the validator (Rust's `from_utf8` as modelled above) accepts the encoding of every list of
Unicode scalar values, so a hypothesis `valid msg` covers every Rust `String`. -/
namespace Utf8

/-- Unicode scalar values: code points other than surrogates -/
def isScalar (c : Nat) : Bool := c < 55296 || (57344 ≤ c && c < 1114112)

def byteOf (n : Nat) : UInt8 := UInt8.ofNat n

theorem byteOf_toNat (n : Nat) (h : n < 256) : (byteOf n).toNat = n := by
  simp [byteOf, UInt8.toNat_ofNat']; omega

def encodeScalar (c : Nat) : Bytes :=
  if c < 128 then [byteOf c]
  else if c < 2048 then [byteOf (192 + c / 64), byteOf (128 + c % 64)]
  else if c < 65536 then [byteOf (224 + c / 4096), byteOf (128 + c / 64 % 64), byteOf (128 + c % 64)]
  else [byteOf (240 + c / 262144), byteOf (128 + c / 4096 % 64), byteOf (128 + c / 64 % 64), byteOf (128 + c % 64)]

def encodeString (cs : List Nat) : Bytes := cs.flatMap encodeScalar

theorem scan_encodeScalar (c : Nat) (hc : isScalar c = true) (rest : Bytes) (i : Nat) :
    ∃ j, scan (encodeScalar c ++ rest) i .idle = scan rest j .idle := by
  simp only [isScalar, Bool.or_eq_true, Bool.and_eq_true, decide_eq_true_eq] at hc
  unfold encodeScalar
  by_cases h1 : c < 128
  · refine ⟨i + 1, ?_⟩
    simp only [h1, if_true, List.cons_append, List.nil_append, scan, byteOf_toNat c (by omega)]
  · by_cases h2 : c < 2048
    · refine ⟨i + 1 + 1, ?_⟩
      have b0 := byteOf_toNat (192 + c / 64) (by omega)
      have b1 := byteOf_toNat (128 + c % 64) (by omega)
      simp only [h1, h2, if_true, if_false, List.cons_append, List.nil_append, scan, b0, b1]
      have e0 : ¬ (192 + c / 64 < 128) := by omega
      have e1 : 194 ≤ 192 + c / 64 ∧ 192 + c / 64 ≤ 223 := by omega
      have e2 : 128 ≤ 128 + c % 64 ∧ 128 + c % 64 ≤ 191 := by omega
      simp [e0, e1, e2]
    · by_cases h3 : c < 65536
      · refine ⟨i + 1 + 1 + 1, ?_⟩
        have b0 := byteOf_toNat (224 + c / 4096) (by omega)
        have b1 := byteOf_toNat (128 + c / 64 % 64) (by omega)
        have b2 := byteOf_toNat (128 + c % 64) (by omega)
        simp only [h1, h2, h3, if_true, if_false, List.cons_append, List.nil_append, scan, b0, b1, b2]
        have e0 : ¬ (224 + c / 4096 < 128) := by omega
        have e1 : ¬ (194 ≤ 224 + c / 4096 ∧ 224 + c / 4096 ≤ 223) := by omega
        have e2 : 224 ≤ 224 + c / 4096 ∧ 224 + c / 4096 ≤ 239 := by omega
        have e3 : (if 224 + c / 4096 = 224 then 160 else 128) ≤ 128 + c / 64 % 64 ∧
            128 + c / 64 % 64 ≤ (if 224 + c / 4096 = 237 then 159 else 191) := by
          constructor <;> split <;> omega
        have e4 : 128 ≤ 128 + c % 64 ∧ 128 + c % 64 ≤ 191 := by omega
        simp [e0, e1, e2, e3, e4]
        intro hx; exfalso; revert hx; split <;> omega
      · refine ⟨i + 1 + 1 + 1 + 1, ?_⟩
        have b0 := byteOf_toNat (240 + c / 262144) (by omega)
        have b1 := byteOf_toNat (128 + c / 4096 % 64) (by omega)
        have b2 := byteOf_toNat (128 + c / 64 % 64) (by omega)
        have b3 := byteOf_toNat (128 + c % 64) (by omega)
        simp only [h1, h2, h3, if_false, List.cons_append, List.nil_append, scan, b0, b1, b2, b3]
        have e0 : ¬ (240 + c / 262144 < 128) := by omega
        have e1 : ¬ (194 ≤ 240 + c / 262144 ∧ 240 + c / 262144 ≤ 223) := by omega
        have e2 : ¬ (224 ≤ 240 + c / 262144 ∧ 240 + c / 262144 ≤ 239) := by omega
        have e3 : 240 ≤ 240 + c / 262144 ∧ 240 + c / 262144 ≤ 244 := by omega
        have e4 : (if 240 + c / 262144 = 240 then 144 else 128) ≤ 128 + c / 4096 % 64 ∧
            128 + c / 4096 % 64 ≤ (if 240 + c / 262144 = 244 then 143 else 191) := by
          constructor <;> split <;> omega
        have e5 : 128 ≤ 128 + c / 64 % 64 ∧ 128 + c / 64 % 64 ≤ 191 := by omega
        have e6 : 128 ≤ 128 + c % 64 ∧ 128 + c % 64 ≤ 191 := by omega
        simp [e0, e1, e2, e3, e4, e5, e6]
        intro hx; exfalso; revert hx; split <;> omega

theorem scan_encodeString (cs : List Nat) (h : ∀ c ∈ cs, isScalar c = true) (i : Nat) :
    scan (encodeString cs) i .idle = none := by
  induction cs generalizing i with
  | nil => simp [encodeString, scan]
  | cons c cs ih =>
    have hc := h c (by simp)
    obtain ⟨j, hj⟩ := scan_encodeScalar c hc (encodeString cs) i
    have : encodeString (c :: cs) = encodeScalar c ++ encodeString cs := by simp [encodeString]
    rw [this, hj]
    exact ih (fun c' hc' => h c' (by simp [hc'])) j

/-- The validator accepts the UTF-8 encoding of every list of Unicode scalar values. -/
theorem valid_encodeString (cs : List Nat) (h : ∀ c ∈ cs, isScalar c = true) :
    valid (encodeString cs) = true := by
  simp [valid, validate, scan_encodeString cs h 0]

/-- In particular of every list of Lean `Char`s (a `Char` is a Unicode scalar value). -/
theorem valid_encodeChars (cs : List Char) : valid (encodeString (cs.map Char.toNat)) = true := by
  apply valid_encodeString
  intro c hc
  obtain ⟨ch, _, rfl⟩ := List.mem_map.mp hc
  have := ch.valid
  simp only [Char.toNat, UInt32.isValidChar, Nat.isValidChar] at this ⊢
  simp only [isScalar, Bool.or_eq_true, Bool.and_eq_true, decide_eq_true_eq]
  rcases this with h | ⟨h1, h2⟩
  · left; exact h
  · right; exact ⟨by omega, h2⟩

end Utf8
