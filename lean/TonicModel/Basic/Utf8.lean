import TonicModel.Basic.Bytes
/-
UTF-8 validation as Rust's `core::str::from_utf8` performs it (`run_utf8_validation`): the
well-formed byte sequences of Unicode Table 3-7 (no overlong forms, no surrogates, nothing
above U+10FFFF), and on failure the position (`valid_up_to`) and `error_len` that
`Utf8Error`'s `Display` prints.  Core Lean only.
-/
namespace Utf8

def isCont (b : UInt8) : Bool := 128 ≤ b.toNat && b.toNat ≤ 191

/-- second byte admissible after a 3-byte lead `v` -/
def ok3 (v : Nat) (b1 : UInt8) : Bool :=
  let w := b1.toNat
  if v = 224 then 160 ≤ w && w ≤ 191
  else if v = 237 then 128 ≤ w && w ≤ 159
  else 128 ≤ w && w ≤ 191

/-- second byte admissible after a 4-byte lead `v` -/
def ok4 (v : Nat) (b1 : UInt8) : Bool :=
  let w := b1.toNat
  if v = 240 then 144 ≤ w && w ≤ 191
  else if v = 244 then 128 ≤ w && w ≤ 143
  else 128 ≤ w && w ≤ 191

inductive Err
  | invalid (upTo len : Nat)
  | incomplete (upTo : Nat)
deriving DecidableEq, Repr

/-- `none` = valid; otherwise what `Utf8Error` reports. `i` = index of the head of the list. -/
def scan (bs : Bytes) (i : Nat) : Option Err :=
  match bs with
  | [] => none
  | b0 :: rest =>
    let v := b0.toNat
    if v < 128 then scan rest (i + 1)
    else if 194 ≤ v ∧ v ≤ 223 then
      match rest with
      | [] => some (.incomplete i)
      | b1 :: r1 => if isCont b1 then scan r1 (i + 2) else some (.invalid i 1)
    else if 224 ≤ v ∧ v ≤ 239 then
      match rest with
      | [] => some (.incomplete i)
      | b1 :: r1 =>
        if ok3 v b1 then
          match r1 with
          | [] => some (.incomplete i)
          | b2 :: r2 => if isCont b2 then scan r2 (i + 3) else some (.invalid i 2)
        else some (.invalid i 1)
    else if 240 ≤ v ∧ v ≤ 244 then
      match rest with
      | [] => some (.incomplete i)
      | b1 :: r1 =>
        if ok4 v b1 then
          match r1 with
          | [] => some (.incomplete i)
          | b2 :: r2 =>
            if isCont b2 then
              match r2 with
              | [] => some (.incomplete i)
              | b3 :: r3 => if isCont b3 then scan r3 (i + 4) else some (.invalid i 3)
            else some (.invalid i 2)
        else some (.invalid i 1)
    else some (.invalid i 1)
termination_by bs.length
decreasing_by all_goals (simp; try omega)

def validate (bs : Bytes) : Option Err := scan bs 0

def valid (bs : Bytes) : Bool := (validate bs).isNone

/-- `impl Display for Utf8Error` -/
def Err.text : Err → Bytes
  | .invalid upTo len =>
    Ascii.ofString "invalid utf-8 sequence of " ++ decimal len ++ Ascii.ofString " bytes from index " ++ decimal upTo
  | .incomplete upTo =>
    Ascii.ofString "incomplete utf-8 byte sequence from index " ++ decimal upTo

end Utf8
