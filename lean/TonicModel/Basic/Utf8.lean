import TonicModel.Basic.Bytes
/-
UTF-8 validation as Rust's `core::str::from_utf8` performs it (`run_utf8_validation`): the
well-formed byte sequences of Unicode Table 3-7 (no overlong forms, no surrogates, nothing
above U+10FFFF), and on failure the position (`valid_up_to`) and `error_len` that
`Utf8Error`'s `Display` prints.  Core Lean only.
-/
namespace Utf8

def isCont (b : UInt8) : Bool := 128 ≤ b.toNat && b.toNat ≤ 191

inductive Err
  | invalid (upTo len : Nat)
  | incomplete (upTo : Nat)
deriving DecidableEq, Repr

/-- decoder state between bytes: between characters, or inside one that started at `start`,
of which `seen` bytes have been read, `remaining` are still due, the next one within `lo..hi` -/
inductive State
  | idle
  | inChar (start seen remaining lo hi : Nat)

/-- `none` = valid; otherwise what `Utf8Error` reports (`valid_up_to`, `error_len`).
`i` = index of the head of the list. -/
def scan : Bytes → Nat → State → Option Err
  | [], _, .idle => none
  | [], _, .inChar start _ _ _ _ => some (.incomplete start)
  | b :: rest, i, .idle =>
    let v := b.toNat
    if v < 128 then scan rest (i + 1) .idle
    else if 194 ≤ v ∧ v ≤ 223 then scan rest (i + 1) (.inChar i 1 1 128 191)
    else if 224 ≤ v ∧ v ≤ 239 then
      scan rest (i + 1) (.inChar i 1 2 (if v = 224 then 160 else 128) (if v = 237 then 159 else 191))
    else if 240 ≤ v ∧ v ≤ 244 then
      scan rest (i + 1) (.inChar i 1 3 (if v = 240 then 144 else 128) (if v = 244 then 143 else 191))
    else some (.invalid i 1)
  | b :: rest, i, .inChar start seen remaining lo hi =>
    if lo ≤ b.toNat ∧ b.toNat ≤ hi then
      if remaining ≤ 1 then scan rest (i + 1) .idle
      else scan rest (i + 1) (.inChar start (seen + 1) (remaining - 1) 128 191)
    else some (.invalid start seen)

def validate (bs : Bytes) : Option Err := scan bs 0 .idle

def valid (bs : Bytes) : Bool := (validate bs).isNone

/-- `impl Display for Utf8Error` -/
def Err.text : Err → Bytes
  | .invalid upTo len =>
    Ascii.ofString "invalid utf-8 sequence of " ++ decimal len ++ Ascii.ofString " bytes from index " ++ decimal upTo
  | .incomplete upTo =>
    Ascii.ofString "incomplete utf-8 byte sequence from index " ++ decimal upTo

end Utf8
