import TonicModel.Basic.Bytes
/-
Observation vocabulary for C05 (compression negotiation), shared by the model
(`Model/Compression`) and the oracle (`Spec/Compression`): what a case feeds to a
`server::Grpc` / `client::Grpc` and what can be seen coming out of it (headers of interest,
frame flags, payload *forms*, statuses).  No behaviour lives here.  Core Lean only.
-/
namespace CompObs

/-- The three message encodings tonic knows (cargo features gzip, deflate, zstd all on). -/
inductive Enc | gzip | deflate | zstd
deriving DecidableEq, Repr

def Enc.all : List Enc := [.gzip, .deflate, .zstd]

theorem Enc.mem_all (e : Enc) : e ∈ Enc.all := by cases e <;> simp [Enc.all]

/-- A configuration call on an `EnabledCompressionEncodings` value (`enable(e)` / `pop()`);
`server::Grpc::{accept,send}_compressed(e)` and `client::Grpc::accept_compressed(e)` are
`enable(e)` on the corresponding set. -/
inductive Call | en (e : Enc) | pop
deriving DecidableEq, Repr

/-- The four call shapes of `server::Grpc` / `client::Grpc`. -/
inductive Shape | unary | serverStreaming | clientStreaming | bidi
deriving DecidableEq, Repr

/-- `true` for the shapes whose single response message honours `Response::disable_compression`
(and whose client result is a single message). -/
def Shape.singleResponse : Shape → Bool
  | .unary | .clientStreaming => true
  | _ => false

/-- `true` for the shapes whose request is read by the library before the handler runs
(`map_request_unary`). -/
def Shape.singleRequest : Shape → Bool
  | .unary | .serverStreaming => true
  | _ => false

/-- The form of a frame payload relative to the case's reference message: the message bytes
themselves, a valid `e`-compression of them (judged by an independent decompressor in the
harness), or anything else. -/
inductive Form | raw | z (e : Enc) | other
deriving DecidableEq, Repr

/-- One length-prefixed message as put on / seen on the wire: compressed-flag byte and payload
form.  (Lengths are always correct in C05 cases; framing is C01/C07's subject.) -/
structure Frame where
  flag : UInt8
  form : Form
deriving DecidableEq, Repr

/-- Classes of error descriptions the property talks about. -/
inductive ErrCls
  | flagNoEnc     -- "compressed-flag but no grpc-encoding was specified"
  | badFlag       -- "invalid compression flag"
  | missing       -- "Missing request/response message."
  | decompress    -- "Error decompressing"
  | unsupported   -- "Content is compressed with `..` which isn't supported"
  | handler       -- the scripted handler's own failure
  | peerStatus    -- a status the scripted peer put into headers / trailers
  | none          -- no error (code 0)
  | other
deriving DecidableEq, Repr

/-- What a receiver hands to the application for one message, or the error that ended the
stream. -/
inductive Item
  | ok (form : Form)
  | err (code : Nat) (cls : ErrCls)
deriving DecidableEq, Repr

def Item.isErr : Item → Bool
  | .err _ _ => true
  | .ok _ => false

/-- Where a response carried its `grpc-status`. -/
inductive Where | hdr | trl | absent
deriving DecidableEq, Repr

/-- Scripted server handler. `reply n disable md`: answer with `n` copies of the reference
response message (always one for unary / client-streaming), optionally after
`Response::disable_compression()`, with the response metadata carrying `md` as `grpc-encoding`
values (normally none).  `fail code`: return `Err(Status::new(code, "h"))`. -/
inductive Handler
  | reply (n : Nat) (disable : Bool) (md : List Bytes)
  | fail (code : Nat)
deriving DecidableEq, Repr

/-- the handler puts `grpc-encoding` values of its own into the response metadata -/
def Handler.forges : Handler → Bool
  | .reply _ _ md => !md.isEmpty
  | .fail _ => false

/-- A request as presented to `server::Grpc`: values of the two negotiation headers (in header
order) and the body's frames. -/
structure SrvReq where
  shape : Shape
  encVals : List Bytes
  accVals : List Bytes
  frames : List Frame
deriving DecidableEq, Repr

/-- Everything observed of one server call. -/
structure SrvObs where
  called : Bool            -- was the handler invoked
  saw : List Item          -- what the handler read from its request (message forms / first error)
  enc : List Bytes         -- response `grpc-encoding` values
  acc : List Bytes         -- response `grpc-accept-encoding` values
  stWhere : Where
  stCode : Nat
  stCls : ErrCls
  frames : List Frame      -- response body frames (form relative to the reference response message)
deriving DecidableEq, Repr

/-- A response as presented to `client::Grpc` by its transport: `grpc-encoding` values, a
`grpc-status` in the headers (trailers-only) if any, the body's frames, the trailers'
`grpc-status` if any; `accVals` = the response's `grpc-accept-encoding` header values (they end
up in the metadata of a trailers-only error), `peerCls` = the class of the peer's own status
message (`peerStatus` for a scripted peer; a real tonic server's refusal carries its own). -/
structure CliResp where
  encVals : List Bytes
  hdrStatus : Option Nat
  frames : List Frame
  trlStatus : Option Nat
  accVals : List Bytes := []
  peerCls : ErrCls := .peerStatus
deriving DecidableEq, Repr

/-- Everything observed of one client call: the request that reached the transport and the
caller-visible result (for unary / client-streaming a single item). -/
structure CliObs where
  enc : List Bytes         -- request `grpc-encoding` values
  acc : List Bytes         -- request `grpc-accept-encoding` values
  frames : List Frame      -- request body frames (form relative to the request message)
  result : List Item
  errAcc : List Bytes      -- `grpc-accept-encoding` values in the error status' metadata
deriving DecidableEq, Repr

end CompObs
