import TonicModel.Basic.TlsVocab
/-
The concrete world the C15 correspondence run lives in: the committed test PKI of
`harness/certs` (see `gen.sh`) as data, webpki's path/name validation restricted to that PKI,
RFC 7301 ALPN selection, and the order in which a TLS 1.3 handshake between two rustls
endpoints detects failures.  None of this is tonic code; it instantiates the parameters
(`verifies`, `hs`) the model and the theorems are abstract in, and `Props/C15` shows that it
satisfies the contract `Spec.Tls.RustlsLaws` assumed there.
-/
namespace Tls.TestPki
open Tls

inductive Cert
  | ca1 | ca2 | ica1
  | s1good | s1bad | s2good | s1ip
  | c1 | c2 | c1leaf
  deriving DecidableEq, Repr

def Cert.issuer : Cert → Cert
  | .ca1 => .ca1 | .ca2 => .ca2 | .ica1 => .ca1
  | .s1good => .ca1 | .s1bad => .ca1 | .s2good => .ca2 | .s1ip => .ca1
  | .c1 => .ca1 | .c2 => .ca2 | .c1leaf => .ica1

def Cert.isCa : Cert → Bool
  | .ca1 | .ca2 | .ica1 => true
  | _ => false

/-- subjectAltName entries (DNS names and IP addresses, as text) -/
def Cert.sans : Cert → List String
  | .s1good => ["good.test"]
  | .s1bad => ["other.test"]
  | .s2good => ["good.test"]
  | .s1ip => ["127.0.0.1", "good.test"]
  | _ => []

inductive Eku | server | client | any
  deriving DecidableEq

def Cert.eku : Cert → Eku
  | .s1good | .s1bad | .s2good | .s1ip => .server
  | .c1 | .c2 | .c1leaf => .client
  | _ => .any

/-- webpki path building over this PKI: from `cur`, is there a path to a trust anchor through
CA certificates supplied in the chain?  (An anchor is matched as the issuer of `cur`.) -/
def pathFrom (roots inter : List Cert) : Nat → Cert → Bool
  | 0, _ => false
  | fuel + 1, cur =>
    roots.contains cur.issuer ||
    (inter.contains cur.issuer && cur.issuer.isCa && cur.issuer != cur && pathFrom roots inter fuel cur.issuer)

def pathOk (roots : List Cert) (chain : List Cert) : Bool :=
  match chain with
  | [] => false
  | leaf :: inter => !leaf.isCa && pathFrom roots inter 3 leaf

/-- Outcome of the client's verification of the server chain: `none` = accepted. Path first,
then the name (webpki's order). -/
def verifyServer (roots : List Cert) (chain : List Cert) (name : String) : Option CertFault :=
  match chain with
  | [] => some .other
  | leaf :: _ =>
    if !pathOk roots chain then some .unknownIssuer
    else if leaf.eku = .client then some .other
    else if !leaf.sans.contains name then some .nameMismatch
    else none

def verifies (roots : List Cert) (chain : List Cert) (name : String) : Bool :=
  (verifyServer roots chain name).isNone

def verifiesClient (roots : List Cert) (chain : List Cert) : Bool :=
  match chain with
  | [] => false
  | leaf :: _ => pathOk roots chain && leaf.eku != .server

/-- RFC 7301 as rustls' server does it: no extension unless both sides have a list; the
server's first protocol the client offers; no overlap is fatal (`none`). -/
def negotiate (offer srv : List String) : Option (Option String) :=
  if srv.isEmpty || offer.isEmpty then some none
  else match srv.find? (fun p => offer.contains p) with
    | some p => some (some p)
    | none => none

/-- The server's decision on the client certificate. -/
def serverSide (mode : ClientAuth Cert) (identity : Option (List Cert)) : Option (Option (List Cert)) :=
  match mode with
  | .off => some none
  | .required rs =>
    match identity with
    | some ch => if verifiesClient rs ch then some (some ch) else none
    | none => none
  | .optional rs =>
    match identity with
    | some ch => if verifiesClient rs ch then some (some ch) else none
    | none => some none

/-- A TLS 1.3 handshake between two rustls endpoints: ALPN refusal is the server's first
reaction to the ClientHello; then the client judges the server chain; the client side is then
complete, and only afterwards does the server judge the client certificate. -/
def handshake : Handshake Cert (List Cert) := fun c s =>
  match negotiate c.alpn s.alpn with
  | none => { client := .alert, server := none }
  | some a =>
    match verifyServer c.roots s.chain c.domain with
    | some f => { client := .badCert f, server := none }
    | none => { client := .done a, server := serverSide s.clientAuth c.identity }

/-- The harness is built with `tls-ring` only: no native / webpki root features. The only
string in the harness' vocabulary that `ServerName::try_from` rejects is `not a name!`. -/
def sys : Sys Cert :=
  { featNative := false, featWebpki := false, nativeCerts := [], webpkiRoots := [],
    validServerName := fun s => s != "not a name!" }

/-- The side builds of the correspondence run (`harness_c15n`, `harness_c15nw`): tonic linked with
`tls-native-roots` (and `tls-webpki-roots`).  The platform store is whatever `SSL_CERT_FILE`
points rustls-native-certs at for the case (`store`); the `webpki-roots` crate of the `nw`
build is a stand-in whose one anchor is the test CA `ca2`. -/
def sysWith (webpki : Bool) (store : List Cert) : Sys Cert :=
  { featNative := true, featWebpki := webpki, nativeCerts := store, webpkiRoots := [.ca2],
    validServerName := fun s => s != "not a name!" }

end Tls.TestPki
