import TonicModel.Basic.Bytes
/-
Trailer maps as they travel through tonic-web: an `http::HeaderMap` built by `append`ing
(name, value) pairs in order.  `HeaderMap::iter` walks the entries in first-insertion order and,
for each entry, all of its values in insertion order — `group`.  Map equality is per key
(`getAll`).  Also: literal ASCII strings as byte lists in a form the kernel can evaluate.
Core Lean only.
-/
namespace TMap

abbrev Pair := Bytes × Bytes

/-- ASCII string literal as bytes (reduces under `decide`, unlike `String.toUTF8`). -/
def str (s : String) : Bytes := s.toList.map (fun c => UInt8.ofNat c.toNat)

/-- all values stored under `k`, in order (`HeaderMap::get_all`). -/
def getAll (k : Bytes) (l : List Pair) : List Bytes :=
  (l.filter (fun p => p.1 == k)).map (·.2)

/-- Iteration order of a `HeaderMap` built by appending the pairs of `l` in order
(fuel = length; the recursion is on the fuel so that it stays structural). -/
def groupAux : Nat → List Pair → List Pair
  | 0, _ => []
  | _ + 1, [] => []
  | n + 1, (k, v) :: r =>
    (k, v) :: (r.filter (fun p => p.1 == k)) ++ groupAux n (r.filter (fun p => !(p.1 == k)))

def group (l : List Pair) : List Pair := groupAux l.length l

theorem getAll_append (k : Bytes) (a b : List Pair) :
    getAll k (a ++ b) = getAll k a ++ getAll k b := by
  simp [getAll]

theorem getAll_cons (k : Bytes) (p : Pair) (t : List Pair) :
    getAll k (p :: t) = (if p.1 == k then [p.2] else []) ++ getAll k t := by
  simp only [getAll, List.filter_cons]; split <;> simp

theorem getAll_groupAux (k : Bytes) : ∀ (n : Nat) (l : List Pair), l.length ≤ n →
    getAll k (groupAux n l) = getAll k l := by
  intro n
  induction n with
  | zero => intro l h; cases l with
    | nil => rfl
    | cons _ _ => simp at h
  | succ n ih =>
    intro l h
    cases l with
    | nil => rfl
    | cons p r =>
      obtain ⟨k0, v⟩ := p
      have hlen : (r.filter (fun p => !(p.1 == k0))).length ≤ n := by
        have := List.length_filter_le (fun p : Pair => !(p.1 == k0)) r
        simp only [List.length_cons] at h; omega
      simp only [groupAux]
      rw [getAll_append, ih _ hlen, getAll_cons, getAll_cons]
      by_cases hk : k0 = k
      · subst hk
        have e1 : getAll k0 (r.filter (fun p => !(p.1 == k0))) = [] := by
          simp [getAll, List.filter_filter]
        have e2 : getAll k0 (r.filter (fun p => p.1 == k0)) = getAll k0 r := by
          simp [getAll, List.filter_filter]
        simp [e1, e2]
      · have hb : (k0 == k) = false := by simpa using hk
        have e1 : getAll k (r.filter (fun p => p.1 == k0)) = [] := by
          simp only [getAll, List.filter_filter, List.map_eq_nil_iff, List.filter_eq_nil_iff]
          intro p _; simp; intro h1 h2; exact hk (h2.symm.trans h1)
        have e2 : getAll k (r.filter (fun p => !(p.1 == k0))) = getAll k r := by
          simp only [getAll, List.filter_filter]
          congr 1
          apply List.filter_congr
          intro p _
          by_cases hp : p.1 = k
          · simp [hp]; intro h'; exact hk h'.symm
          · simp [hp]
        simp [hb, e1, e2]

theorem getAll_group (k : Bytes) (l : List Pair) : getAll k (group l) = getAll k l :=
  getAll_groupAux k l.length l (Nat.le_refl _)

theorem groupAux_mem (p : Pair) : ∀ (n : Nat) (l : List Pair), l.length ≤ n →
    (p ∈ groupAux n l ↔ p ∈ l) := by
  intro n
  induction n with
  | zero => intro l h; cases l with
    | nil => simp [groupAux]
    | cons _ _ => simp at h
  | succ n ih =>
    intro l h
    cases l with
    | nil => simp [groupAux]
    | cons q r =>
      obtain ⟨k0, v⟩ := q
      have hlen : (r.filter (fun p => !(p.1 == k0))).length ≤ n := by
        have := List.length_filter_le (fun p : Pair => !(p.1 == k0)) r
        simp only [List.length_cons] at h; omega
      simp only [groupAux, List.mem_cons, List.mem_append, List.mem_filter, ih _ hlen]
      by_cases h : p.1 = k0 <;> simp [h]

theorem group_mem (p : Pair) (l : List Pair) : p ∈ group l ↔ p ∈ l :=
  groupAux_mem p l.length l (Nat.le_refl _)

end TMap
