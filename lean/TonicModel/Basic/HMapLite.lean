import TonicModel.Basic.Bytes
/-
`HMapLite` — a small ordered-multimap model of `http::HeaderMap` (generic in the value type) and
the plain *data* records of an HTTP request / response / gRPC status that the interceptor model
(C12) and its oracle share.  Only data and the per-key view live here; what tonic *does* with
them is in `Model/`, what the property demands is in `Spec/`.  Core Lean only.

Representation: a list of `(name, value)` entries in insertion order, names already lower-case
(`HeaderName` normalises).  Only the per-key view `getAll k` is observable in any property
(cross-key iteration order of `HeaderMap` is unspecified), so every operation is characterised by
its effect on `getAll` (lemmas below) and the canonical form used on the wire protocol is the
stable sort by name.
-/
namespace HMapLite

abbrev HMap (ν : Type) := List (Bytes × ν)

variable {ν : Type}

/-- ASCII string literal as bytes (kernel-reducible, unlike `String.toUTF8`). -/
def str (s : String) : Bytes := s.toList.map (fun c => UInt8.ofNat c.toNat)

/-- `HeaderName::from_bytes` lower-cases ASCII letters. -/
def normName (n : Bytes) : Bytes := n.map Ascii.toLower

/-- `HeaderMap::get_all(k)`: the values stored under `k`, in insertion order. -/
def getAll (k : Bytes) (m : HMap ν) : List ν := (m.filter (fun e => e.1 == k)).map (·.2)

/-- `HeaderMap::remove(k)`: drops every value of `k`. -/
def remove (k : Bytes) (m : HMap ν) : HMap ν := m.filter (fun e => !(e.1 == k))

/-- `HeaderMap::insert(k, v)`: replaces all values of `k` by the single value `v`. -/
def insert (k : Bytes) (v : ν) (m : HMap ν) : HMap ν := remove k m ++ [(k, v)]

/-- `HeaderMap::append(k, v)`: adds `v` after the existing values of `k`. -/
def append (k : Bytes) (v : ν) (m : HMap ν) : HMap ν := m ++ [(k, v)]

def keys (m : HMap ν) : List Bytes := m.map (·.1)

def contains (k : Bytes) (m : HMap ν) : Bool := m.any (fun e => e.1 == k)

/-- `HeaderMap::extend(other)` where `other` is another header map's `into_iter()` (which yields
each key's values grouped): a key present in `other` has its values *replaced* by `other`'s, all
other keys are kept. -/
def extend (m o : HMap ν) : HMap ν := m.filter (fun e => !(contains e.1 o)) ++ o

/-- remove a list of names (`into_sanitized_headers` removes a fixed list) -/
def removeAll (ks : List Bytes) (m : HMap ν) : HMap ν := ks.foldl (fun acc k => remove k acc) m

/-! ### canonical form (stable sort by name) -/

def bytesLe : Bytes → Bytes → Bool
  | [], _ => true
  | _ :: _, [] => false
  | a :: as, b :: bs => if a.toNat < b.toNat then true else if b.toNat < a.toNat then false else bytesLe as bs

/-- insert `e` after every element whose name is `≤` its name (keeps insertion order per name) -/
def sortedInsert (e : Bytes × ν) : HMap ν → HMap ν
  | [] => [e]
  | x :: xs => if bytesLe x.1 e.1 then x :: sortedInsert e xs else e :: x :: xs

def canon (m : HMap ν) : HMap ν := m.foldl (fun acc e => sortedInsert e acc) []

/-! ### per-key characterisation of the operations -/

theorem getAll_nil (k : Bytes) : getAll k ([] : HMap ν) = [] := rfl

theorem getAll_append_list (k : Bytes) (a b : HMap ν) :
    getAll k (a ++ b) = getAll k a ++ getAll k b := by
  simp [getAll]

/-- filtering by a predicate that is constant (`c`) on the entries of key `k` -/
theorem getAll_filter_of (k : Bytes) (p : Bytes × ν → Bool) (m : HMap ν) (c : Bool)
    (h : ∀ a : Bytes × ν, a.1 = k → p a = c) :
    getAll k (m.filter p) = if c then getAll k m else [] := by
  simp only [getAll, List.filter_filter]
  have : ∀ a : Bytes × ν, ((a.1 == k) && p a) = ((a.1 == k) && c) := by
    intro a
    by_cases h' : a.1 = k
    · rw [h a h']
    · have hb : (a.1 == k) = false := beq_eq_false_iff_ne.mpr h'
      rw [hb]; rfl
  cases c <;> simp [this]

theorem getAll_remove_self (k : Bytes) (m : HMap ν) : getAll k (remove k m) = [] := by
  have := getAll_filter_of k (fun e : Bytes × ν => !(e.1 == k)) m false (by intro a h; simp [h])
  simpa [remove] using this

theorem getAll_remove_ne (k k' : Bytes) (m : HMap ν) (h : k' ≠ k) :
    getAll k' (remove k m) = getAll k' m := by
  have := getAll_filter_of k' (fun e : Bytes × ν => !(e.1 == k)) m true (by intro a h'; simp [h', h])
  simpa [remove] using this

theorem getAll_single_self (k : Bytes) (v : ν) : getAll k [(k, v)] = [v] := by simp [getAll]

theorem getAll_single_ne (k k' : Bytes) (v : ν) (h : k' ≠ k) : getAll k' [(k, v)] = [] := by
  have h2 : ¬ k = k' := fun h3 => h h3.symm
  simp [getAll, h2]

theorem getAll_insert_self (k : Bytes) (v : ν) (m : HMap ν) : getAll k (insert k v m) = [v] := by
  rw [insert, getAll_append_list, getAll_remove_self, getAll_single_self]; rfl

theorem getAll_insert_ne (k k' : Bytes) (v : ν) (m : HMap ν) (h : k' ≠ k) :
    getAll k' (insert k v m) = getAll k' m := by
  rw [insert, getAll_append_list, getAll_remove_ne k k' m h, getAll_single_ne k k' v h]; simp

theorem getAll_append_self (k : Bytes) (v : ν) (m : HMap ν) :
    getAll k (append k v m) = getAll k m ++ [v] := by
  rw [append, getAll_append_list, getAll_single_self]

theorem getAll_append_ne (k k' : Bytes) (v : ν) (m : HMap ν) (h : k' ≠ k) :
    getAll k' (append k v m) = getAll k' m := by
  rw [append, getAll_append_list, getAll_single_ne k k' v h]; simp

theorem getAll_removeAll_not_mem (ks : List Bytes) (k : Bytes) (m : HMap ν) (h : k ∉ ks) :
    getAll k (removeAll ks m) = getAll k m := by
  induction ks generalizing m with
  | nil => rfl
  | cons x xs ih =>
    simp only [removeAll, List.foldl_cons]
    have hx : k ≠ x := fun e => h (e ▸ List.mem_cons_self)
    have hxs : k ∉ xs := fun e => h (List.mem_cons_of_mem _ e)
    have := ih (remove x m) hxs
    simp only [removeAll] at this
    rw [this, getAll_remove_ne x k m hx]

theorem getAll_removeAll_mem (ks : List Bytes) (k : Bytes) (m : HMap ν) (h : k ∈ ks) :
    getAll k (removeAll ks m) = [] := by
  induction ks generalizing m with
  | nil => cases h
  | cons x xs ih =>
    simp only [removeAll, List.foldl_cons]
    by_cases hx : k ∈ xs
    · have := ih (remove x m) hx
      simpa only [removeAll] using this
    · have hk : k = x := by
        cases h with
        | head => rfl
        | tail _ h' => exact absurd h' hx
      subst hk
      have := getAll_removeAll_not_mem xs k (remove k m) hx
      simp only [removeAll] at this
      rw [this, getAll_remove_self]

theorem contains_eq_false_iff (k : Bytes) (m : HMap ν) :
    contains k m = false ↔ getAll k m = [] := by
  induction m with
  | nil => simp [contains, getAll]
  | cons e es ih =>
    by_cases h : e.1 = k
    · simp [contains, getAll, h]
    · simp only [contains, getAll] at ih
      simp [contains, getAll, h, ih]

theorem getAll_filter_not_contains (k : Bytes) (m o : HMap ν) :
    getAll k (m.filter (fun e => !(contains e.1 o))) = if contains k o then [] else getAll k m := by
  have := getAll_filter_of k (fun e : Bytes × ν => !(contains e.1 o)) m (!(contains k o))
    (by intro a h; simp [h])
  rw [this]
  cases contains k o <;> simp

/-- `extend`: keys of `o` are replaced by `o`'s values, every other key is untouched. -/
theorem getAll_extend (k : Bytes) (m o : HMap ν) :
    getAll k (extend m o) = if contains k o then getAll k o else getAll k m := by
  simp only [extend, getAll_append_list, getAll_filter_not_contains]
  cases hc : contains k o
  · have := (contains_eq_false_iff k o).mp hc
    simp [this]
  · simp

end HMapLite

/-! ## Plain HTTP / gRPC data records (no behaviour) -/
namespace HttpLite
open HMapLite

/-- a header value: its bytes and `HeaderValue::is_sensitive` -/
abbrev HVal := Bytes × Bool
abbrev Hdrs := HMap HVal
/-- `http::Extensions` restricted to a family of marker types numbered by `Nat`: at most one value
per type id; insertion replaces. -/
abbrev Ext := List (Nat × Bytes)

/-- `http::Request<β>`: method / version / URI are opaque tokens (as rendered by the `http` crate). -/
structure Request (β : Type) where
  method : Bytes
  version : Nat
  uri : Bytes
  headers : Hdrs
  ext : Ext
  body : β
deriving Repr, DecidableEq

/-- `http::Response<ρ>` -/
structure Response (ρ : Type) where
  status : Nat
  version : Nat
  headers : Hdrs
  ext : Ext
  body : ρ
deriving Repr, DecidableEq

/-- `tonic::Status` as data: numeric code 0..16, message bytes (a Rust `String`), opaque details,
custom metadata.  (The `source` error is not observable on the wire and is not modelled.) -/
structure GStatus where
  code : Nat
  message : Bytes
  details : Bytes
  metadata : Hdrs
deriving Repr, DecidableEq

/-- A scripted body: data chunks then optional trailers. -/
structure Body where
  chunks : List Bytes
  trailers : Option Hdrs
deriving Repr, DecidableEq

def Ext.set (id : Nat) (v : Bytes) (x : Ext) : Ext := x.filter (fun e => !(e.1 == id)) ++ [(id, v)]
def Ext.unset (id : Nat) (x : Ext) : Ext := x.filter (fun e => !(e.1 == id))

def Ext.sortedInsert (e : Nat × Bytes) : Ext → Ext
  | [] => [e]
  | x :: xs => if x.1 ≤ e.1 then x :: Ext.sortedInsert e xs else e :: x :: xs
def Ext.canon (x : Ext) : Ext := x.foldl (fun acc e => Ext.sortedInsert e acc) []

end HttpLite
