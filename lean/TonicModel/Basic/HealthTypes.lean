import TonicModel.Basic.Bytes
/-
Vocabulary shared by the health-service model (`Model/Health`) and its oracle (`Spec/Health`):
serving statuses, service names, the five operations of property C18 (plus dropping a watch
stream) and what each of them can answer.  No behaviour lives here.
-/
namespace Health

/-- `tonic_health::ServingStatus` (wire values 0, 1, 2). -/
inductive St
  | unknown | serving | notServing
deriving DecidableEq, Repr, Inhabited

/-- Service names are Rust `String`s; the model keeps their UTF-8 bytes.  `[]` is the empty
name, which stands for the server as a whole. -/
abbrev Name := Bytes

/-- One step of a history.  Watch streams are numbered 0, 1, 2, … in the order of the `watch`
calls (accepted or refused), so `next w` / `drop w` name the stream opened by the `w`-th call. -/
inductive Op
  | set (n : Name) (s : St)      -- HealthReporter::set_service_status
  | clear (n : Name)             -- HealthReporter::clear_service_status
  | check (n : Name)             -- Health/Check
  | watch (n : Name)             -- Health/Watch
  | next (w : Nat)               -- poll stream `w` once for its next message
  | drop (w : Nat)               -- the client drops stream `w`
deriving DecidableEq, Repr

inductive Resp
  | done                         -- set / clear / drop completed
  | status (s : St)              -- Check answered
  | notFound                     -- Check / Watch: NOT_FOUND
  | subscribed                   -- Watch accepted
  | value (s : St)               -- the stream delivered a status
  | pending                      -- the stream has nothing to deliver now
  | ended                        -- the stream is over
  | noWatcher                    -- `next` / `drop` on a slot that holds no stream
deriving DecidableEq, Repr

/-- An event of a history: an operation together with its answer. -/
abbrev Ev := Op × Resp

/-- Histories are kept newest event first. -/
abbrev Hist := List Ev

/-! Histories with awaiting watchers (the "parked watcher" cases of C18): besides the operations
above a history may contain `await w` — a task is spawned that awaits the next message of
stream `w` and is not polled again by anybody unless its waker is fired. -/

inductive Item
  | op (o : Op)
  | await (w : Nat)
deriving DecidableEq, Repr

inductive Ans
  | plain (r : Resp)     -- the answer `step` gives
  | parked               -- `await`: nothing to deliver, the task is parked
  | busy                 -- `next` / `await` on a stream held by a parked task
deriving DecidableEq, Repr

structure Out where
  ans : Ans
  /-- parked tasks that completed because of this item, with what they were delivered -/
  woken : List (Nat × Resp)
deriving DecidableEq, Repr

end Health
