/-
Vocabulary for fault scripts against a LOAD-BALANCED channel (C14, `Channel::balance_list` /
`Channel::balance_channel`), shared by the model and the independent spec: what the script does,
and what the caller of one call can observe.  Core Lean only; no behaviour is defined here.
-/
namespace BalScript

/-- One step of a script, issued at a quiescent point. Endpoints are named by a key. -/
inductive BOp
  /-- a server starts listening on endpoint `k`'s address (a new server generation) -/
  | up (k : Nat)
  /-- endpoint `k`'s server goes away: the listener is closed, its connections are dropped -/
  | down (k : Nat)
  /-- `Change::Insert(k, endpoint)` is sent to the channel's discover stream -/
  | insert (k : Nat)
  /-- `Change::Remove(k)` is sent to the channel's discover stream -/
  | remove (k : Nat)
  /-- the application issues one call and waits for its result -/
  | call
deriving DecidableEq, Repr

/-- What the caller of one call sees. Every test server tags its answers with its endpoint key
and its generation; an error carries no hint of the endpoint it came from. -/
inductive BObs
  /-- answered by generation `gen` of endpoint `k`'s server -/
  | resp (k gen : Nat)
  /-- the error of a failed connection attempt (a `ConnectError` is in its source chain), with
  the gRPC code the caller derives from it -/
  | error (code : Nat)
  /-- an error that is not the failure of a connection attempt: the call went out on a
  connection whose peer was gone -/
  | lost
  /-- no result within the bound -/
  | hang
  | garbled
deriving DecidableEq, Repr

end BalScript
