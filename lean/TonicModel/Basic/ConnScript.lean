/-
Vocabulary for connection fault scripts (C14), shared by the model and the independent spec:
what the environment of a reconnecting channel can answer, what a fault script is, and what a
caller can observe.  Core Lean only; no behaviour is defined here.
-/
namespace ConnScript

/-- The answer the environment gives to one query of the `Reconnect` state machine
(`MakeService::poll_ready`, a poll of the connect future, or the connection's `poll_ready`):
`Poll::Ready(Ok)`, `Poll::Ready(Err e)` (`e` identifies the error instance) or `Poll::Pending`. -/
inductive Ans
  | ok
  | err (e : Nat)
  | pending
deriving DecidableEq, Repr

/-- How one connection attempt of the end-to-end fault script ends. -/
inductive Outcome
  /-- the connector itself fails (connection refused) -/
  | refuse
  /-- the transport connects and the peer serves HTTP/2 -/
  | accept
  /-- the transport connects but the peer is already gone: the HTTP/2 handshake fails -/
  | deadPeer
  /-- the connector never answers; `Endpoint::connect_timeout` ends the attempt -/
  | timeout
deriving DecidableEq, Repr

def Outcome.connects : Outcome → Bool
  | .accept => true
  | _ => false

/-- What kind of call the application issues. -/
inductive CallKind
  /-- an ordinary call: the peer, once reached, answers it -/
  | plain
  /-- a call whose effective deadline (`grpc-timeout` of the request, `Endpoint::timeout`) is
  zero: it can be sent but never answered in time -/
  | zeroDeadline
  /-- a call that is still in flight (request delivered, response not yet complete) when the peer
  drops the connection -/
  | peerDies
deriving DecidableEq, Repr

/-- One step of a fault script, issued at a quiescent point. -/
inductive Op
  /-- the application issues one call and waits for its result -/
  | call
  /-- the peer drops the established connection -/
  | die
  /-- one call with a zero deadline -/
  | callZero
  /-- one call; the peer drops the connection while it is in flight -/
  | callDie
  /-- two callers issue one call each at the same moment (first one first), both wait -/
  | pair
deriving DecidableEq, Repr

/-- The kind of call an op issues (`none`: not a call). -/
def Op.kind? : Op → Option CallKind
  | .call => some .plain
  | .callZero => some .zeroDeadline
  | .callDie => some .peerDies
  | .die => none
  | .pair => none

/-- What the caller of one call sees. `attempt` is the connection attempt whose failure the
error carries, when the error text identifies it. -/
inductive CallRes
  | resp (conn : Nat)
  | error (code : Nat) (attempt : Option Nat)
  | hang
  | panic
  | garbled
  /-- the call's own deadline expired (`TimeoutExpired`, CANCELLED) -/
  | expired
  /-- the call was in flight on connection `conn` when the peer dropped it: it ended with an
  error that is not a connect error -/
  | lost (conn : Nat)
deriving DecidableEq, Repr

/-- Building the channel (`connect_with_connector` / `connect_with_connector_lazy`). -/
inductive BuildRes
  | ok
  | error (code : Nat) (attempt : Option Nat)
  | hang
deriving DecidableEq, Repr

/-- One observed event; `attempts` is the number of connector invocations so far, read once the
system is quiescent again. -/
inductive Ev
  | call (res : CallRes) (attempts : Nat)
  | die
  /-- two concurrent calls: what the first and the second caller saw; `attempts` once both are done -/
  | pair (first second : CallRes) (attempts : Nat)
deriving DecidableEq, Repr

structure Trace where
  build : BuildRes
  buildAttempts : Nat
  evs : List Ev
deriving DecidableEq, Repr

/-- gRPC status code UNAVAILABLE. -/
def unavailable : Nat := 14

/-- Result of one call driven through the buffer worker over a flat answer script. -/
inductive Res
  | resp (c : Nat)
  /-- the stored connect error, handed to this call -/
  | err (e : Nat)
  /-- `poll_ready` itself failed: the buffer worker closes the channel for good -/
  | closed (e : Nat)
  | hang
  | panic
deriving DecidableEq, Repr

/-- How building the channel over a flat script ended (`none`: a lazy channel is not connected
when built). -/
inductive SessBuild
  | none
  | ok
  | fail (e : Nat)
  | hang
  | panic
deriving DecidableEq, Repr

/-! ### scripts over a real network endpoint (`Endpoint::connect` / `connect_lazy`) -/

/-- One step of a script against a real listening socket (loopback TCP port, unix socket). -/
inductive NOp
  /-- a server starts listening on the endpoint's address (a new server generation) -/
  | up
  /-- the server goes away: the listener is closed and its connections are dropped -/
  | down
  /-- the application issues one call and waits for its result -/
  | call
deriving DecidableEq, Repr

/-- What the caller of one call sees; `gen` is the server generation that answered. -/
inductive NRes
  | resp (gen : Nat)
  | error (code : Nat)
  | hang
  | garbled
deriving DecidableEq, Repr

/-- `Endpoint::connect()` / `connect_lazy()`. -/
inductive NBuild
  | ok
  | error (code : Nat)
  | hang
deriving DecidableEq, Repr

structure NTrace where
  build : NBuild
  evs : List NRes
deriving DecidableEq, Repr

end ConnScript
