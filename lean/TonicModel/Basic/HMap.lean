import TonicModel.Basic.Bytes
/-
Ordered multimap model of `http::HeaderMap<HeaderValue>`.

A map is the list of its `(name, value)` entries; names are stored normalised (lower-case, as
`HeaderName` does).  For one name the relative order of its entries is the order of its values
(`get_all`); the order *between* different names is not observable through any property and
is never compared (the harness sorts by name).  Operations follow the crate:
  insert  – replace all values of the name by one
  append  – add a value after the existing ones of that name
  remove  – drop all values of the name
  extend  – (from another HeaderMap) every name of `other` replaces that name's values
            here with `other`'s values in order; other names are kept
  get     – first value of the name
Core Lean only.
-/
set_option linter.unusedSimpArgs false

abbrev HMap := List (Bytes × Bytes)

namespace HMap

/-- an ASCII header name given as a string literal (reduces in the kernel, unlike `toUTF8`) -/
def name (s : String) : Bytes := s.toList.map (fun c => UInt8.ofNat c.toNat)

def getAll (k : Bytes) (m : HMap) : List Bytes :=
  m.filterMap (fun e => if e.1 = k then some e.2 else none)

def get (k : Bytes) (m : HMap) : Option Bytes := (getAll k m).head?

def hasKey (k : Bytes) (m : HMap) : Bool := m.any (fun e => e.1 == k)

def remove (k : Bytes) (m : HMap) : HMap := m.filter (fun e => e.1 != k)

def insert (k v : Bytes) (m : HMap) : HMap := remove k m ++ [(k, v)]

def append (k v : Bytes) (m : HMap) : HMap := m ++ [(k, v)]

def extend (m other : HMap) : HMap := m.filter (fun e => !hasKey e.1 other) ++ other

def removeAll (ks : List Bytes) (m : HMap) : HMap := ks.foldl (fun acc k => remove k acc) m

/-- `HEADER_CHARS` of the `http` crate: token characters, upper case mapped to lower case;
`none` = not allowed in a header name. -/
def headerChar (b : UInt8) : Option UInt8 :=
  let v := b.toNat
  if 65 ≤ v ∧ v ≤ 90 then some (UInt8.ofNat (v + 32))
  else if (97 ≤ v ∧ v ≤ 122) ∨ (48 ≤ v ∧ v ≤ 57) then some b
  else if v = 33 ∨ v = 35 ∨ v = 36 ∨ v = 37 ∨ v = 38 ∨ v = 39 ∨ v = 42 ∨ v = 43 ∨ v = 45
       ∨ v = 46 ∨ v = 94 ∨ v = 95 ∨ v = 96 ∨ v = 124 ∨ v = 126 then some b
  else none

/-- `HeaderName::from_bytes` / the normalisation applied to `&str` lookup keys: `none` when the
string is not a header name (empty, or has a character outside the token set). -/
def normName (s : Bytes) : Option Bytes :=
  if s.isEmpty then none else s.mapM headerChar

/-- `HeaderValue::from_bytes` accepts exactly these bytes. -/
def legalValueByte (b : UInt8) : Bool := (32 ≤ b.toNat && b.toNat != 127) || b.toNat == 9

def legalValue (v : Bytes) : Bool := v.all legalValueByte

/-! ### canonical text form (line protocol): names sorted, values of a name in order -/

def bytesLe : Bytes → Bytes → Bool
  | [], _ => true
  | _ :: _, [] => false
  | a :: as, b :: bs => if a.toNat < b.toNat then true else if b.toNat < a.toNat then false else bytesLe as bs

def keys (m : HMap) : List Bytes := (m.map (·.1)).eraseDups

def sortedKeys (m : HMap) : List Bytes := (keys m).mergeSort bytesLe

/-- tokens: `<#names> (<name> <#values> <value>*)*` with names ascending -/
def render (m : HMap) : List String :=
  let ks := sortedKeys m
  toString ks.length :: ks.flatMap (fun k =>
    let vs := getAll k m
    Hex.encode k :: toString vs.length :: vs.map Hex.encode)

/-- parse `<#entries> (<name> <value>)*` (entries in insertion order, built with `append`);
returns the map and the remaining tokens -/
def parseEntries : Nat → List String → Option (HMap × List String)
  | 0, rest => some ([], rest)
  | n + 1, k :: v :: rest =>
    match Hex.decode k, Hex.decode v, parseEntries n rest with
    | some kb, some vb, some (m, r) => some ((kb, vb) :: m, r)
    | _, _, _ => none
  | _ + 1, _ => none

def parse (toks : List String) : Option (HMap × List String) :=
  match toks with
  | n :: rest => match n.toNat? with
    | some n => parseEntries n rest
    | none => none
  | [] => none

/-- parse the canonical (rendered) form back into a map (used for the spec verdict on observed
output) -/
def parseValues : Nat → Bytes → List String → Option (HMap × List String)
  | 0, _, rest => some ([], rest)
  | n + 1, k, v :: rest =>
    match Hex.decode v, parseValues n k rest with
    | some vb, some (m, r) => some ((k, vb) :: m, r)
    | _, _ => none
  | _ + 1, _, [] => none

def parseGroups : Nat → List String → Option (HMap × List String)
  | 0, rest => some ([], rest)
  | g + 1, k :: n :: rest =>
    match Hex.decode k, n.toNat? with
    | some kb, some n =>
      match parseValues n kb rest with
      | some (m1, r1) =>
        match parseGroups g r1 with
        | some (m2, r2) => some (m1 ++ m2, r2)
        | none => none
      | none => none
    | _, _ => none
  | _ + 1, _ => none

def parseRendered (toks : List String) : Option (HMap × List String) :=
  match toks with
  | g :: rest => match g.toNat? with
    | some g => parseGroups g rest
    | none => none
  | [] => none

/-! ### laws used by the property theorems -/

theorem getAll_nil (k : Bytes) : getAll k [] = [] := rfl

theorem getAll_cons (k : Bytes) (e : Bytes × Bytes) (m : HMap) :
    getAll k (e :: m) = if e.1 = k then e.2 :: getAll k m else getAll k m := by
  by_cases h : e.1 = k <;> simp [getAll, List.filterMap_cons, h]

theorem remove_nil (k : Bytes) : remove k [] = [] := rfl

theorem remove_cons (k : Bytes) (e : Bytes × Bytes) (m : HMap) :
    remove k (e :: m) = if e.1 = k then remove k m else e :: remove k m := by
  by_cases h : e.1 = k <;> simp [remove, List.filter_cons, h]

theorem getAll_append_list (k : Bytes) (a b : HMap) : getAll k (a ++ b) = getAll k a ++ getAll k b := by
  simp [getAll, List.filterMap_append]

theorem getAll_remove_self (k : Bytes) (m : HMap) : getAll k (remove k m) = [] := by
  induction m with
  | nil => rfl
  | cons e m ih =>
    rw [remove_cons]
    by_cases h : e.1 = k
    · rw [if_pos h]; exact ih
    · rw [if_neg h, getAll_cons, if_neg h]; exact ih

theorem getAll_remove_ne (k k' : Bytes) (m : HMap) (h : k ≠ k') : getAll k (remove k' m) = getAll k m := by
  induction m with
  | nil => rfl
  | cons e m ih =>
    rw [remove_cons, getAll_cons]
    by_cases h1 : e.1 = k'
    · have h2 : ¬ e.1 = k := by intro e2; exact h (e2.symm.trans h1)
      rw [if_pos h1, if_neg h2]; exact ih
    · rw [if_neg h1, getAll_cons, ih]

theorem getAll_insert_self (k v : Bytes) (m : HMap) : getAll k (insert k v m) = [v] := by
  rw [insert, getAll_append_list, getAll_remove_self, getAll_cons, if_pos rfl, getAll_nil]; rfl

theorem getAll_insert_ne (k k' v : Bytes) (m : HMap) (h : k ≠ k') : getAll k (insert k' v m) = getAll k m := by
  have h' : ¬ (k', v).1 = k := fun e => h e.symm
  rw [insert, getAll_append_list, getAll_remove_ne k k' m h, getAll_cons, if_neg h', getAll_nil, List.append_nil]

theorem getAll_append_self (k v : Bytes) (m : HMap) : getAll k (append k v m) = getAll k m ++ [v] := by
  rw [append, getAll_append_list, getAll_cons, if_pos rfl, getAll_nil]

theorem getAll_append_ne (k k' v : Bytes) (m : HMap) (h : k ≠ k') : getAll k (append k' v m) = getAll k m := by
  have h' : ¬ (k', v).1 = k := fun e => h e.symm
  rw [append, getAll_append_list, getAll_cons, if_neg h', getAll_nil, List.append_nil]

theorem hasKey_nil (k : Bytes) : hasKey k [] = false := rfl

theorem hasKey_cons (k : Bytes) (e : Bytes × Bytes) (m : HMap) :
    hasKey k (e :: m) = (decide (e.1 = k) || hasKey k m) := by
  by_cases h : e.1 = k <;> simp [hasKey, List.any_cons, h]

theorem hasKey_iff (k : Bytes) (m : HMap) : hasKey k m = true ↔ getAll k m ≠ [] := by
  induction m with
  | nil => simp [hasKey_nil, getAll_nil]
  | cons e m ih =>
    rw [hasKey_cons, getAll_cons]
    by_cases h : e.1 = k
    · simp [h]
    · simp [h, ih]

theorem getAll_eq_nil_of_not_hasKey {k : Bytes} {m : HMap} (h : hasKey k m = false) : getAll k m = [] := by
  by_cases h3 : getAll k m = []
  · exact h3
  · have := (hasKey_iff k m).mpr h3
    rw [h] at this; cases this

theorem getAll_filter_not_hasKey (k : Bytes) (m o : HMap) :
    getAll k (m.filter (fun e => !hasKey e.1 o)) = if hasKey k o then [] else getAll k m := by
  induction m with
  | nil => simp [getAll_nil]
  | cons e m ih =>
    rw [List.filter_cons, getAll_cons]
    by_cases h2 : hasKey e.1 o = true
    · simp only [h2, Bool.not_true, Bool.false_eq_true, if_false]
      rw [ih]
      by_cases h : e.1 = k
      · rw [← h, h2]; simp
      · simp [h]
    · have h2' : hasKey e.1 o = false := by simpa using h2
      simp only [h2', Bool.not_false, if_true]
      rw [getAll_cons, ih]
      by_cases h : e.1 = k
      · rw [← h, h2']; simp
      · simp [h]

/-- `extend`: names present in `other` take `other`'s values, all other names keep theirs. -/
theorem getAll_extend (k : Bytes) (m o : HMap) :
    getAll k (extend m o) = if hasKey k o then getAll k o else getAll k m := by
  rw [extend, getAll_append_list, getAll_filter_not_hasKey]
  by_cases h : hasKey k o = true
  · simp [h]
  · have h' : hasKey k o = false := by simpa using h
    simp [h', getAll_eq_nil_of_not_hasKey h']

theorem getAll_removeAll (k : Bytes) (ks : List Bytes) (m : HMap) :
    getAll k (removeAll ks m) = if k ∈ ks then [] else getAll k m := by
  induction ks generalizing m with
  | nil => simp [removeAll]
  | cons a ks ih =>
    simp only [removeAll, List.foldl_cons] at ih ⊢
    rw [ih]
    by_cases h1 : k ∈ ks
    · simp [h1]
    · by_cases h2 : k = a
      · subst h2; simp [getAll_remove_self]
      · simp [h1, h2, getAll_remove_ne k a m h2]

theorem mem_of_mem_getAll {k v : Bytes} {m : HMap} (h : v ∈ getAll k m) : (k, v) ∈ m := by
  induction m with
  | nil => simp [getAll_nil] at h
  | cons e m ih =>
    rw [getAll_cons] at h
    by_cases h1 : e.1 = k
    · rw [if_pos h1] at h
      rcases List.mem_cons.mp h with h2 | h2
      · have : e = (k, v) := by cases e; simp_all
        rw [this]; exact List.mem_cons_self
      · exact List.mem_cons_of_mem _ (ih h2)
    · rw [if_neg h1] at h
      exact List.mem_cons_of_mem _ (ih h)

theorem mem_getAll_of_mem {k v : Bytes} {m : HMap} (h : (k, v) ∈ m) : v ∈ getAll k m := by
  induction m with
  | nil => cases h
  | cons e m ih =>
    rw [getAll_cons]
    rcases List.mem_cons.mp h with h2 | h2
    · rw [← h2]; simp
    · by_cases h1 : e.1 = k
      · rw [if_pos h1]; exact List.mem_cons_of_mem _ (ih h2)
      · rw [if_neg h1]; exact ih h2

end HMap
