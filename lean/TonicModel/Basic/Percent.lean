import TonicModel.Basic.Bytes
/-
Percent-encoding as tonic uses it for `grpc-message` (`status.rs`: `percent_encode(msg,
ENCODING_SET)` / `percent_decode(value)`; crate `percent-encoding` 2.3):
  * encode: a byte is written as `%HH` (upper-case hex) iff it is non-ASCII or in the set
    CONTROLS ∪ {space " # % < > ` ? { }}; every other byte is copied.
  * decode: `%` followed by two hex digits (either case) is one byte; a `%` not followed by
    two hex digits is copied literally (never an error).
Core Lean only.
-/
namespace Pct

/-- `ENCODING_SET` of `status.rs` plus the crate's "every non-ASCII byte" rule. -/
def inSet (b : UInt8) : Bool :=
  let v := b.toNat
  v < 32 || v == 127 || 128 ≤ v
  || v == 32 || v == 34 || v == 35 || v == 37 || v == 60 || v == 62 || v == 96
  || v == 63 || v == 123 || v == 125

/-- upper-case hex digit of a nibble -/
def hexUp (n : Nat) : UInt8 := if n < 10 then UInt8.ofNat (48 + n) else UInt8.ofNat (55 + n)

/-- `char::to_digit(16)` on a byte -/
def hexVal (c : UInt8) : Option Nat :=
  let v := c.toNat
  if 48 ≤ v ∧ v ≤ 57 then some (v - 48)
  else if 65 ≤ v ∧ v ≤ 70 then some (v - 55)
  else if 97 ≤ v ∧ v ≤ 102 then some (v - 87)
  else none

def PCT : UInt8 := 37

def encode : Bytes → Bytes
  | [] => []
  | b :: rest =>
    if inSet b then PCT :: hexUp (b.toNat / 16) :: hexUp (b.toNat % 16) :: encode rest
    else b :: encode rest

/-- value of the two bytes after a `%`, if both are hex digits -/
def afterPct : Bytes → Option (UInt8 × Bytes)
  | h :: l :: rest =>
    match hexVal h, hexVal l with
    | some x, some y => some (UInt8.ofNat (x * 16 + y), rest)
    | _, _ => none
  | _ => none

theorem afterPct_length {bs : Bytes} {b : UInt8} {rest : Bytes} (h : afterPct bs = some (b, rest)) :
    rest.length < bs.length := by
  match bs with
  | [] => simp [afterPct] at h
  | [_] => simp [afterPct] at h
  | x :: y :: r =>
    simp only [afterPct] at h
    split at h
    · cases h; simp; omega
    · cases h

def decode (bs : Bytes) : Bytes :=
  match bs with
  | [] => []
  | b :: rest =>
    if b = PCT then
      match h : afterPct rest with
      | some (v, rest') =>
        have : rest'.length < rest.length := afterPct_length h
        v :: decode rest'
      | none => b :: decode rest
    else b :: decode rest
termination_by bs.length
decreasing_by all_goals (first | (simp; done) | (simp; omega))

theorem hexVal_hexUp : ∀ n : Fin 16, hexVal (hexUp n.val) = some n.val := by decide

theorem hexVal_hexUp' (n : Nat) (h : n < 16) : hexVal (hexUp n) = some n := hexVal_hexUp ⟨n, h⟩

theorem afterPct_enc (b : UInt8) (rest : Bytes) :
    afterPct (hexUp (b.toNat / 16) :: hexUp (b.toNat % 16) :: rest) = some (b, rest) := by
  have hb := b.toNat_lt
  simp only [afterPct, hexVal_hexUp' _ (show b.toNat / 16 < 16 by omega),
    hexVal_hexUp' _ (show b.toNat % 16 < 16 by omega)]
  have e : b.toNat / 16 * 16 + b.toNat % 16 = b.toNat := by omega
  rw [e]; simp

theorem notInSet_ne_pct (b : UInt8) (h : inSet b = false) : b ≠ PCT := by
  intro e; subst e; revert h; decide

/-- Decoding what was encoded gives back the original bytes, for every byte string. -/
theorem decode_encode (bs : Bytes) : decode (encode bs) = bs := by
  induction bs with
  | nil => simp [encode, decode]
  | cons b rest ih =>
    by_cases hb : inSet b = true
    · simp only [encode, hb, if_true]
      rw [decode]
      simp only [if_true]
      split
      · rename_i v rest' heq
        rw [afterPct_enc] at heq
        cases heq
        rw [ih]
      · rename_i heq
        rw [afterPct_enc] at heq
        cases heq
    · have hb' : inSet b = false := by simpa using hb
      simp only [encode, hb', Bool.false_eq_true, if_false]
      rw [decode]
      simp [notInSet_ne_pct b hb', ih]

/-- bytes that may appear on the wire in a `grpc-message` value per gRPC's PROTOCOL-HTTP2
(`Percent-Byte-Unencoded → %x20-%x24 / %x26-%x7E`, plus `%` itself as the escape) -/
def wireByte (b : UInt8) : Bool := 32 ≤ b.toNat && b.toNat ≤ 126

theorem hexUp_wire : ∀ n : Fin 16, wireByte (hexUp n.val) = true ∧ hexUp n.val ≠ PCT := by decide

theorem notInSet_wire : ∀ b : UInt8, inSet b = false → (33 ≤ b.toNat ∧ b.toNat ≤ 126) := by
  intro b h
  simp only [inSet, Bool.or_eq_false_iff, decide_eq_false_iff_not, beq_eq_false_iff_ne] at h
  omega

/-- Every byte of an encoded message is visible ASCII without space (33..126), so the value
is a legal header value and a spec-conformant `Percent-Encoded` string. -/
theorem encode_visible (bs : Bytes) : ∀ b ∈ encode bs, 33 ≤ b.toNat ∧ b.toNat ≤ 126 := by
  induction bs with
  | nil => simp [encode]
  | cons x rest ih =>
    intro b hb
    by_cases hx : inSet x = true
    · simp only [encode, hx, if_true, List.mem_cons] at hb
      have hx' := x.toNat_lt
      rcases hb with rfl | rfl | rfl | hb
      · decide
      · have := hexUp_wire ⟨x.toNat / 16, by omega⟩
        have h2 : ∀ n : Fin 16, 33 ≤ (hexUp n.val).toNat ∧ (hexUp n.val).toNat ≤ 126 := by decide
        exact h2 ⟨x.toNat / 16, by omega⟩
      · have h2 : ∀ n : Fin 16, 33 ≤ (hexUp n.val).toNat ∧ (hexUp n.val).toNat ≤ 126 := by decide
        exact h2 ⟨x.toNat % 16, by omega⟩
      · exact ih b hb
    · have hx' : inSet x = false := by simpa using hx
      simp only [encode, hx', Bool.false_eq_true, if_false, List.mem_cons] at hb
      rcases hb with rfl | hb
      · exact notInSet_wire _ hx'
      · exact ih b hb

theorem encode_eq_nil (bs : Bytes) : encode bs = [] ↔ bs = [] := by
  cases bs with
  | nil => simp [encode]
  | cons b r => by_cases h : inSet b = true <;> simp [encode, h]

/-! ### what any conformant peer may write

Other gRPC implementations escape a different set of bytes and may use lower-case hex digits.
`encodeWith esc lower` is the family of all such encoders: it escapes exactly the bytes `esc`
selects.  Decoding recovers the message as long as `%` itself is escaped. -/

def hexLow (n : Nat) : UInt8 := if n < 10 then UInt8.ofNat (48 + n) else UInt8.ofNat (87 + n)

def hexDigit (lower : Bool) (n : Nat) : UInt8 := if lower then hexLow n else hexUp n

def encodeWith (esc : UInt8 → Bool) (lower : Bool) : Bytes → Bytes
  | [] => []
  | b :: rest =>
    if esc b then PCT :: hexDigit lower (b.toNat / 16) :: hexDigit lower (b.toNat % 16) :: encodeWith esc lower rest
    else b :: encodeWith esc lower rest

theorem hexVal_hexLow : ∀ n : Fin 16, hexVal (hexLow n.val) = some n.val := by decide

theorem hexVal_hexDigit (lower : Bool) (n : Nat) (h : n < 16) : hexVal (hexDigit lower n) = some n := by
  cases lower
  · exact hexVal_hexUp' n h
  · exact hexVal_hexLow ⟨n, h⟩

theorem afterPct_encWith (lower : Bool) (b : UInt8) (rest : Bytes) :
    afterPct (hexDigit lower (b.toNat / 16) :: hexDigit lower (b.toNat % 16) :: rest) = some (b, rest) := by
  have hb := b.toNat_lt
  simp only [afterPct, hexVal_hexDigit lower _ (show b.toNat / 16 < 16 by omega),
    hexVal_hexDigit lower _ (show b.toNat % 16 < 16 by omega)]
  have e : b.toNat / 16 * 16 + b.toNat % 16 = b.toNat := by omega
  rw [e]; simp

/-- Whatever set of bytes a peer escapes and whichever hex case it uses, as long as it escapes
`%`, decoding gives back the original bytes. -/
theorem decode_encodeWith (esc : UInt8 → Bool) (lower : Bool) (hpct : esc PCT = true) (bs : Bytes) :
    decode (encodeWith esc lower bs) = bs := by
  induction bs with
  | nil => simp [encodeWith, decode]
  | cons b rest ih =>
    by_cases hb : esc b = true
    · simp only [encodeWith, hb, if_true]
      rw [decode]
      simp only [if_true]
      split
      · rename_i v rest' heq
        rw [afterPct_encWith] at heq
        cases heq
        rw [ih]
      · rename_i heq
        rw [afterPct_encWith] at heq
        cases heq
    · have hb' : esc b = false := by simpa using hb
      have hne : b ≠ PCT := by intro e; rw [e, hpct] at hb'; cases hb'
      simp only [encodeWith, hb', Bool.false_eq_true, if_false]
      rw [decode]
      simp [hne, ih]

theorem encode_eq_encodeWith (bs : Bytes) : encode bs = encodeWith inSet false bs := by
  induction bs with
  | nil => rfl
  | cons b rest ih => by_cases h : inSet b = true <;> simp [encode, encodeWith, hexDigit, h, ih]

end Pct
