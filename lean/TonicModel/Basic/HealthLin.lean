import TonicModel.Basic.HealthTypes
/-
Linearizability search for recorded concurrent histories of the health service (C18, thorough
tier).  Generic in the sequential machine: `acc σ op r` returns the next state if answer `r` to
`op` is acceptable in state `σ`.

A recorded call is `(op, inv, res, answer)` with global stamps taken before the call and after
it returned.  Each task's calls are sequential.  A history is linearizable iff the calls can be
put in one order that (1) keeps every task's own order, (2) never puts a call before one that
had returned before it was invoked, and (3) is accepted by the machine.

Tasks address "their own" watch stream: the slot is fixed when the task's `watch` call is
linearized (slots are numbered in linearization order, as in the sequential machine).
-/
namespace Health.Lin

structure Call where
  op : Op
  inv : Nat
  res : Nat
  ans : Resp
deriving Repr

structure Task where
  calls : List Call
  /-- slot of the task's current stream (`noSlot` = none yet) -/
  slot : Nat
deriving Repr

def noSlot : Nat := 1000000000

/-- A call may come next iff no other pending call had already returned before it was invoked;
since each task's stamps increase it suffices to look at the heads. -/
def minimal (c : Call) (others : List Task) : Bool :=
  others.all (fun t => match t.calls with
    | [] => true
    | d :: _ => !(d.res < c.inv))

/-- Rewrites a task-local `next`/`drop` to the task's slot. -/
def localise (t : Task) : Op → Op
  | .next _ => .next t.slot
  | .drop _ => .drop t.slot
  | op => op

/-- All ways of taking the head call of one task out: (call, that task after it, the others). -/
def picks : List Task → List Task → List (Call × Task × List Task)
  | _, [] => []
  | before, t :: after =>
    (match t.calls with
      | [] => []
      | c :: cs => [(c, { t with calls := cs }, before.reverse ++ after)])
    ++ picks (t :: before) after

def total (ts : List Task) : Nat := (ts.map (·.calls.length)).sum

/-- Calls that, by the shape of their answer, change nothing that later answers depend on (a
Check; a poll that delivered nothing; an operation on a slot without a stream).  If such a call
can come next and is accepted now, some linearization starts with it whenever one exists at
all (moving it to the front changes no state seen by the others), so the search commits to it
instead of branching. -/
def readOnly : Op → Resp → Bool
  | .check _, _ => true
  | .next _, .pending => true
  | .next _, .ended => true
  | .next _, .noWatcher => true
  | .drop _, .noWatcher => true
  | _, _ => false

/-- Depth-first search; `fuel` ≥ number of pending calls, `budget` bounds the number of
visited nodes (returned decremented; `(false, 0)` = gave up).  `nslots σ` = number of watch
slots opened so far in state `σ` (to fix the slot of a `watch` call when it is linearized). -/
def search {σ : Type} (acc : σ → Op → Resp → Option σ) (nslots : σ → Nat) :
    Nat → Nat → σ → List Task → Bool × Nat
  | 0, b, _, ts => (total ts == 0, b)
  | fuel + 1, b, s, ts =>
    if b == 0 then (false, 0)
    else if total ts == 0 then (true, b)
    else
      let cands := (picks [] ts).filter (fun (c, _, others) => minimal c others)
      let ro := cands.findSome? (fun (c, t, others) =>
        if readOnly c.op c.ans then
          (acc s (localise t c.op) c.ans).map (fun s' => (s', t :: others))
        else none)
      match ro with
      | some (s', ts') => search acc nslots fuel (b - 1) s' ts'
      | none =>
        cands.foldl (fun (r : Bool × Nat) (cand : Call × Task × List Task) =>
          let (c, t, others) := cand
          if r.1 then r
          else if r.2 == 0 then r
          else match acc s (localise t c.op) c.ans with
            | none => r
            | some s' =>
              let t' := match c.op with
                | .watch _ => { t with slot := nslots s }
                | _ => t
              search acc nslots fuel r.2 s' (t' :: others)) (false, b - 1)

inductive Outcome
  | yes | no | gaveUp
deriving DecidableEq, Repr

def linearizable {σ : Type} (acc : σ → Op → Resp → Option σ) (nslots : σ → Nat) (s : σ)
    (ts : List Task) : Outcome :=
  match search acc nslots (total ts) 300000 s ts with
  | (true, _) => .yes
  | (false, 0) => .gaveUp
  | (false, _) => .no

end Health.Lin
