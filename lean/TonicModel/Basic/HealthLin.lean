import TonicModel.Basic.HealthTypes
/-
Linearizability search for recorded concurrent histories of the health service (C18, thorough
tier).  Generic in the sequential machine: `acc σ op r` returns the next state if answer `r` to
`op` is acceptable in state `σ`.

A recorded call is `(op, inv, res, answer)` with global stamps taken before the call and after
it returned.  Each task's calls are sequential.  A history is linearizable iff the calls can be
put in one order that (1) keeps every task's own order, (2) never puts a call before one that
had returned before it was invoked, and (3) is accepted by the machine.

Tasks address "their own" watch stream: the slot is fixed when the task's `watch` call is
linearized (slots are numbered in linearization order, as in the sequential machine).
-/
namespace Health.Lin

structure Call where
  op : Op
  inv : Nat
  res : Nat
  ans : Resp
deriving Repr

structure Task where
  calls : List Call
  /-- slot of the task's current stream (`noSlot` = none yet) -/
  slot : Nat
deriving Repr

def noSlot : Nat := 1000000000

/-- A call may come next iff no other pending call had already returned before it was invoked;
since each task's stamps increase it suffices to look at the heads. -/
def minimal (c : Call) (others : List Task) : Bool :=
  others.all (fun t => match t.calls with
    | [] => true
    | d :: _ => !(d.res < c.inv))

/-- Rewrites a task-local `next`/`drop` to the task's slot. -/
def localise (t : Task) : Op → Op
  | .next _ => .next t.slot
  | .drop _ => .drop t.slot
  | op => op

/-- All ways of taking the head call of one task out: (call, that task after it, the others). -/
def picks : List Task → List Task → List (Call × Task × List Task)
  | _, [] => []
  | before, t :: after =>
    (match t.calls with
      | [] => []
      | c :: cs => [(c, { t with calls := cs }, before.reverse ++ after)])
    ++ picks (t :: before) after

def total (ts : List Task) : Nat := (ts.map (·.calls.length)).sum

/-- Depth-first search; `fuel` ≥ number of pending calls.  `nslots σ` = number of watch slots
opened so far in state `σ` (to fix the slot of a `watch` call when it is linearized). -/
def search {σ : Type} (acc : σ → Op → Resp → Option σ) (nslots : σ → Nat) :
    Nat → σ → List Task → Bool
  | 0, _, ts => total ts == 0
  | fuel + 1, s, ts =>
    if total ts == 0 then true
    else (picks [] ts).any (fun (c, t, others) =>
      minimal c others &&
      (let op := localise t c.op
       match acc s op c.ans with
       | none => false
       | some s' =>
         let t' := match c.op with
           | .watch _ => { t with slot := nslots s }
           | _ => t
         search acc nslots fuel s' (t' :: others)))

def linearizable {σ : Type} (acc : σ → Op → Resp → Option σ) (nslots : σ → Nat) (s : σ)
    (ts : List Task) : Bool :=
  search acc nslots (total ts) s ts

end Health.Lin
