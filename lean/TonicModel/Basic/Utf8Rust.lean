import TonicModel.Basic.Bytes
/-
`Utf8Rust.valid` — the byte strings Rust's `core::str::from_utf8` accepts (Unicode table 3-7,
"well-formed UTF-8 byte sequences": no over-long forms, no surrogates, nothing above U+10FFFF).
Used wherever the modelled code validates a `String` (prost's `string::merge`).  Core Lean only.
-/
namespace Utf8Rust

def inRange (lo hi : Nat) (b : UInt8) : Bool := lo ≤ b.toNat && b.toNat ≤ hi

/-- continuation byte `80..BF` -/
def cont (b : UInt8) : Bool := inRange 0x80 0xBF b

def valid : Bytes → Bool
  | [] => true
  | a :: rest =>
    if a.toNat < 0x80 then valid rest
    else
      match rest with
      | [] => false
      | b :: rest2 =>
        if inRange 0xC2 0xDF a then cont b && valid rest2
        else
          match rest2 with
          | [] => false
          | c :: rest3 =>
            if a.toNat = 0xE0 then inRange 0xA0 0xBF b && cont c && valid rest3
            else if inRange 0xE1 0xEC a || inRange 0xEE 0xEF a then cont b && cont c && valid rest3
            else if a.toNat = 0xED then inRange 0x80 0x9F b && cont c && valid rest3
            else
              match rest3 with
              | [] => false
              | d :: rest4 =>
                if a.toNat = 0xF0 then inRange 0x90 0xBF b && cont c && cont d && valid rest4
                else if inRange 0xF1 0xF3 a then cont b && cont c && cont d && valid rest4
                else if a.toNat = 0xF4 then inRange 0x80 0x8F b && cont c && cont d && valid rest4
                else false

example : valid [0x61, 0xC3, 0xA9, 0xE2, 0x82, 0xAC, 0xF0, 0x9F, 0x98, 0x80] = true := by decide
example : valid [0xC0, 0x80] = false := by decide
example : valid [0xED, 0xA0, 0x80] = false := by decide
example : valid [0xF4, 0x90, 0x80, 0x80] = false := by decide
example : valid [0xE2, 0x82] = false := by decide

end Utf8Rust
