import TonicModel.Basic.Bytes
/-
Descriptor vocabulary shared by the reflection model and its oracle (C19): the *name skeleton*
of `prost_types::FileDescriptorProto` — exactly the parts `tonic-reflection` reads.  Names are
`Option` because every `name` field of descriptor.proto is `optional` and the code branches on
its absence.  Everything else a descriptor carries (field numbers and types, options,
dependencies, …) is the opaque `extra` of the file; the service never looks at it but must hand
it back unchanged.

Names are byte strings (the UTF-8 bytes of the Rust `String`): the code only concatenates names
with `'.'` and compares them for equality as hash keys, both of which act bytewise.

The message tree is a `mutual` inductive (`Msg` / `MsgList`) so that the indexer and every proof
about it is structurally recursive.
-/
namespace Refl

abbrev Name := Bytes

/-- `EnumDescriptorProto`: name and the names of its values. -/
structure EnumD where
  name : Option Name
  values : List (Option Name)
deriving Repr, DecidableEq

mutual
/-- `DescriptorProto`: name, `nested_type`, `enum_type`, `field` names, `oneof_decl` names. -/
inductive Msg where
  | mk (name : Option Name) (nested : MsgList) (enums : List EnumD)
       (fields : List (Option Name)) (oneofs : List (Option Name))
deriving DecidableEq
inductive MsgList where
  | nil
  | cons (m : Msg) (ms : MsgList)
deriving DecidableEq
end

/-- `ServiceDescriptorProto`: name and method names. -/
structure Service where
  name : Option Name
  methods : List (Option Name)
deriving Repr, DecidableEq

/-- `FileDescriptorProto`. -/
structure File where
  name : Option Name
  package : Option Name
  messages : MsgList
  enums : List EnumD
  services : List Service
  /-- all descriptor content the reflection service does not interpret -/
  extra : Nat
deriving DecidableEq

def MsgList.toList : MsgList → List Msg
  | .nil => []
  | .cons m ms => m :: ms.toList

def MsgList.ofList : List Msg → MsgList
  | [] => .nil
  | m :: ms => .cons m (MsgList.ofList ms)

/-- The `'.'` separating the components of a fully-qualified name. -/
def dot : UInt8 := 46

end Refl
