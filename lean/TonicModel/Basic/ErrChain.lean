/-
Vocabulary for Rust error chains as `tonic::Status::from_error` sees them (C14): an error value is
the list of nodes that walking `std::error::Error::source()` visits, outermost first.  Each node is
described by exactly what `status.rs` can find out about it with `downcast_ref` and the few
questions it asks a `hyper::Error`.  Shared by the model and the independent spec; core Lean only;
no behaviour is defined here.
-/
namespace ErrChain

/-- `std::io::ErrorKind` (the stable kinds of the pinned toolchain). -/
inductive IoKind
  | notFound | permissionDenied | connectionRefused | connectionReset | hostUnreachable
  | networkUnreachable | connectionAborted | notConnected | addrInUse | addrNotAvailable
  | networkDown | brokenPipe | alreadyExists | wouldBlock | notADirectory | isADirectory
  | directoryNotEmpty | readOnlyFilesystem | staleNetworkFileHandle | invalidInput | invalidData
  | timedOut | writeZero | storageFull | notSeekable | quotaExceeded | fileTooLarge | resourceBusy
  | executableFileBusy | deadlock | crossesDevices | tooManyLinks | invalidFilename
  | argumentListTooLong | interrupted | unsupported | unexpectedEof | outOfMemory | other
deriving DecidableEq, Repr

/-- Every kind, for exhaustive tables. -/
def IoKind.all : List IoKind :=
  [.notFound, .permissionDenied, .connectionRefused, .connectionReset, .hostUnreachable,
   .networkUnreachable, .connectionAborted, .notConnected, .addrInUse, .addrNotAvailable,
   .networkDown, .brokenPipe, .alreadyExists, .wouldBlock, .notADirectory, .isADirectory,
   .directoryNotEmpty, .readOnlyFilesystem, .staleNetworkFileHandle, .invalidInput, .invalidData,
   .timedOut, .writeZero, .storageFull, .notSeekable, .quotaExceeded, .fileTooLarge, .resourceBusy,
   .executableFileBusy, .deadlock, .crossesDevices, .tooManyLinks, .invalidFilename,
   .argumentListTooLong, .interrupted, .unsupported, .unexpectedEof, .outOfMemory, .other]

/-- The Rust spelling (`{:?}` of the kind). -/
def IoKind.name : IoKind → String
  | .notFound => "NotFound" | .permissionDenied => "PermissionDenied"
  | .connectionRefused => "ConnectionRefused" | .connectionReset => "ConnectionReset"
  | .hostUnreachable => "HostUnreachable" | .networkUnreachable => "NetworkUnreachable"
  | .connectionAborted => "ConnectionAborted" | .notConnected => "NotConnected"
  | .addrInUse => "AddrInUse" | .addrNotAvailable => "AddrNotAvailable"
  | .networkDown => "NetworkDown" | .brokenPipe => "BrokenPipe"
  | .alreadyExists => "AlreadyExists" | .wouldBlock => "WouldBlock"
  | .notADirectory => "NotADirectory" | .isADirectory => "IsADirectory"
  | .directoryNotEmpty => "DirectoryNotEmpty" | .readOnlyFilesystem => "ReadOnlyFilesystem"
  | .staleNetworkFileHandle => "StaleNetworkFileHandle" | .invalidInput => "InvalidInput"
  | .invalidData => "InvalidData" | .timedOut => "TimedOut" | .writeZero => "WriteZero"
  | .storageFull => "StorageFull" | .notSeekable => "NotSeekable"
  | .quotaExceeded => "QuotaExceeded" | .fileTooLarge => "FileTooLarge"
  | .resourceBusy => "ResourceBusy" | .executableFileBusy => "ExecutableFileBusy"
  | .deadlock => "Deadlock" | .crossesDevices => "CrossesDevices" | .tooManyLinks => "TooManyLinks"
  | .invalidFilename => "InvalidFilename" | .argumentListTooLong => "ArgumentListTooLong"
  | .interrupted => "Interrupted" | .unsupported => "Unsupported"
  | .unexpectedEof => "UnexpectedEof" | .outOfMemory => "OutOfMemory" | .other => "Other"

/-- What `Status::from_hyper_error` asks a `hyper::Error` (its third question, "is your direct
source an `h2::Error`", is answered by the next node of the chain). -/
structure Hyper where
  isTimeout : Bool
  isCanceled : Bool
deriving DecidableEq, Repr

/-- One error value in a source chain, by the type `downcast_ref` finds. -/
inductive Node
  /-- a `tonic::Status` with this code -/
  | status (code : Nat)
  /-- `tonic::TimeoutExpired` -/
  | timeoutExpired
  /-- `tonic::ConnectError` (its cause is the rest of the chain) -/
  | connectError
  | hyper (h : Hyper)
  /-- `h2::Error` with this `reason()` -/
  | h2 (reason : Option Nat)
  | io (k : IoKind)
  /-- a TLS library error -/
  | tls
  /-- `tonic::transport::Error` -/
  | transport
  /-- any other error type (a user connector's own error, a boxed string, …) -/
  | custom (id : Nat)
deriving DecidableEq, Repr

/-- Error types that carry no gRPC meaning of their own: wrappers and causes. -/
def Node.plain : Node → Bool
  | .io _ => true
  | .tls => true
  | .transport => true
  | .custom _ => true
  | .status _ => false
  | .timeoutExpired => false
  | .connectError => false
  | .hyper _ => false
  | .h2 _ => false

end ErrChain
