import TonicModel.Basic.ConnScript
/-
Vocabulary for C14 fault scripts in which the application abandons calls, shared by the model
(`Model/ReconnectAbandon`) and the independent oracle (`Spec/ReconnectAbandon`). No behaviour here.
-/
namespace ConnScript

/-- One step of a script with abandoned calls, issued at a quiescent point. -/
inductive AOp
  /-- one call, awaited -/
  | call
  /-- the peer drops the established connection -/
  | die
  /-- one call that the application gives up as soon as it has to wait for a connection attempt
  (a call that needs none is an ordinary call) -/
  | abandon
deriving DecidableEq, Repr

inductive AEv
  | call (res : CallRes) (attempts : Nat)
  | die
  /-- the call was given up while the attempt it triggered was in progress; `attempts` so far -/
  | abandoned (attempts : Nat)
deriving DecidableEq, Repr

structure ATrace where
  build : BuildRes
  buildAttempts : Nat
  evs : List AEv
deriving DecidableEq, Repr

end ConnScript
