/-
Basic byte-string vocabulary shared by every model: `Bytes`, hex text form used by the
line protocol, 32-bit big-endian lengths, ASCII helpers.  Core Lean only.
-/

abbrev Bytes := List UInt8

namespace Hex

def digit (n : Nat) : Char :=
  if n < 10 then Char.ofNat (48 + n) else Char.ofNat (87 + n)

def val (c : Char) : Option Nat :=
  let n := c.toNat
  if 48 ≤ n ∧ n ≤ 57 then some (n - 48)
  else if 97 ≤ n ∧ n ≤ 102 then some (n - 87)
  else if 65 ≤ n ∧ n ≤ 70 then some (n - 55)
  else none

def encodeChars : Bytes → List Char
  | [] => []
  | b :: bs => digit (b.toNat / 16) :: digit (b.toNat % 16) :: encodeChars bs

/-- Text form of a byte string in the line protocol: `x` followed by hex digits (so the empty
string is the visible token `x`). -/
def encode (b : Bytes) : String := String.ofList ('x' :: encodeChars b)

def decodeChars : List Char → Option Bytes
  | [] => some []
  | [_] => none
  | a :: b :: rest =>
    match val a, val b, decodeChars rest with
    | some x, some y, some r => some (UInt8.ofNat (x * 16 + y) :: r)
    | _, _, _ => none

def decode (s : String) : Option Bytes :=
  match s.toList with
  | 'x' :: cs => decodeChars cs
  | _ => none

end Hex

/-- 4-byte big-endian rendering of a length (only meaningful below 2^32). -/
def u32be (n : Nat) : Bytes :=
  [UInt8.ofNat (n / 16777216 % 256), UInt8.ofNat (n / 65536 % 256),
   UInt8.ofNat (n / 256 % 256), UInt8.ofNat (n % 256)]

def readU32 (a b c d : UInt8) : Nat :=
  a.toNat * 16777216 + b.toNat * 65536 + c.toNat * 256 + d.toNat

theorem readU32_u32be (n : Nat) (h : n < 4294967296) :
    readU32 (UInt8.ofNat (n / 16777216 % 256)) (UInt8.ofNat (n / 65536 % 256))
      (UInt8.ofNat (n / 256 % 256)) (UInt8.ofNat (n % 256)) = n := by
  simp [readU32, UInt8.toNat_ofNat']
  omega

theorem readU32_lt (a b c d : UInt8) : readU32 a b c d < 4294967296 := by
  have := a.toNat_lt; have := b.toNat_lt; have := c.toNat_lt; have := d.toNat_lt
  simp only [readU32]; omega

theorem u32be_readU32 (a b c d : UInt8) : u32be (readU32 a b c d) = [a, b, c, d] := by
  have ha := a.toNat_lt; have hb := b.toNat_lt; have hc := c.toNat_lt; have hd := d.toNat_lt
  simp only [u32be, readU32]
  have e1 : (a.toNat * 16777216 + b.toNat * 65536 + c.toNat * 256 + d.toNat) / 16777216 % 256 = a.toNat := by omega
  have e2 : (a.toNat * 16777216 + b.toNat * 65536 + c.toNat * 256 + d.toNat) / 65536 % 256 = b.toNat := by omega
  have e3 : (a.toNat * 16777216 + b.toNat * 65536 + c.toNat * 256 + d.toNat) / 256 % 256 = c.toNat := by omega
  have e4 : (a.toNat * 16777216 + b.toNat * 65536 + c.toNat * 256 + d.toNat) % 256 = d.toNat := by omega
  rw [e1, e2, e3, e4]
  simp

theorem u32be_length (n : Nat) : (u32be n).length = 4 := rfl

namespace Ascii

def isDigit (b : UInt8) : Bool := 48 ≤ b.toNat && b.toNat ≤ 57

/-- `http::HeaderValue::to_str` accepts exactly these bytes. -/
def isVisible (b : UInt8) : Bool := (32 ≤ b.toNat && b.toNat < 127) || b.toNat == 9

def toLower (b : UInt8) : UInt8 :=
  if 65 ≤ b.toNat ∧ b.toNat ≤ 90 then UInt8.ofNat (b.toNat + 32) else b

def ofString (s : String) : Bytes := s.toUTF8.toList

end Ascii

/-- Decimal digits of a natural number, most significant first, as ASCII bytes (`"0"` for 0). -/
def digitByte (k : Nat) : UInt8 := UInt8.ofNat (48 + k)

def decimalAux : Nat → Nat → Bytes → Bytes
  | 0, _, acc => acc
  | fuel + 1, n, acc =>
    let acc' := digitByte (n % 10) :: acc
    if n / 10 = 0 then acc' else decimalAux fuel (n / 10) acc'

def decimal (n : Nat) : Bytes := decimalAux (n + 1) n []

/-- Value of a string of ASCII digits (no validation; callers check `isDigit`). -/
def digitsVal (bs : Bytes) : Nat := bs.foldl (fun acc b => acc * 10 + (b.toNat - 48)) 0
