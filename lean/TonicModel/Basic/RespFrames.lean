import TonicModel.Basic.HMapLite
/-
What polling an `http_body::Body` yields, as plain data shared by the response-producer model
(`Model/RecoverError.lean`) and the response oracle (`Spec/GrpcResponse.lean`).  Core Lean only.
-/
namespace HttpLite
open HMapLite

/-- one result of `poll_frame`: a data frame, a trailers frame, or `None` (end of stream) -/
inductive Fr
  | data (b : Bytes)
  | trailers (h : Hdrs)
  | eos
deriving Repr, DecidableEq

/-- Polling a scripted body to its end and `extra` more times: its data chunks, its trailers (if
any), then `None` on the poll that finds the end and on every further poll. -/
def Body.polled (b : Body) (extra : Nat) : List Fr :=
  b.chunks.map Fr.data ++
  (match b.trailers with
   | some h => [Fr.trailers h]
   | none => []) ++
  List.replicate (extra + 1) Fr.eos

end HttpLite
