import TonicModel.Basic.Bytes
import TonicModel.Basic.Base64
import TonicModel.Basic.HMap
/-
Vocabulary shared by the model (`Model/MetadataEntry`) and the oracle (`Spec/MetadataEntry`) of
tonic's metadata *entry* API (C08): the syntax of an operation sequence on one `MetadataMap`, and
the observable events of one run (what was handed out — with the static category `Ascii`/`Binary`
of the Rust type it was handed out as —, what was stored, and remarks such as `vacant`).
Neither the model's nor the oracle's meaning of an operation lives here.  Core Lean only.
-/
namespace MetaOps

/-- how a key is passed: the three string forms (`&str`, `String`, `&String`: one `impl` each in
`as_metadata_key`) or a typed key built with `MetadataKey::<VE>::from_bytes` (by value, by ref) -/
inductive KeyForm
  | str | string | refString | typed | refTyped
deriving DecidableEq, Repr

def KeyForm.isTyped : KeyForm → Bool
  | .typed | .refTyped => true
  | _ => false

/-- calls on an `OccupiedEntry<'_, VE>`; values are given raw and are built in the entry's own
static encoding `VE` (that is all the Rust type checker allows) -/
inductive OccUse
  | key | get | getMut
  | insert (raw : Bytes) | insertMult (raw : Bytes) | append (raw : Bytes)
  | iter | iterMut
  -- the calls below consume the entry: anything after them in a script is not executed
  | intoIter | intoMut | remove | removeEntry | removeEntryMult
deriving DecidableEq, Repr

def OccUse.terminal : OccUse → Bool
  | .intoIter | .intoMut | .remove | .removeEntry | .removeEntryMult => true
  | _ => false

/-- calls on a `VacantEntry<'_, VE>` (each consumes it) -/
inductive VacUse
  | nothing | key | intoKey | insert (raw : Bytes) | insertEntry (raw : Bytes)
deriving DecidableEq, Repr

/-- what is done with the `Entry<'_, VE>` that `entry` / `entry_bin` returned (`Entry::key` is
always called first) -/
inductive EntryUse
  | orInsert (raw : Bytes)
  | orInsertWith (raw : Bytes)
  /-- `match entry { Vacant(v) => vac(v) [then occ on the handle `insert_entry` returned],
  Occupied(o) => occ(o) }` -/
  | branch (vac : VacUse) (occ : List OccUse)
deriving DecidableEq, Repr

/-- one call on the map; `bin = true` is the `_bin` variant of the method -/
inductive Op
  | insert (bin : Bool) (key raw : Bytes)          -- key: `MetadataKey::<VE>::from_bytes(key)?`
  | append (bin : Bool) (key raw : Bytes)
  | remove (bin : Bool) (key : Bytes)              -- key: `&str`
  | getAll (bin : Bool) (kf : KeyForm) (key : Bytes)
  | entry (bin : Bool) (kf : KeyForm) (key : Bytes) (use : EntryUse)
deriving DecidableEq, Repr

/-- an observable event.  `bin` is always the *static* category of the Rust type involved
(`MetadataKey<VE>`, `MetadataValue<VE>`, `OccupiedEntry<'_, VE>`); `name` the stored name -/
inductive Ev
  /-- a key handed out by `api`, typed `bin` -/
  | key (api : String) (bin : Bool) (name : Bytes)
  /-- a value of the entry `name` handed out by `api`, typed `bin`; `w` = its stored bytes -/
  | val (api : String) (bin : Bool) (name : Bytes) (w : Bytes)
  /-- a value typed `bin`, built from `raw`, was stored under `name` as `w` -/
  | wrote (bin : Bool) (name : Bytes) (raw w : Bytes)
  | note (text : String)
deriving DecidableEq, Repr

/-- `http::HeaderName::from_static` checks its argument against the table `HEADER_CHARS_H2`: the
header-name characters that are their own stored form (no upper case) — and, a quirk of http
1.x, the double quote `"` (34), which `HeaderName::from_bytes` refuses.  Compared with the crate
on all 256 bytes in every run (case kind `kctor`). -/
def staticNameChar (b : UInt8) : Bool := HMap.headerChar b == some b || b == 34

/-- the strings `HeaderName::from_static` accepts (it panics on the others) -/
def staticName (src : Bytes) : Bool := !src.isEmpty && src.all staticNameChar

def tag (bin : Bool) : String := if bin then "B" else "A"

/-- `to_bytes()` as the static type `bin` computes it -/
def decodeAs (bin : Bool) (w : Bytes) : Option Bytes := if bin then B64.decode w else some w

def Ev.render : Ev → String
  | .key api b n => "k:" ++ api ++ ":" ++ tag b ++ ":" ++ Hex.encode n
  | .val api b n w => "v:" ++ api ++ ":" ++ tag b ++ ":" ++ Hex.encode n ++ ":" ++ Hex.encode w ++ ":" ++
      (match decodeAs b w with | some d => Hex.encode d | none => "!")
  | .wrote b n raw w => "w:" ++ tag b ++ ":" ++ Hex.encode n ++ ":" ++ Hex.encode raw ++ ":" ++ Hex.encode w
  | .note t => "n:" ++ t

/-- the output of a whole run: per operation `| <events> m <map>`  -/
def renderRun (steps : List (List Ev × HMap)) : List String :=
  steps.flatMap (fun s => "|" :: s.1.map Ev.render ++ "m" :: HMap.render s.2)

/-! ### parsing the case syntax (shared so that model and oracle see the same operations) -/

def keyForm? : String → Option KeyForm
  | "s" => some .str
  | "S" => some .string
  | "rS" => some .refString
  | "t" => some .typed
  | "rt" => some .refTyped
  | _ => none

def bin? : String → Option Bool
  | "A" => some false
  | "B" => some true
  | _ => none

def parseOcc : Nat → List String → Option (List OccUse × List String)
  | 0, rest => some ([], rest)
  | n + 1, t :: rest =>
    let one (u : OccUse) (rest : List String) := (parseOcc n rest).map (fun r => (u :: r.1, r.2))
    let withVal (f : Bytes → OccUse) : Option (List OccUse × List String) :=
      match rest with
      | v :: rest' => (Hex.decode v).bind (fun v => one (f v) rest')
      | [] => none
    match t with
    | "k" => one .key rest
    | "g" => one .get rest
    | "gm" => one .getMut rest
    | "i" => withVal .insert
    | "im" => withVal .insertMult
    | "a" => withVal .append
    | "it" => one .iter rest
    | "itm" => one .iterMut rest
    | "ii" => one .intoIter rest
    | "into" => one .intoMut rest
    | "r" => one .remove rest
    | "re" => one .removeEntry rest
    | "rem" => one .removeEntryMult rest
    | _ => none
  | _ + 1, [] => none

def parseVac : List String → Option (VacUse × List String)
  | "vn" :: rest => some (.nothing, rest)
  | "vk" :: rest => some (.key, rest)
  | "vik" :: rest => some (.intoKey, rest)
  | "vi" :: v :: rest => (Hex.decode v).map (fun v => (.insert v, rest))
  | "vie" :: v :: rest => (Hex.decode v).map (fun v => (.insertEntry v, rest))
  | _ => none

def parseUse : List String → Option (EntryUse × List String)
  | "oi" :: v :: rest => (Hex.decode v).map (fun v => (.orInsert v, rest))
  | "ow" :: v :: rest => (Hex.decode v).map (fun v => (.orInsertWith v, rest))
  | "m" :: rest =>
    match parseVac rest with
    | some (vac, n :: rest') =>
      match n.toNat? with
      | some n => (parseOcc n rest').map (fun r => (.branch vac r.1, r.2))
      | none => none
    | _ => none
  | _ => none

def parseOp : List String → Option (Op × List String)
  | "ins" :: b :: k :: v :: rest =>
    match bin? b, Hex.decode k, Hex.decode v with
    | some b, some k, some v => some (.insert b k v, rest)
    | _, _, _ => none
  | "app" :: b :: k :: v :: rest =>
    match bin? b, Hex.decode k, Hex.decode v with
    | some b, some k, some v => some (.append b k v, rest)
    | _, _, _ => none
  | "rm" :: b :: k :: rest =>
    match bin? b, Hex.decode k with
    | some b, some k => some (.remove b k, rest)
    | _, _ => none
  | "ga" :: b :: kf :: k :: rest =>
    match bin? b, keyForm? kf, Hex.decode k with
    | some b, some kf, some k => some (.getAll b kf k, rest)
    | _, _, _ => none
  | "ent" :: b :: kf :: k :: rest =>
    match bin? b, keyForm? kf, Hex.decode k, parseUse rest with
    | some b, some kf, some k, some (u, rest') => some (.entry b kf k u, rest')
    | _, _, _, _ => none
  | _ => none

def parseOps : Nat → List String → Option (List Op × List String)
  | 0, rest => some ([], rest)
  | n + 1, toks =>
    match parseOp toks with
    | some (op, rest) => (parseOps n rest).map (fun r => (op :: r.1, r.2))
    | none => none

/-- the name of the operation a step belongs to, for naming a failing clause -/
def Op.label : Op → String
  | .insert .. => "insert"
  | .append .. => "append"
  | .remove .. => "remove"
  | .getAll .. => "get_all"
  | .entry _ _ _ (.orInsert _) => "entry-or_insert"
  | .entry _ _ _ (.orInsertWith _) => "entry-or_insert_with"
  | .entry _ _ _ (.branch _ _) => "entry-match"

end MetaOps
