import TonicModel.Basic.Bytes
/-
Standard-alphabet base64 as tonic's two engines behave (`util.rs`: STANDARD = padded encode,
STANDARD_NO_PAD = unpadded encode; both decode padding-indifferently and reject non-zero
trailing bits, the `base64` crate's defaults).  Used by status details, binary metadata and
grpc-web text mode.  Core Lean only.
-/
namespace B64


def b64char (n : Nat) : UInt8 :=
  if n < 26 then UInt8.ofNat (65 + n)
  else if n < 52 then UInt8.ofNat (97 + (n - 26))
  else if n < 62 then UInt8.ofNat (48 + (n - 52))
  else if n = 62 then 43 else 47

def b64val (c : UInt8) : Option Nat :=
  let v := c.toNat
  if 65 ≤ v ∧ v ≤ 90 then some (v - 65)
  else if 97 ≤ v ∧ v ≤ 122 then some (v - 97 + 26)
  else if 48 ≤ v ∧ v ≤ 57 then some (v - 48 + 52)
  else if v = 43 then some 62
  else if v = 47 then some 63
  else none

theorem b64val_char : ∀ n : Fin 64, b64val (b64char n.val) = some n.val := by decide

theorem b64val_char' (n : Nat) (h : n < 64) : b64val (b64char n) = some n :=
  b64val_char ⟨n, h⟩

theorem b64char_ne_pad : ∀ n : Fin 64, b64char n.val ≠ 61 := by decide

def PAD : UInt8 := 61

def encode (pad : Bool) : Bytes → Bytes
  | a :: b :: c :: rest =>
    b64char (a.toNat / 4) :: b64char (a.toNat % 4 * 16 + b.toNat / 16) ::
    b64char (b.toNat % 16 * 4 + c.toNat / 64) :: b64char (c.toNat % 64) :: encode pad rest
  | [a, b] =>
    [b64char (a.toNat / 4), b64char (a.toNat % 4 * 16 + b.toNat / 16), b64char (b.toNat % 16 * 4)]
      ++ (if pad then [PAD] else [])
  | [a] =>
    [b64char (a.toNat / 4), b64char (a.toNat % 4 * 16)] ++ (if pad then [PAD, PAD] else [])
  | [] => []

-- decode: full quanta while more than 4 symbols remain or the last quantum has no padding;
-- tail: 2 or 3 symbols followed by 0..canonical pads; trailing bits must be zero.
def dec2 (c1 c2 : UInt8) : Option Bytes := do
  let v1 ← b64val c1
  let v2 ← b64val c2
  if v2 % 16 = 0 then some [UInt8.ofNat (v1 * 4 + v2 / 16)] else none

def dec3 (c1 c2 c3 : UInt8) : Option Bytes := do
  let v1 ← b64val c1
  let v2 ← b64val c2
  let v3 ← b64val c3
  if v3 % 4 = 0 then some [UInt8.ofNat (v1 * 4 + v2 / 16), UInt8.ofNat (v2 % 16 * 16 + v3 / 4)] else none

def dec4 (c1 c2 c3 c4 : UInt8) : Option Bytes := do
  let v1 ← b64val c1
  let v2 ← b64val c2
  let v3 ← b64val c3
  let v4 ← b64val c4
  some [UInt8.ofNat (v1 * 4 + v2 / 16), UInt8.ofNat (v2 % 16 * 16 + v3 / 4), UInt8.ofNat (v3 % 4 * 64 + v4)]

def decTail : Bytes → Option Bytes
  | [] => some []
  | [c1, c2] => dec2 c1 c2
  | [c1, c2, c3] => if c3 = PAD then dec2 c1 c2 else dec3 c1 c2 c3
  | [c1, c2, c3, c4] =>
    if c4 = PAD then (if c3 = PAD then dec2 c1 c2 else dec3 c1 c2 c3)
    else dec4 c1 c2 c3 c4
  | _ => none

def decode : Bytes → Option Bytes
  | c1 :: c2 :: c3 :: c4 :: c5 :: rest => do
    let h ← dec4 c1 c2 c3 c4
    let t ← decode (c5 :: rest)
    some (h ++ t)
  | l => decTail l

theorem dec4_enc (a b c : UInt8) :
    dec4 (b64char (a.toNat / 4)) (b64char (a.toNat % 4 * 16 + b.toNat / 16))
      (b64char (b.toNat % 16 * 4 + c.toNat / 64)) (b64char (c.toNat % 64)) = some [a, b, c] := by
  have ha := a.toNat_lt
  have hb := b.toNat_lt
  have hc := c.toNat_lt
  simp only [dec4, b64val_char' _ (show a.toNat / 4 < 64 by omega),
    b64val_char' _ (show a.toNat % 4 * 16 + b.toNat / 16 < 64 by omega),
    b64val_char' _ (show b.toNat % 16 * 4 + c.toNat / 64 < 64 by omega),
    b64val_char' _ (show c.toNat % 64 < 64 by omega), Option.bind_eq_bind, Option.bind_some]
  have e1 : a.toNat / 4 * 4 + (a.toNat % 4 * 16 + b.toNat / 16) / 16 = a.toNat := by omega
  have e2 : (a.toNat % 4 * 16 + b.toNat / 16) % 16 * 16 + (b.toNat % 16 * 4 + c.toNat / 64) / 4 = b.toNat := by omega
  have e3 : (b.toNat % 16 * 4 + c.toNat / 64) % 4 * 64 + c.toNat % 64 = c.toNat := by omega
  rw [e1, e2, e3]
  simp


theorem dec3_enc (a b : UInt8) :
    dec3 (b64char (a.toNat / 4)) (b64char (a.toNat % 4 * 16 + b.toNat / 16))
      (b64char (b.toNat % 16 * 4)) = some [a, b] := by
  have ha := a.toNat_lt
  have hb := b.toNat_lt
  simp only [dec3, b64val_char' _ (show a.toNat / 4 < 64 by omega),
    b64val_char' _ (show a.toNat % 4 * 16 + b.toNat / 16 < 64 by omega),
    b64val_char' _ (show b.toNat % 16 * 4 < 64 by omega), Option.bind_eq_bind, Option.bind_some]
  have e0 : b.toNat % 16 * 4 % 4 = 0 := by omega
  have e1 : a.toNat / 4 * 4 + (a.toNat % 4 * 16 + b.toNat / 16) / 16 = a.toNat := by omega
  have e2 : (a.toNat % 4 * 16 + b.toNat / 16) % 16 * 16 + (b.toNat % 16 * 4) / 4 = b.toNat := by omega
  rw [if_pos e0, e1, e2]
  simp

theorem dec2_enc (a : UInt8) :
    dec2 (b64char (a.toNat / 4)) (b64char (a.toNat % 4 * 16)) = some [a] := by
  have ha := a.toNat_lt
  simp only [dec2, b64val_char' _ (show a.toNat / 4 < 64 by omega),
    b64val_char' _ (show a.toNat % 4 * 16 < 64 by omega), Option.bind_eq_bind, Option.bind_some]
  have e0 : a.toNat % 4 * 16 % 16 = 0 := by omega
  have e1 : a.toNat / 4 * 4 + (a.toNat % 4 * 16) / 16 = a.toNat := by omega
  rw [if_pos e0, e1]
  simp

theorem b64char_ne_pad' (n : Nat) (h : n < 64) : b64char n ≠ PAD := b64char_ne_pad ⟨n, h⟩

theorem decode_encode (pad : Bool) (bs : Bytes) : decode (encode pad bs) = some bs := by
  fun_induction encode pad bs with
  | case1 a b c rest ih =>
    have ha := a.toNat_lt; have hb := b.toNat_lt; have hc := c.toNat_lt
    cases hrest : encode pad rest with
    | nil =>
      have hr : rest = [] := by
        cases rest with
        | nil => rfl
        | cons r rs =>
          cases rs with
          | nil => simp [encode] at hrest
          | cons r2 rs2 => cases rs2 <;> simp [encode] at hrest
      subst hr
      have h4 : b64char (c.toNat % 64) ≠ PAD := b64char_ne_pad' _ (by omega)
      simp [decode, decTail, h4, dec4_enc]
    | cons x xs =>
      rw [hrest] at ih
      simp [decode, dec4_enc, ih]
  | case2 a b =>
    have ha := a.toNat_lt; have hb := b.toNat_lt
    have h3 : b64char (b.toNat % 16 * 4) ≠ PAD := b64char_ne_pad' _ (by omega)
    simp only [PAD] at h3
    cases pad <;> simp [decode, decTail, h3, dec3_enc, PAD]
  | case3 a =>
    have ha := a.toNat_lt
    cases pad <;> simp [decode, decTail, dec2_enc, PAD]
  | case4 => simp [decode, decTail]


end B64
