import TonicModel.Basic.Bytes
/-
Oracle for C11, independent of `Model/Codegen`.  Written from gRPC's PROTOCOL-HTTP2.md
(`Path → "/" Service-Name "/" {method name}`, Service-Name = proto package "." service, no
package → bare service name) and the gRPC concept of the four RPC kinds.  It judges what the
two generators *emitted* (as extracted by the harness): every method of the descriptor must
appear on both sides, in order, with the same path, the same RPC kind, the same message types,
and the advertised service name must be the path's service segment.
-/
namespace Spec.Codegen

/-- A method of a service definition. -/
structure MethodDef where
  ident : Bytes
  clientStreaming : Bool
  serverStreaming : Bool
  input : Bytes
  output : Bytes
deriving DecidableEq, Repr

/-- A service definition.  `package = []`: no package. -/
structure ServiceDef where
  package : Bytes
  ident : Bytes
  methods : List MethodDef
deriving DecidableEq, Repr

/-- gRPC Service-Name. -/
def fullName (package ident : Bytes) : Bytes :=
  match package with
  | [] => ident
  | _ => package ++ [46] ++ ident

/-- gRPC request path. -/
def methodPath (service method : Bytes) : Bytes := [47] ++ service ++ [47] ++ method

/-- The four RPC kinds, numbered: 0 unary, 1 server-streaming, 2 client-streaming, 3 bidi. -/
def kind (clientStreaming serverStreaming : Bool) : Nat :=
  match clientStreaming, serverStreaming with
  | false, false => 0
  | false, true => 1
  | true, false => 2
  | true, true => 3

/-- What the harness extracted from one generated client method. -/
structure ClientObs where
  path : Bytes
  gmService : Bytes
  gmMethod : Bytes
  /-- number of the `Grpc::<call>` used -/
  call : Nat
  reqStream : Bool
  respStream : Bool
  req : Bytes
  resp : Bytes
deriving DecidableEq, Repr

/-- What the harness extracted from one generated server arm. -/
structure ServerObs where
  literal : Bytes
  call : Nat
  /-- number of the `*Service` trait implemented -/
  svcTrait : Nat
  reqStream : Bool
  respStream : Bool
  req : Bytes
  resp : Bytes
  /-- the message types in the signature of the server trait method the arm forwards to -/
  traitReq : Bytes
  traitResp : Bytes
deriving DecidableEq, Repr

/-- Where the Rust type of a message is to be found, written without looking at the generator:
a message compiled into the generated tree (`here`) is named relative to the module the
service code is placed in — `<proto_path>::<path prost gives relative to the package
module>`; a message that lives elsewhere (prost-types, an extern crate given by `extern_path`,
a Rust built-in such as `()`) is named exactly as prost names it. -/
def typePath (protoPath : Bytes) (here : Bool) (rust : Bytes) : Bytes :=
  if here then protoPath ++ [58, 58] ++ rust else rust

/-- One client method is right for a method definition (`svc` = expected Service-Name). -/
def clientOk (svc : Bytes) (m : MethodDef) (c : ClientObs) : Bool :=
  c.path == methodPath svc m.ident && c.gmService == svc && c.gmMethod == m.ident &&
  c.call == kind m.clientStreaming m.serverStreaming &&
  c.reqStream == m.clientStreaming && c.respStream == m.serverStreaming &&
  c.req == m.input && c.resp == m.output

/-- One server arm is right for a method definition. -/
def serverOk (svc : Bytes) (m : MethodDef) (a : ServerObs) : Bool :=
  a.literal == methodPath svc m.ident &&
  a.call == kind m.clientStreaming m.serverStreaming &&
  a.svcTrait == kind m.clientStreaming m.serverStreaming &&
  a.reqStream == m.clientStreaming && a.respStream == m.serverStreaming &&
  a.req == m.input && a.resp == m.output && a.traitReq == m.input && a.traitResp == m.output

def all₂ {α β} (p : α → β → Bool) : List α → List β → Bool
  | [], [] => true
  | a :: as, b :: bs => p a b && all₂ p as bs
  | _, _ => false

/-- Client and server agree with each other, method by method (the clause that needs no
reference to the definition). -/
def sidesAgree (cs : List ClientObs) (ss : List ServerObs) : Bool :=
  all₂ (fun c a => c.path == a.literal && c.call == a.call && c.reqStream == a.reqStream &&
    c.respStream == a.respStream && c.req == a.req && c.resp == a.resp &&
    c.req == a.traitReq && c.resp == a.traitResp) cs ss

/-- The whole predicate.  `pkgShown`: the package as it is meant to appear in names (the
definition's package, or nothing when the user asked for `emit_package(false)`). -/
def conforms (pkgShown : Bytes) (d : ServiceDef) (serviceName : Option Bytes)
    (client : Option (List ClientObs)) (server : Option (List ServerObs)) : Bool :=
  let svc := fullName pkgShown d.ident
  (match serviceName with | some n => n == svc | none => true) &&
  (match client with | some cs => all₂ (clientOk svc) d.methods cs | none => true) &&
  (match server with | some ss => all₂ (serverOk svc) d.methods ss | none => true) &&
  (match client, server with | some cs, some ss => sidesAgree cs ss | _, _ => true)

end Spec.Codegen
