import TonicModel.Basic.HMapLite
import TonicModel.Basic.Base64
/-
Oracle for C12, independent of `Model/Interceptor`: what the property demands of the request the
wrapped service receives and of the response the caller gets, written as decidable predicates
over plain data (`HttpLite` records) so that they can be evaluated both on the model's output
(theorems) and on what the real code was observed to do (driver verdict).

The trailers-only response is judged by an independent *decoder* written from gRPC's
PROTOCOL-HTTP2.md:
  Trailers-Only  → HTTP-Status Content-Type Trailers
  HTTP-Status    → ":status 200"
  Content-Type   → "content-type" "application/grpc" [("+proto" / "+json" / {custom})]
  Trailers       → Status [Status-Message] *Custom-Metadata
  Status         → "grpc-status" 1*DIGIT
  Status-Message → "grpc-message" Percent-Encoded
  Percent-Byte-Unencoded → 1*( %x20-%x24 / %x26-%x7E )      Percent-Byte-Encoded → "%" 2HEXDIGIT
and the richer-error convention `grpc-status-details-bin` = base64 of the details.
-/
namespace Spec.Interceptor
open HMapLite HttpLite

/-! ### header-map and extension equality as the property means it (per key) -/

def hdrsEqOn (ks : List Bytes) (a b : Hdrs) : Bool := ks.all (fun k => getAll k a == getAll k b)

/-- every name has the same values, in the same order, in both maps -/
def hdrsEq (a b : Hdrs) : Bool := hdrsEqOn (keys a ++ keys b) a b

def extGet (id : Nat) (x : Ext) : Option Bytes := (x.find? (fun e => e.1 == id)).map (·.2)

/-- the same typed extensions are present with the same values -/
def extEq (a b : Ext) : Bool :=
  (a.map (·.1) ++ b.map (·.1)).all (fun id => extGet id a == extGet id b)

/-! ### accept -/

/-- What the interceptor decided for one call. -/
inductive Decision
  | accept (md : Hdrs) (ext : Ext)
  | reject (st : GStatus)

/-- Accept clauses: the wrapped service was invoked with the interceptor's metadata and
extensions and the original URI, method, version and body. -/
def acceptClauses {β} [BEq β] (req : Request β) (md : Hdrs) (ext : Ext) (saw : Option (Request β)) :
    List (String × Bool) :=
  match saw with
  | none => [("inner-invoked", false)]
  | some r =>
    [("uri", r.uri == req.uri), ("method", r.method == req.method),
     ("version", r.version == req.version), ("body", r.body == req.body),
     ("metadata-is-interceptors", hdrsEq r.headers md),
     ("extensions-are-interceptors", extEq r.ext ext)]

/-- "every other header (reserved names included)": each name the interceptor did not touch has,
at the wrapped service, exactly the values of the original request; and nothing appears under a
name that neither the request had nor the interceptor touched. -/
def untouchedOk (touched : Bytes → Bool) (reqHeaders seen : Hdrs) : Bool :=
  (keys reqHeaders ++ keys seen).all (fun k => touched k || getAll k seen == getAll k reqHeaders)

/-! ### reject: decode a trailers-only response -/

def hexVal (c : UInt8) : Option Nat :=
  let v := c.toNat
  if 48 ≤ v ∧ v ≤ 57 then some (v - 48)
  else if 65 ≤ v ∧ v ≤ 70 then some (v - 55)
  else if 97 ≤ v ∧ v ≤ 102 then some (v - 87)
  else none

def unencodedOk (c : UInt8) : Bool := (32 ≤ c.toNat && c.toNat ≤ 36) || (38 ≤ c.toNat && c.toNat ≤ 126)

def byteOfHex (x y : Nat) : UInt8 := UInt8.ofNat (x * 16 + y)

/-- strict decoder of `Percent-Encoded`; `none` = not conformant -/
def percentDecode : Bytes → Option Bytes
  | [] => some []
  | c :: rest =>
    if c = 37 then
      match rest with
      | a :: b :: rest' =>
        match hexVal a, hexVal b, percentDecode rest' with
        | some x, some y, some r => some (byteOfHex x y :: r)
        | _, _, _ => none
      | _ => none
    else if unencodedOk c then
      match percentDecode rest with
      | some r => some (c :: r)
      | none => none
    else none

/-- names a gRPC peer must not take as custom metadata: the `grpc-` namespace and the
Call-Definition headers -/
def reserved (k : Bytes) : Bool :=
  (str "grpc-").isPrefixOf k || k == str "te" || k == str "user-agent" || k == str "content-type"

def isGrpcContentType (v : Bytes) : Bool :=
  (str "application/grpc").isPrefixOf v &&
  (match v.drop 16 with
   | [] => true
   | c :: _ => c == 43 || c == 59)

/-- the observable part of a response for this property -/
structure RespView where
  status : Nat
  headers : Hdrs
  /-- body reported end-of-stream before being polled -/
  endStream : Bool
  /-- number of frames (data or trailers) the body yielded -/
  frames : Nat

/-- Reject clauses: the response is a trailers-only gRPC response carrying precisely `st`. -/
def rejectClauses (st : GStatus) (saw : Bool) (r : RespView) : List (String × Bool) :=
  [("inner-not-invoked", !saw),
   ("http-200", r.status == 200),
   ("content-type-grpc", match getAll (str "content-type") r.headers with
      | [v] => isGrpcContentType v.1
      | _ => false),
   ("grpc-status-is-code", match getAll (str "grpc-status") r.headers with
      | [v] => !v.1.isEmpty && v.1.all Ascii.isDigit && digitsVal v.1 == st.code
      | _ => false),
   ("grpc-message-decodes-to-message", match getAll (str "grpc-message") r.headers with
      | [] => st.message.isEmpty
      | [v] => percentDecode v.1 == some st.message
      | _ => false),
   ("details-decode-to-details", match getAll (str "grpc-status-details-bin") r.headers with
      | [] => st.details.isEmpty
      | [v] => B64.decode v.1 == some st.details
      | _ => false),
   ("custom-metadata-intact", (keys r.headers ++ keys st.metadata).all (fun k =>
      reserved k || getAll k r.headers == getAll k st.metadata)),
   ("empty-body", r.endStream && r.frames == 0)]

def allOk (cs : List (String × Bool)) : Bool := cs.all (·.2)

/-! ### the response of an accepted call is the wrapped service's, untouched -/

def passClauses {ρ} [BEq ρ] (inner out : Response ρ) : List (String × Bool) :=
  [("response-status", out.status == inner.status), ("response-version", out.version == inner.version),
   ("response-headers", hdrsEq out.headers inner.headers), ("response-extensions", extEq out.ext inner.ext),
   ("response-body", out.body == inner.body)]

/-! ### routing (gRPC: `Path → "/" Service-Name "/" {method name}`) -/

/-- split at every `/` -/
def splitSlash : Bytes → List Bytes
  | [] => [[]]
  | c :: rest =>
    match splitSlash rest with
    | [] => [[]]
    | seg :: segs => if c == 47 then [] :: seg :: segs else (c :: seg) :: segs

/-- the path addresses service `name`: segments are `"" , name , m …` with something after the
service name -/
def pathNamesService (name path : Bytes) : Bool :=
  match splitSlash path with
  | first :: svc :: m :: more => first.isEmpty && svc == name && !(m.isEmpty && more.isEmpty)
  | _ => false

/-- headers that belong to HTTP framing, not to the gRPC message (a router may add them) -/
def httpFraming (k : Bytes) : Bool := k == str "content-length"

end Spec.Interceptor
