import TonicModel.Basic.TlsVocab
/-
Oracle for C15, written from the property text and the documentation of the public API,
independent of `Model/Tls` (it shares only the vocabulary of inputs in `Basic/TlsVocab`):

  * what the caller *configured* is read off the list of builder calls directly
    (last `domain_name`, every CA / trust anchor ever added, last `assume_http2`, last
    `identity`), not by replaying the builder;
  * the property's two admission rules (`MayTransmit`, `MayServe`) in terms of an abstract
    certificate-path verifier;
  * the contract assumed of rustls (`RustlsLaws`) — the trusted base of this property.
-/
namespace Spec.Tls
open _root_.Tls
variable {Root Chain : Type}

/-! ### what the caller configured (client) -/

def domainOfOp : ClientOp Root Chain → Option String
  | .domainName d => some d
  | _ => none

/-- The configured domain name: the argument of the last `domain_name` call, if any. -/
def configuredDomain (ops : List (ClientOp Root Chain)) : Option String :=
  (ops.filterMap domainOfOp).getLast?

/-- "the configured (or URI) domain name" -/
def expectedName (ops : List (ClientOp Root Chain)) (uri : Uri) : Option String :=
  match configuredDomain ops with
  | some d => some d
  | none => uri.host

def pemRoots : Pem Root → List Root
  | some rs => rs
  | none => []

/-- The roots one builder call contributes. -/
def rootsOfOp (sys : Sys Root) : ClientOp Root Chain → List Root
  | .caCertificate p => pemRoots p
  | .caCertificates ps => ps.flatMap pemRoots
  | .trustAnchor r => [r]
  | .trustAnchors rs => rs
  | .withNativeRoots => if sys.featNative then sys.nativeCerts else []
  | .withWebpkiRoots => if sys.featWebpki then sys.webpkiRoots else []
  | .withEnabledRoots =>
    (if sys.featNative then sys.nativeCerts else []) ++ (if sys.featWebpki then sys.webpkiRoots else [])
  | _ => []

/-- "the configured roots": every CA certificate / trust anchor the caller added, plus the
platform / webpki stores only if asked for (and compiled in). Nothing else. -/
def configuredRoots (sys : Sys Root) (ops : List (ClientOp Root Chain)) : List Root :=
  ops.flatMap (rootsOfOp sys)

/-- "the caller asked for the platform's trusted certificates" (directly or through
`with_enabled_roots`). -/
def asksNativeOp : ClientOp Root Chain → Bool
  | .withNativeRoots => true
  | .withEnabledRoots => true
  | _ => false

def asksNative (ops : List (ClientOp Root Chain)) : Bool := ops.any asksNativeOp

def assumeOfOp : ClientOp Root Chain → Option Bool
  | .assumeHttp2 b => some b
  | _ => none

/-- "the caller opted out" of requiring ALPN h2: the last `assume_http2` call said `true`. -/
def assumes (ops : List (ClientOp Root Chain)) : Bool :=
  match (ops.filterMap assumeOfOp).getLast? with
  | some b => b
  | none => false

def identityOfOp : ClientOp Root Chain → Option (IdentityPem Chain)
  | .identity i => some i
  | _ => none

def configuredIdentity (ops : List (ClientOp Root Chain)) : Option (IdentityPem Chain) :=
  (ops.filterMap identityOfOp).getLast?

/-! ### several configurations in one program: each one is what ITS OWN calls said -/

/-- The builder-call sequences of the configuration variables of a program, read off its text:
`ClientTlsConfig::new().<ops>` was told `ops`; `cK.clone().<ops>` was told what `cK` was told,
then `ops`.  Statements that USE a configuration (or do anything else) tell it nothing. -/
def cfgTableStep (tbl : List (List (ClientOp Root Chain))) : Stmt Root Chain → List (List (ClientOp Root Chain))
  | .config none ops => tbl ++ [ops]
  | .config (some k) ops =>
    match tbl[k]? with
    | some l => tbl ++ [l ++ ops]
    | none => tbl
  | _ => tbl

def cfgTable (prog : List (Stmt Root Chain)) : List (List (ClientOp Root Chain)) :=
  prog.foldl cfgTableStep []

/-- "its own builder sequence": everything configuration variable `c` of the program was told. -/
def ownOps (prog : List (Stmt Root Chain)) (c : Nat) : Option (List (ClientOp Root Chain)) :=
  (cfgTable prog)[c]?

/-- Same set of roots. -/
def SameRoots (a b : List Root) : Prop := ∀ r, r ∈ a ↔ r ∈ b

/-- The client half of the property: a call may be transmitted over an https endpoint only to a
server whose chain verifies against the configured roots for the configured (or URI) name, with
h2 negotiated unless the caller opted out. -/
def MayTransmit (verifies : List Root → Chain → String → Bool) (sys : Sys Root)
    (ops : List (ClientOp Root Chain)) (uri : Uri) (serverChain : Chain) (alpn : Option String) : Prop :=
  (∃ name roots, expectedName ops uri = some name ∧ SameRoots roots (configuredRoots sys ops) ∧
      verifies roots serverChain name = true) ∧
  (alpn = some alpnH2 ∨ assumes ops = true)

/-! ### what the operator configured (server) -/

def caOfOp : ServerOp Root Chain → Option (Pem Root)
  | .clientCaRoot p => some p
  | _ => none

/-- The configured client CA: the argument of the last `client_ca_root` call. -/
def clientCa (ops : List (ServerOp Root Chain)) : Option (Pem Root) :=
  (ops.filterMap caOfOp).getLast?

def optionalOfOp : ServerOp Root Chain → Option Bool
  | .clientAuthOptional b => some b
  | _ => none

def authOptional (ops : List (ServerOp Root Chain)) : Bool :=
  match (ops.filterMap optionalOfOp).getLast? with
  | some b => b
  | none => false

/-- The server half: with a client CA configured, a connection is served only if the client
presented a chain issued by it — or presented nothing and client auth was made optional. -/
def MayServe (verifiesClient : List Root → Chain → Bool) (ops : List (ServerOp Root Chain))
    (clientIdentity : Option Chain) (seenByServer : Option Chain) : Prop :=
  match clientCa ops with
  | none => True
  | some pem =>
    (∃ ch, seenByServer = some ch ∧ clientIdentity = some ch ∧ verifiesClient (pemRoots pem) ch = true) ∨
    (authOptional ops = true ∧ seenByServer = none)

/-! ### the contract assumed of rustls / webpki (trusted base) -/

/-- What is assumed of the handshake implementation. `verifies` / `verifiesClient` are
webpki's path validation (+ name check), abstract. -/
structure RustlsLaws (verifies : List Root → Chain → String → Bool)
    (verifiesClient : List Root → Chain → Bool) (hs : Handshake Root Chain) : Prop where
  /-- the client side completes only for a chain that verifies against the roots and name given -/
  client_done : ∀ c s a, (hs c s).client = .done a → verifies c.roots s.chain c.domain = true
  /-- a negotiated protocol was offered by both ends (RFC 7301) -/
  alpn_mutual : ∀ c s p, (hs c s).client = .done (some p) → p ∈ c.alpn ∧ p ∈ s.alpn
  /-- the server side completes only in accordance with the client-auth mode it was given, and
  its session then holds exactly the chain the client presented -/
  server_done : ∀ c s peer, (hs c s).server = some peer →
    match s.clientAuth with
    | .off => peer = none
    | .required rs => ∃ ch, peer = some ch ∧ c.identity = some ch ∧ verifiesClient rs ch = true
    | .optional rs => peer = none ∨ ∃ ch, peer = some ch ∧ c.identity = some ch ∧ verifiesClient rs ch = true

end Spec.Tls
