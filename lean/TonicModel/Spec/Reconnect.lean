import TonicModel.Basic.ConnScript
import TonicModel.Basic.ErrChain
/-
Oracle for C14, written from the property text and independent of `Model/Reconnect`:
what a caller may observe from a channel under a fault script.  Every definition here speaks
about scripts and observations only; none mentions the `Reconnect` state machine.

  "every call … completes with a definite result — a response, or an UNAVAILABLE-class error
   while no connection can be made — without panicking or hanging, and an eagerly connected
   channel reports an initial failure immediately.  Once the endpoint is reachable again the next
   call succeeds without the application rebuilding the channel, and a connection failure is
   reported only to the call that triggered the attempt, not replayed onto later ones."
-/
namespace Spec.Reconnect
open ConnScript

/-! ### flat answer scripts -/

/-- The failures that happened, in order. -/
def failures (env : List Ans) : List Nat :=
  env.filterMap fun a => match a with
    | .err e => some e
    | .ok => none
    | .pending => none

/-- The connect errors handed to calls, in order. -/
def reported (rs : List Res) : List Nat :=
  rs.filterMap fun r => match r with
    | .err e => some e
    | .resp _ => none
    | .closed _ => none
    | .hang => none
    | .panic => none

def closedIds (rs : List Res) : List Nat :=
  rs.filterMap fun r => match r with
    | .closed e => some e
    | .resp _ => none
    | .err _ => none
    | .hang => none
    | .panic => none

/-- What a sequence of calls over a flat script must satisfy: no panic; every error handed to a
call is a failure that happened, each failure is handed out at most once and in order (so none is
replayed); a hang only when the environment has nothing more to say (`left = 0`); a closed
channel only because of a failure that happened. -/
def sessClauses (env : List Ans) (rs : List Res) (left : Nat) : List (String × Bool) :=
  [ ("no-panic", !rs.contains .panic),
    ("errors-are-failures-reported-once", (reported rs).isSublist (failures env)),
    ("hang-only-when-environment-silent", !rs.contains .hang || left == 0),
    ("closed-only-by-a-failure", (closedIds rs).all fun e => (failures env).contains e) ]

/-- A lazy channel is built without connecting; an eager one connects first, and that may fail
only with a failure that happened, or hang only if the environment went silent. -/
def sessBuildClauses (isLazy : Bool) (env : List Ans) (b : SessBuild) (left : Nat) : List (String × Bool) :=
  [ ("build-matches-mode", match b with
      | .none => isLazy
      | .ok => !isLazy
      | .fail _ => !isLazy
      | .hang => !isLazy
      | .panic => false),
    ("build-fails-only-by-a-failure", match b with
      | .fail e => (failures env).contains e
      | .none => true
      | .ok => true
      | .hang => true
      | .panic => true),
    ("hang-only-when-environment-silent", match b with
      | .hang => left == 0
      | .none => true
      | .ok => true
      | .fail _ => true
      | .panic => true) ]

/-! ### end-to-end fault scripts -/

/-- Outcome of the `k`-th connection attempt (1-based); past the end of the script: refused. -/
def outcomeAt (outs : List Outcome) : Nat → Outcome
  | 0 => .refuse
  | k + 1 => (outs[k]?).getD .refuse

/-- Some attempt numbered in `(a, a']` connects. -/
def anyConnects (outs : List Outcome) (a a' : Nat) : Bool :=
  (List.range (a' - a)).any fun i => (outcomeAt outs (a + 1 + i)).connects

/-- What the oracle tracks: the connection that is up, and the number of attempts so far. -/
structure St where
  live : Option Nat
  a : Nat
deriving DecidableEq, Repr

def isResp : CallRes → Bool
  | .resp _ => true
  | .error _ _ => false
  | .hang => false
  | .panic => false
  | .garbled => false
  | .expired => false
  | .lost _ => false

/-- Did the call get as far as a live connection: answered, or — for the kinds of call that
cannot be answered — ended the way that kind ends once it is on a connection. -/
def served (k : CallKind) : CallRes → Bool
  | .resp _ => true
  | .expired => k == .zeroDeadline
  | .lost _ => k == .peerDies
  | .error _ _ => false
  | .hang => false
  | .panic => false
  | .garbled => false

/-- The clauses one observed call must satisfy, given the oracle state before it. -/
def callClauses (outs : List Outcome) (s : St) (k : CallKind) (res : CallRes) (a' : Nat) : List (String × Bool) :=
  [ ("definite-result",
      match res with
      | .resp _ => true
      | .error _ _ => true
      | .expired => true
      | .lost _ => true
      | .hang => false
      | .panic => false
      | .garbled => false),
    ("attempts-monotone", decide (s.a ≤ a')),
    ("result-fits-the-call",
      match res with
      | .expired => k == .zeroDeadline
      | .lost _ => k == .peerDies
      | .resp _ => true
      | .error _ _ => true
      | .hang => true
      | .panic => true
      | .garbled => true),
    ("response-from-a-live-connection",
      match res with
      | .resp c => s.live == some c || (decide (s.a < c) && decide (c ≤ a') && (outcomeAt outs c).connects)
      | .lost c => s.live == some c || (decide (s.a < c) && decide (c ≤ a') && (outcomeAt outs c).connects)
      | .expired => true
      | .error _ _ => true
      | .hang => true
      | .panic => true
      | .garbled => true),
    ("deadline-expiry-only-on-a-connection",
      match res with
      | .expired => s.live.isSome || (decide (s.a < a') && (outcomeAt outs a').connects)
      | .resp _ => true
      | .lost _ => true
      | .error _ _ => true
      | .hang => true
      | .panic => true
      | .garbled => true),
    ("error-is-unavailable-class",
      match res with
      | .error code _ => code == unavailable
      | .resp _ => true
      | .expired => true
      | .lost _ => true
      | .hang => true
      | .panic => true
      | .garbled => true),
    ("error-only-while-no-connection-can-be-made",
      match res with
      | .error _ _ => s.live.isNone && decide (s.a < a') && !anyConnects outs s.a a'
      | .resp _ => true
      | .expired => true
      | .lost _ => true
      | .hang => true
      | .panic => true
      | .garbled => true),
    ("error-belongs-to-an-attempt-of-this-call",
      match res with
      | .error _ (some k) => decide (s.a < k) && decide (k ≤ a') && !(outcomeAt outs k).connects
      | .error _ none => true
      | .resp _ => true
      | .expired => true
      | .lost _ => true
      | .hang => true
      | .panic => true
      | .garbled => true),
    ("call-succeeds-when-endpoint-reachable",
      !(s.live.isSome || (outcomeAt outs (s.a + 1)).connects) || served k res) ]

/-- The oracle state after a call: which connection is up. A deadline expiry leaves the
connection it happened on in place (the one that was up, else the one this call made). -/
def nextSt (s : St) (res : CallRes) (a' : Nat) : St :=
  { live := match res with
      | .resp c => some c
      | .expired => if s.live.isSome then s.live else some a'
      | .lost _ => none
      | .error _ _ => none
      | .hang => none
      | .panic => none
      | .garbled => none,
    a := a' }

/-- Two callers at the same moment: the channel queues them, so what they see must be what two
calls one right after the other (no fault in between) may see — for some split of the connection
attempts made meanwhile between the two. In particular the two cannot both be handed the failure
of the same attempt, and the second one is served if the endpoint is reachable when its turn
comes. -/
def pairOk (outs : List Outcome) (s : St) (ra rb : CallRes) (a' : Nat) : Bool :=
  (List.range (a' - s.a + 1)).any fun d =>
    (callClauses outs s .plain ra (s.a + d) ++
      callClauses outs (nextSt s ra (s.a + d)) .plain rb a').all (·.2)

def evClauses (outs : List Outcome) : St → List Op → List Ev → List (String × Bool)
  | _, [], [] => []
  | s, .die :: ops, .die :: evs => evClauses outs { s with live := none } ops evs
  | s, .call :: ops, .call res a' :: evs =>
    callClauses outs s .plain res a' ++ evClauses outs (nextSt s res a') ops evs
  | s, .callZero :: ops, .call res a' :: evs =>
    callClauses outs s .zeroDeadline res a' ++ evClauses outs (nextSt s res a') ops evs
  | s, .callDie :: ops, .call res a' :: evs =>
    callClauses outs s .peerDies res a' ++ evClauses outs (nextSt s res a') ops evs
  | s, .pair :: ops, .pair ra rb a' :: evs =>
    ("concurrent-calls-explainable-in-queue-order", pairOk outs s ra rb a') ::
      evClauses outs (nextSt (nextSt s ra a') rb a') ops evs
  | _, [], _ :: _ => [("trace-shape", false)]
  | _, _ :: _, [] => [("trace-shape", false)]
  | _, .die :: _, .call _ _ :: _ => [("trace-shape", false)]
  | _, .die :: _, .pair _ _ _ :: _ => [("trace-shape", false)]
  | _, .call :: _, .die :: _ => [("trace-shape", false)]
  | _, .call :: _, .pair _ _ _ :: _ => [("trace-shape", false)]
  | _, .callZero :: _, .die :: _ => [("trace-shape", false)]
  | _, .callZero :: _, .pair _ _ _ :: _ => [("trace-shape", false)]
  | _, .callDie :: _, .die :: _ => [("trace-shape", false)]
  | _, .callDie :: _, .pair _ _ _ :: _ => [("trace-shape", false)]
  | _, .pair :: _, .die :: _ => [("trace-shape", false)]
  | _, .pair :: _, .call _ _ :: _ => [("trace-shape", false)]

/-- The connection that is up after `a` attempts made while building the channel. -/
def liveAfter (outs : List Outcome) (a : Nat) : Option Nat :=
  if a ≠ 0 ∧ (outcomeAt outs a).connects then some a else none

/-- All clauses for one observed run of a fault script. -/
def clauses (isLazy : Bool) (outs : List Outcome) (ops : List Op) (t : Trace) : List (String × Bool) :=
  if isLazy then
    ("lazy-build-succeeds", t.build == .ok) ::
      evClauses outs { live := liveAfter outs t.buildAttempts, a := t.buildAttempts } ops t.evs
  else if (outcomeAt outs 1).connects then
    ("eager-build-succeeds", t.build == .ok && decide (1 ≤ t.buildAttempts)) ::
      evClauses outs { live := liveAfter outs t.buildAttempts, a := t.buildAttempts } ops t.evs
  else
    [ ("eager-initial-failure-reported-by-connect",
        match t.build with
        | .error _ _ => true
        | .ok => false
        | .hang => false),
      ("eager-initial-failure-immediate", t.buildAttempts == 1),
      ("error-is-unavailable-class",
        match t.build with
        | .error code _ => code == unavailable
        | .ok => true
        | .hang => true),
      ("error-belongs-to-an-attempt-of-this-call",
        match t.build with
        | .error _ (some k) => k == 1
        | .error _ none => true
        | .ok => true
        | .hang => true),
      ("no-call-without-a-channel", t.evs.isEmpty) ]

def holds (isLazy : Bool) (outs : List Outcome) (ops : List Op) (t : Trace) : Bool :=
  (clauses isLazy outs ops t).all (·.2)

/-! ### single operations on the state machine (tower's `Service` contract) -/

inductive UnitEv
  | ready
  | pending
  | fail (e : Nat)
  | pollPanic
  | sent (c : Nat)
  | cerr (e : Nat)
  | cpending
  | callPanic
deriving DecidableEq, Repr

/-- one observed operation and the private state read back after it
(`st`: 0 idle, 1 connecting, 2 connected) -/
structure UnitObs where
  ev : UnitEv
  st : Nat
  err : Bool
  hasBeen : Bool
deriving DecidableEq, Repr

def unitErrs (os : List UnitObs) : List Nat :=
  os.filterMap fun o => match o.ev with
    | .cerr e => some e
    | .ready => none
    | .pending => none
    | .fail _ => none
    | .pollPanic => none
    | .sent _ => none
    | .cpending => none
    | .callPanic => none

/-- A `call` may panic only if it does not directly follow a `poll_ready` that said ready; a
`poll_ready` may panic only after an earlier `poll_ready` returned an error (the service must not
be used any more then). `prevReady`/`failedBefore` carry that history. -/
def contractOk : Bool → Bool → List UnitObs → Bool
  | _, _, [] => true
  | prevReady, failedBefore, o :: os =>
    (match o.ev with
     | .callPanic => !prevReady
     | .pollPanic => failedBefore
     | .ready => true
     | .pending => true
     | .fail _ => true
     | .sent _ => true
     | .cerr _ => true
     | .cpending => true) &&
    contractOk (o.ev == .ready) (failedBefore || (match o.ev with
      | .fail _ => true
      | .ready => false
      | .pending => false
      | .pollPanic => false
      | .sent _ => false
      | .cerr _ => false
      | .cpending => false
      | .callPanic => false)) os

def unitClauses (env : List Ans) (os : List UnitObs) : List (String × Bool) :=
  [ ("no-panic-under-service-contract", contractOk false false os),
    ("ready-means-error-to-hand-out-or-connected",
      os.all fun o => !(o.ev == .ready) || o.err || o.st == 2),
    ("error-handed-out-is-cleared", os.all fun o => match o.ev with
      | .cerr _ => !o.err
      | .ready => true
      | .pending => true
      | .fail _ => true
      | .pollPanic => true
      | .sent _ => true
      | .cpending => true
      | .callPanic => true),
    ("errors-are-failures-reported-once", (unitErrs os).isSublist (failures env)) ]

/-! ### the class of a connection failure -/

/-- Is this error the failure of a connection attempt?  It is if a connect error sits in its
source chain beneath nothing but wrappers that carry no gRPC meaning of their own (a transport
error, an I/O error, a user's error type).  What caused the connect error does not matter. -/
def isConnectFailure : List ErrChain.Node → Bool
  | [] => false
  | .connectError :: _ => true
  | n :: rest => n.plain && isConnectFailure rest

/-- "an UNAVAILABLE-class error while no connection can be made": whatever made the attempt fail,
the status a caller derives from the error is UNAVAILABLE. -/
def classClauses (chain : List ErrChain.Node) (code : Nat) : List (String × Bool) :=
  [ ("error-is-unavailable-class", !isConnectFailure chain || code == unavailable) ]

/-! ### scripts over a real network endpoint -/

/-- What the oracle tracks: is a server listening, how many servers have been started, and the
generation of the server that holds a live connection with the channel. -/
structure NSt where
  up : Bool
  gen : Nat
  live : Option Nat
deriving DecidableEq, Repr

/-- The environment's own steps. -/
def NSt.env (s : NSt) : NOp → NSt
  | .up => if s.up then s else { s with up := true, gen := s.gen + 1 }
  | .down => { s with up := false, live := none }
  | .call => s

/-- The clauses one observed call must satisfy. -/
def netCallClauses (s : NSt) (res : NRes) : List (String × Bool) :=
  [ ("definite-result",
      match res with
      | .resp _ => true
      | .error _ => true
      | .hang => false
      | .garbled => false),
    ("response-from-a-live-connection",
      match res with
      | .resp g => s.live == some g || (s.live.isNone && s.up && g == s.gen)
      | .error _ => true
      | .hang => true
      | .garbled => true),
    ("error-is-unavailable-class",
      match res with
      | .error code => code == unavailable
      | .resp _ => true
      | .hang => true
      | .garbled => true),
    ("error-only-while-no-connection-can-be-made",
      match res with
      | .error _ => s.live.isNone && !s.up
      | .resp _ => true
      | .hang => true
      | .garbled => true),
    ("call-succeeds-when-endpoint-reachable",
      !(s.live.isSome || s.up) ||
        (match res with
         | .resp _ => true
         | .error _ => false
         | .hang => false
         | .garbled => false)) ]

def netNext (s : NSt) (res : NRes) : NSt :=
  { s with live := match res with
      | .resp g => some g
      | .error _ => none
      | .hang => none
      | .garbled => none }

def netEvClauses : NSt → List NOp → List NRes → List (String × Bool)
  | _, [], [] => []
  | _, [], _ :: _ => [("trace-shape", false)]
  | s, .up :: ops, evs => netEvClauses (s.env .up) ops evs
  | s, .down :: ops, evs => netEvClauses (s.env .down) ops evs
  | _, .call :: _, [] => [("trace-shape", false)]
  | s, .call :: ops, res :: evs => netCallClauses s res ++ netEvClauses (netNext s res) ops evs

/-- All clauses for one observed run: `pre` are the environment's steps before the channel is
built (no calls among them), `post` the steps after. A lazy channel is built without
connecting; an eager one (`Endpoint::connect`) connects first: with a server listening that
succeeds, without one it must fail at once with an UNAVAILABLE-class error — not hand out a
channel. -/
def netClauses (isLazy : Bool) (pre post : List NOp) (t : NTrace) : List (String × Bool) :=
  let s0 : NSt := pre.foldl NSt.env { up := false, gen := 0, live := none }
  if isLazy then
    ("lazy-build-succeeds", t.build == .ok) :: netEvClauses s0 post t.evs
  else if s0.up then
    ("eager-build-succeeds", t.build == .ok) :: netEvClauses { s0 with live := some s0.gen } post t.evs
  else
    [ ("eager-initial-failure-reported-by-connect",
        match t.build with
        | .error _ => true
        | .ok => false
        | .hang => false),
      ("error-is-unavailable-class",
        match t.build with
        | .error code => code == unavailable
        | .ok => true
        | .hang => true),
      ("no-call-without-a-channel", t.evs.isEmpty) ]

end Spec.Reconnect
