/-
Oracle for C13 — "graceful shutdown loses no accepted call".

Deliberately naive and independent of `Model/Shutdown`: the property's clauses as decidable
predicates over plain *views* of a server at one instant (what an outside observer can know
about each connection and each call).  The property theorems instantiate the views with the
model's reachable states; the driver instantiates them with what the harness observed the real
server do.

Property text, clause by clause:
  (a) "every call the server had already accepted runs to completion and its caller receives
       the full, true outcome"                         → `truthful`, `acceptedCallsComplete`
      A server configured with a request timeout (`Server::timeout`) answers a call whose handler
      has not produced the response head in time with CANCELLED "Timeout expired"; that answer is
      then the call's true outcome (`CallView.timedOut`, `outcome`).  The timeout is a bound on
      the time to the response head ONLY: a call that is past its head is owed the handler's
      outcome, however long the body takes and whatever else the server is doing (shutting down).
  (b) "No connection is accepted after the signal"     → `noAcceptAfterSignal`
  (c) "the serve future resolves only after all connections have closed"
                                                       → `resolvedOnlyAfterClose`
  (d) "and does resolve once they have"                → `resolvesOnceClosed`, `shutdownCompletes`
-/
namespace Spec.Shutdown

/-- What the caller of one gRPC call can observe, in order. -/
inductive Out where
  | hdr
  | msg (j : Nat)
  | status (code : Nat)
  /-- the server's own CANCELLED "Timeout expired" (trailers-only) -/
  | expired
deriving DecidableEq, Repr

def msgs : Nat → Nat → List Out
  | _, 0 => []
  | j, n + 1 => Out.msg j :: msgs (j + 1) n

/-- gRPC: a unary handler returning `Ok(m)` is seen as headers, the message, status 0; one
returning `Err(status)` as that status alone (trailers-only). -/
def planUnary (code : Nat) : List Out :=
  if code = 0 then [.hdr, .msg 0, .status 0] else [.status code]

/-- gRPC: a server-streaming handler that returns a stream of `n` messages ending with `code`. -/
def planStream (n code : Nat) : List Out := .hdr :: (msgs 0 n ++ [.status code])

/-- gRPC: a client-streaming handler answers like a unary one (one message or an error status),
whatever the number of request messages. -/
def planClientStream (code : Nat) : List Out := planUnary code

/-- gRPC: a bidi handler that returns a stream of `n` messages ending with `code`; the request
messages do not show in what the caller receives. -/
def planBidi (n code : Nat) : List Out := planStream n code

structure ConnView where
  /-- the shutdown signal had fired before the server's `incoming` could hand this connection to
  the accept loop: the connection was offered after the signal — or it was queued on `incoming`
  behind a connection whose hand-over is what fired the signal (a burst: several connections
  ready at once, the signal becoming ready between two of them), so that accepting it can only
  happen after the signal -/
  offeredAfterSignal : Bool
  /-- the server took the connection into service -/
  accepted : Bool
  /-- the server has dropped its side of the connection -/
  closed : Bool
deriving Repr

structure CallView where
  /-- the true outcome: what the handler produces when left to run -/
  plan : List Out
  /-- what the caller has received -/
  got : List Out
  /-- the server accepted the call (the handler was invoked) -/
  started : Bool
  /-- the caller itself gave the call up, or left -/
  abandoned : Bool
  /-- the server has a request timeout and it ran out while the handler of this call had not yet
  produced its response head -/
  timedOut : Bool := false
deriving Repr

/-- the true outcome of a call: what its handler produces when left to run — or, if the server's
request timeout ran out before the response head, the server's "Timeout expired" -/
def outcome (k : CallView) : List Out := if k.timedOut then [.expired] else k.plan

def isPrefix : List Out → List Out → Bool
  | [], _ => true
  | _ :: _, [] => false
  | a :: as, b :: bs => a == b && isPrefix as bs

/-- (a, truth) a caller never sees anything but a prefix of the true outcome, and sees nothing
of a call the server did not accept. -/
def truthful (ks : List CallView) : Bool :=
  ks.all fun k => isPrefix k.got (outcome k) && (k.started || k.got.isEmpty)

/-- (a, completeness) every accepted call whose caller is still there has received the whole
outcome. -/
def acceptedCallsComplete (ks : List CallView) : Bool :=
  ks.all fun k => !k.started || k.abandoned || k.got == outcome k

/-- (b) -/
def noAcceptAfterSignal (cs : List ConnView) : Bool :=
  cs.all fun c => !(c.offeredAfterSignal && c.accepted)

def allClosed (cs : List ConnView) : Bool := cs.all fun c => !c.accepted || c.closed

/-- (c) together with (a): at an instant where the serve future has resolved, every accepted
connection is closed and every accepted call is complete. -/
def resolvedOnlyAfterClose (resolved : Bool) (cs : List ConnView) (ks : List CallView) : Bool :=
  !resolved || (allClosed cs && acceptedCallsComplete ks)

/-- (d) as an observable: shutdown was requested (signal fired or incoming ended), every handler
has been left to finish, every accepted connection is closed — then the future has resolved. -/
def resolvesOnceClosed (shutdownRequested resolved : Bool) (cs : List ConnView) : Bool :=
  !(shutdownRequested && allClosed cs) || resolved

/-- (d), the graceful part: once shutdown has been requested and every handler has been left to
finish, the server closes its connections itself — no client has to go away — and the future
resolves. -/
def shutdownCompletes (shutdownRequested handlersDone resolved : Bool) : Bool :=
  !(shutdownRequested && handlersDone) || resolved

/-- without a request to shut down the future stays pending -/
def noSpuriousResolve (shutdownRequested resolved : Bool) : Bool := shutdownRequested || !resolved

end Spec.Shutdown
