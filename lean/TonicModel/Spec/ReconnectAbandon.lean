import TonicModel.Basic.ConnScript
import TonicModel.Basic.ConnScriptAbandon
import TonicModel.Spec.Reconnect
/-
Oracle for C14 fault scripts in which the application ABANDONS calls (drops the future of a call
that has to wait for a connection attempt). Written from the property text, on top of the oracle
for plain scripts (`Spec.Reconnect.callClauses`); independent of the model.

What the property says about such a history. The abandoned call has no result (nobody is there to
receive one). The attempt it triggered goes on and ends with nobody waiting for it. The NEXT call
is an ordinary call "issued at a quiescent point": if the attempt in progress produces a
connection the call may use it (it is then judged as if that attempt were its own); "a connection
failure is reported only to the call that triggered the attempt, not replayed onto later ones" —
the failure of the abandoned call's attempt must NOT be handed to the next call: clause
`failure-reported-only-to-the-call-that-triggered-the-attempt`.  (The code as found violates
exactly this clause — known finding C14-F1 — and nothing else: when it does, the companion clause
pins down what it may hand out: that very failure, as UNAVAILABLE, once.)
-/
namespace Spec.ReconnectAbandon
open ConnScript Spec.Reconnect

/-- The oracle's view: the connection that is up, the number of attempts so far, and the attempt
that is in progress with nobody waiting for it. -/
structure ASt where
  live : Option Nat
  a : Nat
  inProgress : Option Nat
deriving DecidableEq, Repr

/-- The clause the code as found violates (finding C14-F1). -/
def strictName : String := "failure-reported-only-to-the-call-that-triggered-the-attempt"

def errorParts : CallRes → Option (Nat × Option Nat)
  | .error code att => some (code, att)
  | .resp _ => none
  | .hang => none
  | .panic => none
  | .garbled => none
  | .expired => none
  | .lost _ => none

/-- A call issued while attempt `k` is in progress (its caller gone). Without an attempt of its
own (`a' = s.a`): an error can only be the failure of attempt `k`, which is not this call's to
receive; anything else is judged as if attempt `k` were this call's own. With an attempt of its
own: an ordinary call made after `k` attempts. -/
def resumedClauses (outs : List Outcome) (s : ASt) (k : Nat) (res : CallRes) (a' : Nat) : List (String × Bool) :=
  if a' = s.a then
    match errorParts res with
    | some (code, att) =>
      [ (strictName, false),
        ("stale-failure-is-the-abandoned-attempts-own-and-unavailable",
          code == unavailable && !(outcomeAt outs k).connects && (att == some k || att == none)) ]
    | none => callClauses outs ⟨none, k - 1⟩ .plain res a'
  else callClauses outs ⟨none, s.a⟩ .plain res a'

def stepCall (outs : List Outcome) (s : ASt) (res : CallRes) (a' : Nat) : List (String × Bool) :=
  match s.inProgress with
  | none => callClauses outs ⟨s.live, s.a⟩ .plain res a'
  | some k => resumedClauses outs s k res a'

def afterCall (s : ASt) (res : CallRes) (a' : Nat) : ASt :=
  { live := (nextSt ⟨s.live, s.a⟩ res a').live, a := a', inProgress := none }

/-- A call is given up only while it waits for an attempt of its own: there was no live
connection, and exactly one attempt was started. -/
def abandonClauses (s : ASt) (a' : Nat) : List (String × Bool) :=
  [ ("abandoned-only-while-waiting-for-its-own-attempt", s.live.isNone && a' == s.a + 1) ]

def evClausesA (outs : List Outcome) : ASt → List AOp → List AEv → List (String × Bool)
  | _, [], [] => []
  | s, .die :: ops, .die :: evs => evClausesA outs { s with live := none } ops evs
  | s, .call :: ops, .call res a' :: evs =>
    stepCall outs s res a' ++ evClausesA outs (afterCall s res a') ops evs
  | s, .abandon :: ops, .call res a' :: evs =>
    stepCall outs s res a' ++ evClausesA outs (afterCall s res a') ops evs
  | s, .abandon :: ops, .abandoned a' :: evs =>
    abandonClauses s a' ++ evClausesA outs { live := none, a := a', inProgress := some a' } ops evs
  | _, [], _ :: _ => [("trace-shape", false)]
  | _, _ :: _, [] => [("trace-shape", false)]
  | _, .die :: _, .call _ _ :: _ => [("trace-shape", false)]
  | _, .die :: _, .abandoned _ :: _ => [("trace-shape", false)]
  | _, .call :: _, .die :: _ => [("trace-shape", false)]
  | _, .call :: _, .abandoned _ :: _ => [("trace-shape", false)]
  | _, .abandon :: _, .die :: _ => [("trace-shape", false)]

/-- All clauses for one observed run: building the channel is judged by the plain oracle (a
script with no step), the steps by `evClausesA`. -/
def clausesA (isLazy : Bool) (outs : List Outcome) (ops : List AOp) (t : ATrace) : List (String × Bool) :=
  clauses isLazy outs [] { build := t.build, buildAttempts := t.buildAttempts, evs := [] } ++
    (if t.build == .ok then
       evClausesA outs { live := liveAfter outs t.buildAttempts, a := t.buildAttempts, inProgress := none } ops t.evs
     else [("no-call-without-a-channel", t.evs.isEmpty)])

/-- The property as stated. -/
def holdsA (isLazy : Bool) (outs : List Outcome) (ops : List AOp) (t : ATrace) : Bool :=
  (clausesA isLazy outs ops t).all (·.2)

/-- Everything but the clause of finding C14-F1. -/
def holdsButStrict (isLazy : Bool) (outs : List Outcome) (ops : List AOp) (t : ATrace) : Bool :=
  (clausesA isLazy outs ops t).all fun c => c.1 == strictName || c.2

end Spec.ReconnectAbandon
