import TonicModel.Basic.ConnScript
import TonicModel.Basic.BalScript
/-
Oracle for C14 on a LOAD-BALANCED channel, written from the property text and independent of
`Model/Balance` and `Model/Reconnect`: what the callers of a channel over several endpoints may
observe while the script starts and stops the endpoints' servers and inserts and removes
endpoints.  It speaks about scripts and observations only.

  "every call … completes with a definite result — a response, or an UNAVAILABLE-class error
   while no connection can be made — without panicking or hanging …  Once the endpoint is
   reachable again the next call succeeds without the application rebuilding the channel, and a
   connection failure is reported only to the call that triggered the attempt, not replayed onto
   later ones."

Read for a channel over several endpoints: a call is given to ONE endpoint; an endpoint that was
unreachable when the channel last tried it may hold that one failure until a call is given to it
(the failure is then reported once, to that call, and not again).  So an endpoint OWES at most
one failure: since it was unreachable at the time of some call (or its server was stopped) and it
has neither answered nor handed a failure out since.  Errors carry no hint of the endpoint they
came from, so the oracle settles an error only when exactly one endpoint owes.
-/
namespace Spec.Balance
open ConnScript BalScript

/-- What the oracle tracks per endpoint. -/
structure O where
  key : Nat
  /-- in the channel's endpoint set -/
  member : Bool
  up : Bool
  /-- server generations started so far -/
  gen : Nat
  /-- may hold a connection failure the channel has not handed to a call yet -/
  owes : Bool
  /-- its server was stopped while it was in the channel (since it last answered or settled):
  a connection of the channel to it may have lost its peer -/
  killed : Bool
deriving DecidableEq, Repr

def blank (k : Nat) : O := { key := k, member := false, up := false, gen := 0, owes := false, killed := false }

def ensure (k : Nat) (os : List O) : List O :=
  if os.any (fun o => o.key = k) then os else os ++ [blank k]

def onKey (k : Nat) (f : O → O) (os : List O) : List O :=
  os.map fun o => if o.key = k then f o else o

/-- The script's own steps. -/
def env (os : List O) : BOp → List O
  | .up k => onKey k (fun o => if o.up then o else { o with up := true, gen := o.gen + 1 }) (ensure k os)
  | .down k =>
    onKey k (fun o => { o with up := false, owes := o.owes || o.member, killed := o.killed || (o.member && o.up) })
      (ensure k os)
  | .insert k => onKey k (fun o => { o with member := true, owes := false, killed := false }) (ensure k os)
  | .remove k => onKey k (fun o => { o with member := false, owes := false, killed := false }) (ensure k os)
  | .call => os

/-- At the moment of a call: an endpoint of the channel that is unreachable now owes. -/
def atCall (os : List O) : List O :=
  os.map fun o => if o.member && !o.up then { o with owes := true } else o

def membersOf (os : List O) : List O := os.filter (·.member)

def isResp : BObs → Bool
  | .resp _ _ => true
  | .error _ => false
  | .lost => false
  | .hang => false
  | .garbled => false

/-- The clauses one observed call must satisfy; `os` is the oracle state at the moment of the
call (`atCall` applied). -/
def callClauses (os : List O) (res : BObs) : List (String × Bool) :=
  [ ("definite-result",
      match res with
      | .resp _ _ => true
      | .error _ => true
      | .lost => true
      -- a channel with no endpoint at all waits for one to be inserted
      | .hang => (membersOf os).isEmpty
      | .garbled => false),
    ("error-is-unavailable-class",
      match res with
      | .error code => code == unavailable
      | .resp _ _ => true
      | .lost => true
      | .hang => true
      | .garbled => true),
    ("response-from-a-listening-endpoint-of-the-channel",
      match res with
      | .resp k g => (membersOf os).any fun o => o.key == k && o.up && o.gen == g
      | .error _ => true
      | .lost => true
      | .hang => true
      | .garbled => true),
    ("error-only-while-an-endpoint-owes-a-failure",
      match res with
      | .error _ => (membersOf os).any (·.owes)
      | .lost => (membersOf os).any (·.owes)
      | .resp _ _ => true
      | .hang => true
      | .garbled => true),
    ("non-connect-error-only-after-a-peer-went-away",
      match res with
      | .lost => (membersOf os).any fun o => o.owes && o.killed
      | .error _ => true
      | .resp _ _ => true
      | .hang => true
      | .garbled => true),
    ("call-succeeds-when-every-endpoint-is-reachable",
      (membersOf os).isEmpty || (membersOf os).any (fun o => !o.up || o.owes) || isResp res) ]

/-- The oracle state after a call: an endpoint that answered owes nothing; an error settles the
debt of the only endpoint that owed (with several, it is not known whose it was). -/
def afterCall (os : List O) (res : BObs) : List O :=
  match res with
  | .resp k _ => onKey k (fun o => { o with owes := false, killed := false }) os
  | .hang => os
  | .garbled => os
  | .error _ =>
    if ((membersOf os).filter (·.owes)).length = 1 then
      os.map fun o => if o.member && o.owes then { o with owes := false, killed := false } else o
    else os
  | .lost =>
    if ((membersOf os).filter (·.owes)).length = 1 then
      os.map fun o => if o.member && o.owes then { o with owes := false, killed := false } else o
    else os

/-- All clauses for one observed run. A hang ends the observation. -/
def clauses : List O → List BOp → List BObs → List (String × Bool)
  | _, [], [] => []
  | _, [], _ :: _ => [("trace-shape", false)]
  | os, .call :: ops, res :: obs =>
    callClauses (atCall os) res ++
      (if res = .hang then (if obs.isEmpty then [] else [("trace-shape", false)])
       else clauses (afterCall (atCall os) res) ops obs)
  | _, .call :: _, [] => [("trace-shape", false)]
  | os, .up k :: ops, obs => clauses (env os (.up k)) ops obs
  | os, .down k :: ops, obs => clauses (env os (.down k)) ops obs
  | os, .insert k :: ops, obs => clauses (env os (.insert k)) ops obs
  | os, .remove k :: ops, obs => clauses (env os (.remove k)) ops obs

def holds (ops : List BOp) (obs : List BObs) : Bool := (clauses [] ops obs).all (·.2)

/-- All clauses for one observed run in which the observation goes on after a hang (the caller
gave up waiting): as `clauses`, but a hang does not end the trace — the oracle state after it is
the state at the call (`afterCall _ .hang`), and every later call is judged like any other. -/
def clausesAll : List O → List BOp → List BObs → List (String × Bool)
  | _, [], [] => []
  | _, [], _ :: _ => [("trace-shape", false)]
  | os, .call :: ops, res :: obs =>
    callClauses (atCall os) res ++ clausesAll (afterCall (atCall os) res) ops obs
  | _, .call :: _, [] => [("trace-shape", false)]
  | os, .up k :: ops, obs => clausesAll (env os (.up k)) ops obs
  | os, .down k :: ops, obs => clausesAll (env os (.down k)) ops obs
  | os, .insert k :: ops, obs => clausesAll (env os (.insert k)) ops obs
  | os, .remove k :: ops, obs => clausesAll (env os (.remove k)) ops obs

def holdsAll (ops : List BOp) (obs : List BObs) : Bool := (clausesAll [] ops obs).all (·.2)

end Spec.Balance
