import TonicModel.Basic.CompressionObs
/-
Oracle for C05, written from the property text and gRPC's PROTOCOL-HTTP2.md / compression.md,
independent of `Model/Compression`:

  Message-Encoding        → "grpc-encoding" Content-Coding
  Message-Accept-Encoding → "grpc-accept-encoding" Content-Coding *("," Content-Coding)
  Content-Coding          → "identity" / "gzip" / "deflate" / "snappy" / {custom}
  Compressed-Flag         → 0 / 1

* `Offers v e` — declarative reading of "the request's grpc-accept-encoding offers `e`": the
  value is a comma-separated list and one element is the name of `e`, optionally surrounded by
  spaces / tabs.  `offersB` is the executable version (proved equivalent in `Props/C05`).
* `recv` — what a receiver that has `enabled` for receiving must do with a `grpc-encoding`.
* one Boolean clause per sentence of the property, over the *observed* behaviour
  (`CompObs.SrvObs` / `CompObs.CliObs`); the driver evaluates them on the implementation's output
  and the theorems prove them of the model's output.
-/
namespace Spec.Compression
open CompObs

def ch (c : Char) : UInt8 := c.toNat.toUInt8

/-- Content-Coding names. -/
def name : Enc → Bytes
  | .gzip => ['g', 'z', 'i', 'p'].map ch
  | .deflate => ['d', 'e', 'f', 'l', 'a', 't', 'e'].map ch
  | .zstd => ['z', 's', 't', 'd'].map ch

def identity : Bytes := ['i', 'd', 'e', 'n', 't', 'i', 't', 'y'].map ch

def comma : UInt8 := ch ','

/-- optional whitespace of HTTP list syntax: SP / HTAB -/
def isOWS (b : UInt8) : Bool := b == ch ' ' || b == 9

/-- "`v` offers `e`": `v = pre ++ l ++ name e ++ r ++ post` where `l`, `r` are optional
whitespace and the element is delimited by commas or the ends of the value. -/
def Offers (v : Bytes) (e : Enc) : Prop :=
  ∃ pre l r post : Bytes, v = pre ++ (l ++ name e ++ r) ++ post ∧
    l.all isOWS = true ∧ r.all isOWS = true ∧
    (pre = [] ∨ pre.getLast? = some comma) ∧ (post = [] ∨ post.head? = some comma)

/-- the elements of a comma-separated list value -/
def elements (v : Bytes) : List Bytes :=
  v.foldr (fun b acc =>
    if b == comma then [] :: acc
    else match acc with
      | t :: ts => (b :: t) :: ts
      | [] => [[b]]) [[]]

def strip (t : Bytes) : Bytes := ((t.dropWhile isOWS).reverse.dropWhile isOWS).reverse

def tokens (v : Bytes) : List Bytes := (elements v).map strip

def offersB (v : Bytes) (e : Enc) : Bool := (tokens v).contains (name e)

/-- offered by some line of the header -/
def offeredB (vals : List Bytes) (e : Enc) : Bool := vals.any (offersB · e)

def nameOf? (v : Bytes) : Option Enc := Enc.all.find? (fun e => v == name e)

/-- The first element of a list value (in the peer's order of preference) that names an
encoding of `send`. -/
def firstMutual (send : List Enc) (v : Bytes) : Option Enc :=
  (tokens v).findSome? (fun t => (nameOf? t).filter (fun e => send.contains e))

/-- The set of encodings in force after a sequence of configuration calls (naive reading:
`enable` adds, `pop` removes the most recently added). -/
def enabledStep (l : List Enc) (c : Call) : List Enc :=
  match c with
  | .en e => if l.contains e then l else l ++ [e]
  | .pop => l.dropLast

def enabledAfter (cs : List Call) : List Enc := cs.foldl enabledStep []

/-- What a receiver must do with the peer's `grpc-encoding` (the value `HeaderMap::get`
yields, i.e. the first line; a conformant peer sends exactly one). -/
inductive Recv | refuse | identity | use (e : Enc)
deriving DecidableEq, Repr

def recv (enabled : List Enc) (vals : List Bytes) : Recv :=
  match vals with
  | [] => .identity
  | v :: _ =>
    if v == identity then .identity
    else match nameOf? v with
      | some e => if enabled.contains e then .use e else .refuse
      | none => .refuse

def Recv.enc : Recv → Option Enc
  | .use e => some e
  | _ => none

/-- "a grpc-accept-encoding that lists precisely its enabled encodings": exactly one value;
every element is `identity` or the name of an enabled encoding; every enabled encoding is
listed. -/
def acceptListOk (enabled : List Enc) (vals : List Bytes) : Bool :=
  match vals with
  | [v] =>
    (tokens v).all (fun t => t == identity ||
      (match nameOf? t with
       | some e => enabled.contains e
       | none => false))
    && enabled.all (fun e => (tokens v).contains (name e))
  | _ => false

def okCount (items : List Item) : Nat := (items.filter (fun i => !i.isErr)).length

/-- `some k`: frame `k` is the first whose flag is not 0, and its flag is 1. -/
def firstFlagged : List Frame → Option Nat
  | [] => none
  | f :: rest =>
    if f.flag == 0 then (firstFlagged rest).map (· + 1)
    else if f.flag == 1 then some 0 else none

/-- a frame a receiver with negotiated encoding `neg` must accept -/
def wellFormedFor (neg : Option Enc) (f : Frame) : Bool :=
  f.flag == 0 || (f.flag == 1 && (match neg, f.form with
    | some e, .z e' => e == e'
    | _, _ => false))

/-- what the application must receive for a well-formed frame -/
def expectItem (f : Frame) : Item := if f.flag == 0 then .ok f.form else .ok .raw

/-! ### server clauses -/

/-- (1) announced encoding ⇒ configured for sending ∧ offered by the request; at most one. -/
def srvChoice (send : List Enc) (req : SrvReq) (o : SrvObs) : Bool :=
  decide (o.enc.length ≤ 1) &&
  o.enc.all (fun v =>
    match nameOf? v with
    | some e => send.contains e && offeredB req.accVals e
    | none => false)

/-- (2) a message is compressed (flag 1) only with the announced encoding; otherwise it is sent
as identity (flag 0, the message bytes themselves). -/
def frameOk (enc : List Bytes) (f : Frame) : Bool :=
  (f.flag == 0 && f.form == .raw) ||
  (f.flag == 1 && (match f.form with
    | .z e => enc == [name e]
    | _ => false))

def srvAnnounce (o : SrvObs) : Bool := o.frames.all (frameOk o.enc)

/-- (3) a request whose grpc-encoding is not enabled for receiving is refused with
UNIMPLEMENTED, without reaching the handler, with the accept list; any other request is not
refused on those grounds. -/
def srvReject (accept : List Enc) (req : SrvReq) (o : SrvObs) : Bool :=
  match recv accept req.encVals with
  | .refuse =>
    !o.called && o.saw.isEmpty && o.stCode == 12 && o.stWhere == .hdr && o.frames.isEmpty &&
    o.enc.isEmpty && acceptListOk accept o.acc
  | _ => o.stCls != .unsupported

/-- (4) no encoding negotiated and a message arrives flagged as compressed ⇒ INTERNAL; that
message and everything after it never reach the handler; nothing is sent back. -/
def srvFlag (accept : List Enc) (req : SrvReq) (o : SrvObs) : Bool :=
  match recv accept req.encVals, firstFlagged req.frames with
  | .identity, some k =>
    o.stCode == 13 && o.stCls == .flagNoEnc && o.frames.isEmpty && decide (okCount o.saw ≤ k) &&
    (!req.shape.singleRequest || !o.called)
  | _, _ => true

/-- the handler of a request well-formed for `neg` receives every message decoded by `neg` -/
def srvDelivered (neg : Option Enc) (req : SrvReq) (o : SrvObs) : Bool :=
  if req.frames.all (wellFormedFor neg) then
    if req.shape.singleRequest then
      match req.frames with
      | [] => !o.called && o.stCode == 13
      | f :: _ => o.called && o.saw == [expectItem f]
    else o.called && o.saw == req.frames.map expectItem
  else true

/-- (5) a request that is acceptable and well-formed for the negotiated encoding reaches the
handler with every message decoded by exactly that encoding. -/
def srvDeliver (accept : List Enc) (req : SrvReq) (o : SrvObs) : Bool :=
  match recv accept req.encVals with
  | .refuse => true
  | r => srvDelivered r.enc req o

/-! ### client clauses -/

/-- (6) requests are compressed with exactly the encoding the client was told to send, and say
so; without one they are identity and say nothing. -/
def cliSend (send : Option Enc) (o : CliObs) : Bool :=
  match send with
  | some e => o.enc == [name e] && o.frames.all (fun f => f.flag == 1 && f.form == .z e)
  | none => o.enc.isEmpty && o.frames.all (fun f => f.flag == 0 && f.form == .raw)

/-- (7) the client advertises exactly the encodings it accepts. -/
def cliAdvertise (accept : List Enc) (o : CliObs) : Bool :=
  if accept.isEmpty then o.acc.isEmpty else acceptListOk accept o.acc

/-- (8) a response whose grpc-encoding is not enabled for receiving is refused with
UNIMPLEMENTED; any other is not. -/
def cliRefuse (accept : List Enc) (resp : CliResp) (o : CliObs) : Bool :=
  match recv accept resp.encVals with
  | .refuse => o.result == [.err 12 .unsupported]
  | _ => o.result.all (fun it => it != .err 12 .unsupported)

/-- (9) ordinary response (no status in the headers), no encoding negotiated, a message flagged
as compressed ⇒ the call / stream ends with INTERNAL and that message is not delivered. -/
def cliFlag (accept : List Enc) (resp : CliResp) (o : CliObs) : Bool :=
  match recv accept resp.encVals, resp.hdrStatus, firstFlagged resp.frames with
  | .identity, none, some k =>
    o.result.getLast? == some (.err 13 .flagNoEnc) && decide (okCount o.result ≤ k)
  | _, _, _ => true

/-- the caller of a successful response well-formed for `neg` receives every message decoded
by `neg` -/
def cliDelivered (neg : Option Enc) (shape : Shape) (resp : CliResp) (o : CliObs) : Bool :=
  if resp.hdrStatus.isNone && (resp.trlStatus.isNone || resp.trlStatus == some 0) &&
      resp.frames.all (wellFormedFor neg) then
    if shape.singleResponse then
      match resp.frames with
      | [] => o.result == [.err 13 .missing]
      | f :: _ => o.result == [expectItem f]
    else o.result == resp.frames.map expectItem
  else true

/-- (10) an acceptable, well-formed, successful response is delivered decoded by exactly the
negotiated encoding. -/
def cliDeliver (accept : List Enc) (shape : Shape) (resp : CliResp) (o : CliObs) : Bool :=
  match recv accept resp.encVals with
  | .refuse => true
  | r => cliDelivered r.enc shape resp o

/-! ### a tonic client against a tonic server (any two configurations) -/

/-- the response encoding two tonic peers must end up with: the first encoding, in the order the
client enabled (and therefore advertises) them, that the server may send -/
def pairResponseEnc (cAccept sSend : List Enc) : Option Enc :=
  cAccept.find? (fun e => sSend.contains e)

/-- the request is compressed with something the server does not accept -/
def pairRefused (cSend : Option Enc) (sAccept : List Enc) : Bool :=
  match cSend with
  | some e => !sAccept.contains e
  | none => false

/-- (11) Whatever the two configurations: the call is refused with UNIMPLEMENTED (and the
server's accept list reaches the caller) exactly when the client sends an encoding the server
does not accept; otherwise every request message reaches the handler intact, the response uses
the client's first choice among what the server may send (identity if there is none), and the
caller receives every response message intact — the client never refuses or garbles what a tonic
server sends it. -/
def pairOk (cSend : Option Enc) (cAccept sAccept sSend : List Enc) (shape : Shape) (k : Nat)
    (h : Handler) (so : SrvObs) (co : CliObs) : Bool :=
  cliSend cSend co && cliAdvertise cAccept co &&
  (if pairRefused cSend sAccept then
    !so.called && co.result == [.err 12 .unsupported] && acceptListOk sAccept co.errAcc
  else
    so.called && so.saw == List.replicate (if shape.singleRequest then 1 else k) (.ok .raw) &&
    (match h with
     | .fail c => c == 0 || co.result == [.err c .handler]
     | .reply n _ _ =>
       so.enc == ((pairResponseEnc cAccept sSend).map name).toList &&
       so.frames.all (frameOk so.enc) &&
       co.result == List.replicate (if shape.singleResponse then 1 else n) (.ok .raw)))

end Spec.Compression
