import TonicModel.Basic.Bytes
import TonicModel.Basic.TrailerMap
/-
Independent grpc-web reader (the oracle for C16 and C17), written from the protocol documents
(PROTOCOL-WEB.md, RFC 4648), not from tonic-web:

* text mode: the body is a sequence of base64 quanta (4 symbols); padding may close *any*
  quantum (a sender may flush padded pieces), a body whose length is not a multiple of 4 or that
  contains a foreign symbol or non-zero discarded bits is rejected;
* frames: 1 flag byte, 4-byte big-endian length, payload.  Flag 0/1 = message
  (uncompressed/compressed), 0x80 = trailers; anything else, or a body that stops inside a
  frame, is rejected;
* trailers payload: HTTP/1 header block, lines ended by CRLF, name and value separated by the
  FIRST colon (values may contain colons), nothing trimmed.

Does not import `Model/`.
-/
namespace Spec.GrpcWeb
open TMap (Pair str)

/-- RFC 4648 table 1, typed in. -/
def alphabet : Bytes :=
  str "ABCDEFGHIJKLMNOPQRSTUVWXYZabcdefghijklmnopqrstuvwxyz0123456789+/"

def symVal (c : UInt8) : Option Nat :=
  let i := alphabet.idxOf c
  if i < 64 then some i else none

def PADC : UInt8 := 61

/-- One base64 quantum (strict: discarded bits must be zero). -/
def quantum (a b c d : UInt8) : Option Bytes :=
  match symVal a, symVal b with
  | some va, some vb =>
    if c = PADC then
      if d = PADC then (if vb % 16 = 0 then some [UInt8.ofNat (va * 4 + vb / 16)] else none)
      else none
    else
      match symVal c with
      | none => none
      | some vc =>
        if d = PADC then
          (if vc % 4 = 0 then
            some [UInt8.ofNat (va * 4 + vb / 16), UInt8.ofNat (vb % 16 * 16 + vc / 4)]
           else none)
        else
          match symVal d with
          | none => none
          | some vd =>
            some [UInt8.ofNat (va * 4 + vb / 16), UInt8.ofNat (vb % 16 * 16 + vc / 4),
                  UInt8.ofNat (vc % 4 * 64 + vd)]
  | _, _ => none

/-- Text-mode body → bytes, quantum by quantum. -/
def b64StreamDecode : Bytes → Option Bytes
  | [] => some []
  | a :: b :: c :: d :: rest =>
    match quantum a b c d, b64StreamDecode rest with
    | some q, some r => some (q ++ r)
    | _, _ => none
  | _ => none

inductive Item where
  | msg (compressed : Bool) (payload : Bytes)
  | trailers (h : List Pair)
  deriving DecidableEq, Repr

/-- Split a header block into CRLF-terminated lines (`cur` = current line, reversed). -/
def lines (cur : Bytes) : Bytes → Option (List Bytes)
  | [] => if cur.isEmpty then some [] else none
  | [_] => none
  | a :: b :: rest =>
    if a = 13 ∧ b = 10 then (lines [] rest).map (cur.reverse :: ·)
    else lines (a :: cur) (b :: rest)

/-- name and value of a header line: split at the first colon. -/
def splitColon : Bytes → Option Pair
  | [] => none
  | b :: r => if b = 58 then some ([], r) else (splitColon r).map (fun p => (b :: p.1, p.2))

def traverse {α β : Type} (f : α → Option β) : List α → Option (List β)
  | [] => some []
  | x :: xs =>
    match f x, traverse f xs with
    | some y, some ys => some (y :: ys)
    | _, _ => none

def parseBlock (b : Bytes) : Option (List Pair) :=
  match lines [] b with
  | none => none
  | some ls => traverse splitColon ls

/-- Frame sequence → items (fuel bounds the number of frames; `parseItems` supplies enough). -/
def parseItemsAux : Nat → Bytes → Option (List Item)
  | 0, _ => none
  | _ + 1, [] => some []
  | n + 1, fl :: a :: b :: c :: d :: rest =>
    let len := readU32 a b c d
    if rest.length < len then none
    else
      let payload := rest.take len
      let item : Option Item :=
        if fl = 0 then some (.msg false payload)
        else if fl = 1 then some (.msg true payload)
        else if fl = 128 then (parseBlock payload).map .trailers
        else none
      match item, parseItemsAux n (rest.drop len) with
      | some i, some is => some (i :: is)
      | _, _ => none
  | _ + 1, _ => none

def parseItems (b : Bytes) : Option (List Item) := parseItemsAux (b.length + 1) b

/-- The reader: what a grpc-web peer recovers from a body. -/
def read (text : Bool) (body : Bytes) : Option (List Item) :=
  if text then
    match b64StreamDecode body with
    | none => none
    | some raw => parseItems raw
  else parseItems body

/-- Serialisation of one gRPC message frame (gRPC over HTTP/2, "Length-Prefixed-Message"). -/
def frameBytes (compressed : Bool) (payload : Bytes) : Bytes :=
  (if compressed then 1 else 0) :: u32be payload.length ++ payload

def framesBytes : List (Bool × Bytes) → Bytes
  | [] => []
  | f :: fs => frameBytes f.1 f.2 ++ framesBytes fs

/-! ### the input domain: what an `http::HeaderMap` can hold

`HeaderName` is a non-empty lower-case token (no colon, no control characters) and
`HeaderValue` contains no control characters except TAB — in particular no CR.  The theorems
need only the following consequences. -/

/-- a header name contains neither a colon nor CR. -/
def nameOk (n : Bytes) : Prop := ∀ b ∈ n, b ≠ 58 ∧ b ≠ 13
/-- a header value contains no CR. -/
def valueOk (v : Bytes) : Prop := ∀ b ∈ v, b ≠ 13

instance (n : Bytes) : Decidable (nameOk n) := by unfold nameOk; infer_instance
instance (v : Bytes) : Decidable (valueOk v) := by unfold valueOk; infer_instance

/-- one header line of an HTTP/1 header block: `name:value CRLF`. -/
def lineOf (p : Pair) : Bytes := p.1 ++ [58] ++ p.2 ++ [13, 10]

/-- Trailer maps are compared per name: same values in the same order under every name. -/
def sameTrailers (a b : List Pair) : Bool :=
  (a ++ b).all (fun p => TMap.getAll p.1 a == TMap.getAll p.1 b)

/-! ### frame structure alone (C17: what counts as a truncated / malformed body) -/

/-- one frame on the wire, any flag -/
def rawFrame (flag : UInt8) (p : Bytes) : Bytes := flag :: u32be p.length ++ p

def flagOk (fl : UInt8) : Prop := fl = 0 ∨ fl = 1 ∨ fl = 128

/-- the wire form of a list of (flag, payload) frames -/
def encItems (items : List (UInt8 × Bytes)) : Bytes := items.flatMap (fun i => rawFrame i.1 i.2)

/-- The body is a sequence of complete frames with known flags — i.e. it is NOT cut off inside
a frame (header or payload) and carries no unknown frame type. -/
def WellFramed (body : Bytes) : Prop :=
  ∃ items : List (UInt8 × Bytes),
    (∀ i ∈ items, flagOk i.1 ∧ i.2.length < 4294967296) ∧
    body = items.flatMap (fun i => rawFrame i.1 i.2)

/-- decision procedure for `WellFramed` (used by the driver's verdict); fuel as in `parseItems`. -/
def frameStructureAux : Nat → Bytes → Option (List (UInt8 × Bytes))
  | 0, _ => none
  | _ + 1, [] => some []
  | n + 1, fl :: a :: b :: c :: d :: rest =>
    let len := readU32 a b c d
    if rest.length < len then none
    else if fl = 0 ∨ fl = 1 ∨ fl = 128 then
      match frameStructureAux n (rest.drop len) with
      | some is => some ((fl, rest.take len) :: is)
      | none => none
    else none
  | _ + 1, _ => none

def frameStructure (b : Bytes) : Option (List (UInt8 × Bytes)) := frameStructureAux (b.length + 1) b

/-! ### field syntax (RFC 9110 §5.1, §5.5) -/

/-- `tchar` -/
def tchar (b : UInt8) : Bool :=
  let n := b.toNat
  (48 ≤ n && n ≤ 57) || (65 ≤ n && n ≤ 90) || (97 ≤ n && n ≤ 122) ||
  (str "!#$%&'*+-.^_`|~").contains b

def fieldNameOk (n : Bytes) : Bool := !n.isEmpty && n.all tchar

/-- field-vchar / SP / HTAB / obs-text -/
def fieldValueOk (v : Bytes) : Bool :=
  v.all (fun b => (b.toNat ≥ 32 && b.toNat != 127) || b.toNat == 9)

def isOws (b : UInt8) : Bool := b == 32 || b == 9

/-- a field value without surrounding optional whitespace -/
def owsTrim (v : Bytes) : Bytes := ((v.dropWhile isOws).reverse.dropWhile isOws).reverse

/-- field names are case-insensitive; lower case is the canonical form -/
def lowerName (n : Bytes) : Bytes := n.map Ascii.toLower

def normPairs (ps : List Pair) : List Pair := ps.map (fun p => (lowerName p.1, owsTrim p.2))

/-! ### what "every name with its full value" means for a reader (C17's verdict)

The one optional space after the colon is not part of the value (`name: value`); nothing else
of a value may go — in particular no whitespace at its end. -/

def dropSpace : Bytes → Bytes
  | 32 :: r => r
  | v => v

/-- names in their canonical (lower-case) form, values without the one optional leading space -/
def exactPairs (ps : List Pair) : List Pair := ps.map (fun p => (lowerName p.1, dropSpace p.2))

/-- Lines of a header block for a reader that drops nothing: CRLF ends a line, and bytes after
the last CRLF (a last line whose CRLF is missing) are one more line. -/
def looseLines (cur : Bytes) : Bytes → List Bytes
  | [] => if cur.isEmpty then [] else [cur.reverse]
  | [x] => [(x :: cur).reverse]
  | a :: b :: rest =>
    if a = 13 ∧ b = 10 then cur.reverse :: looseLines [] rest
    else looseLines (a :: cur) (b :: rest)

/-- every line of the block as a (name, value) pair; `none` if some line has no colon -/
def readBlockLoose (b : Bytes) : Option (List Pair) := traverse splitColon (looseLines [] b)

/-! ### trailers frames as servers write them (C17's input domain) -/

/-- one trailer line: `name:value CRLF`, or with the customary space, `name: value CRLF` -/
def lineOfSp (sp : Bool) (p : Pair) : Bytes :=
  p.1 ++ (if sp then [58, 32] else [58]) ++ p.2 ++ [13, 10]

def trailersBlock (sp : Bool) (ps : List Pair) : Bytes := ps.flatMap (lineOfSp sp)

def trailersFrame (sp : Bool) (ps : List Pair) : Bytes := rawFrame 128 (trailersBlock sp ps)

def isUpper (b : UInt8) : Bool := 65 ≤ b.toNat && b.toNat ≤ 90

/-- a lower-case field name (HTTP/2 form; what tonic itself writes) -/
def lowerNameOk (n : Bytes) : Bool :=
  !n.isEmpty && n.length ≤ 65535 && n.all (fun b => tchar b && !isUpper b)

/-- a field name in any case (HTTP/1 form, e.g. `Grpc-Status`) -/
def anyCaseNameOk (n : Bytes) : Bool :=
  !n.isEmpty && n.length ≤ 65535 && n.all tchar

/-- a field value in its canonical form: legal bytes, no leading space -/
def plainValueOk (v : Bytes) : Bool := fieldValueOk v && v.head? != some 32

/-! ### Which requests are grpc-web requests (PROTOCOL-WEB.md content types) -/

/-- `some text?` iff `ct` is `application/grpc-web[-text][+proto]`. -/
def webContentType (ct : Bytes) : Option Bool :=
  let base := str "application/grpc-web"
  if ct = base ∨ ct = base ++ str "+proto" then some false
  else if ct = base ++ str "-text" ∨ ct = base ++ str "-text+proto" then some true
  else none

inductive Expect where
  | web (reqText respText : Bool)   -- translate; request/response body forms
  | status (code : Nat)             -- immediate response, inner service not called
  | pass                            -- handed to the inner service untouched
  deriving DecidableEq, Repr

def expect (method : Bytes) (isH2 : Bool) (ct accept : Option Bytes) : Expect :=
  match ct.bind webContentType with
  | some reqText =>
    if method = str "POST" then
      .web reqText ((accept.bind webContentType) == some true)
    else .status 405
  | none => if isH2 then .pass else .status 400

/-- The value of a single-valued field (`content-type`, `accept`) in a header list: its first
occurrence. -/
def fieldOf (name : Bytes) (h : List Pair) : Option Bytes := (TMap.getAll name h).head?

/-- `expect` for a request given by its method, version and whole header list. -/
def expectFor (method : Bytes) (isH2 : Bool) (h : List Pair) : Expect :=
  expect method isH2 (fieldOf (str "content-type") h) (fieldOf (str "accept") h)

def grpcContentType : Bytes := str "application/grpc"

def responseContentType (text : Bool) : Bytes :=
  if text then str "application/grpc-web-text+proto" else str "application/grpc-web+proto"

/-! ### Which responses are grpc-web responses (PROTOCOL-WEB.md; RFC 9110 §8.3.1 media types)

A media type is compared without regard to case, parameters (`; charset=utf-8`) are not part of
it, and the grpc-web types come with an optional message-format suffix (`+proto`, `+json`,
`+thrift`, …: "application/grpc-web[+format]", "application/grpc-web-text[+format]"). -/

inductive RespKind where
  | binary   -- `application/grpc-web[+format]`: frames as they are
  | text     -- `application/grpc-web-text[+format]`: base64 of the frames
  | other    -- not a grpc-web response: the property says nothing
  deriving DecidableEq, Repr

/-- type/subtype of a `content-type` value: up to the first `;`, optional whitespace around it
removed, lower case -/
def mediaType (ct : Bytes) : Bytes := (owsTrim (ct.takeWhile (· != 59))).map Ascii.toLower

def isPrefixB : Bytes → Bytes → Bool
  | [], _ => true
  | _ :: _, [] => false
  | a :: as, b :: bs => a == b && isPrefixB as bs

/-- `mt` is `base` or `base+<format>` -/
def isTypeOrSuffixed (base mt : Bytes) : Bool := mt == base || isPrefixB (base ++ [43]) mt

/-- The kind of a response by its `content-type`.  A response WITHOUT a content-type is taken
for what the client asked for (it sent `content-type: application/grpc-web` and no `accept` for
the text form). -/
def respKind (ct : Option Bytes) : RespKind :=
  match ct with
  | none => .binary
  | some v =>
    let mt := mediaType v
    if isTypeOrSuffixed (str "application/grpc-web") mt then .binary
    else if isTypeOrSuffixed (str "application/grpc-web-text") mt then .text
    else .other

end Spec.GrpcWeb
