/-
What `http_body::Body` promises about its hints (http-body 1.0, trait documentation):

* `size_hint()`: "the bounds on the remaining length of the stream" — of its DATA; when the upper bound is set the
  stream yields no more than that, and (if it ends cleanly) no less than the lower bound;
* `is_end_stream()`: "an end of stream means that `poll_frame` will return `None`".

HTTP servers act on both (hyper writes `content-length` from an exact size and cuts the body there; it sets
END_STREAM / skips polling when a body says it is at its end), so a translated body whose hints do not cover what
it then emits is not delivered.  Independent of the model: plain numbers.
-/
namespace Spec.BodyHints

/-- One reading: the hint taken before a frame is asked for, and what the consumer then still gets — the lengths of
the data frames from here on, the number of other (trailers) frames, and whether the body ends cleanly. -/
structure Reading where
  lo : Nat
  hi : Option Nat
  eos : Bool
  restData : List Nat
  restOther : Nat
  clean : Bool
  deriving Repr

def truthful (r : Reading) : Bool :=
  let total := r.restData.sum
  (match r.hi with
    | some u => decide (total ≤ u)
    | none => true)
  && (!r.clean || decide (r.lo ≤ total))
  && (!r.eos || (r.restData.isEmpty && r.restOther == 0 && r.clean))

end Spec.BodyHints
