import TonicModel.Basic.Bytes
/-
Oracle for C10, written from the property text and gRPC's PROTOCOL-HTTP2.md
(`Path → "/" Service-Name "/" {method name}`), independent of `Model/Router`:
a registry *declares* methods of named services; a request path *names* method M of service S
iff it is literally "/" S "/" M; everything else must be answered UNIMPLEMENTED (12) without
running any handler.
-/
namespace Spec.Router

/-- What the user registered: service full name ↦ its method names. -/
abbrev Decl := List (Bytes × List Bytes)

def Declares (reg : Decl) (s m : Bytes) : Prop := ∃ ms, (s, ms) ∈ reg ∧ m ∈ ms

/-- `"/" Service-Name "/" method` -/
def pathOf (s m : Bytes) : Bytes := [47] ++ s ++ [47] ++ m

/-- All declared (service, method) pairs whose path is exactly `path` (naive search). -/
def targets (reg : Decl) (path : Bytes) : List (Bytes × Bytes) :=
  reg.flatMap (fun sm => (sm.2.filter (fun m => pathOf sm.1 m == path)).map (fun m => (sm.1, m)))

theorem mem_targets (reg : Decl) (path s m : Bytes) :
    (s, m) ∈ targets reg path ↔ Declares reg s m ∧ path = pathOf s m := by
  simp only [targets, List.mem_flatMap, List.mem_map, List.mem_filter, beq_iff_eq, Declares]
  constructor
  · rintro ⟨⟨s', ms⟩, hmem, m', ⟨hm', hp⟩, heq⟩
    simp only [Prod.mk.injEq] at heq
    obtain ⟨rfl, rfl⟩ := heq
    exact ⟨⟨ms, hmem, hm'⟩, hp.symm⟩
  · rintro ⟨⟨ms, hmem, hm⟩, hp⟩
    exact ⟨(s, ms), hmem, m, ⟨hm, hp.symm⟩, rfl⟩

/-- The observable part of one exchange: which handler ran (if any), the response's grpc-status
(if any), its HTTP status and whether its content-type is `application/grpc`. -/
structure Obs where
  handler : Option (Bytes × Bytes)
  status : Option Nat
  http : Nat
  grpcContentType : Bool
deriving DecidableEq, Repr

/-- First half of the property: a path that names a declared method runs exactly that handler;
any other path runs no handler. -/
def handlerOk (reg : Decl) (path : Bytes) (o : Obs) : Bool :=
  match targets reg path with
  | [] => o.handler.isNone
  | ts => match o.handler with
    | some h => ts.contains h
    | none => false

/-- Second half: the answer is a gRPC answer (HTTP 200, `application/grpc`) whose grpc-status is
the handler's own (`hs`) where a handler had to run, and UNIMPLEMENTED (12) for every other
path. -/
def answerOk (reg : Decl) (path : Bytes) (hs : Nat) (o : Obs) : Bool :=
  o.http == 200 && o.grpcContentType &&
  (match targets reg path with
   | [] => o.status == some 12
   | _ => o.status == some hs)

/-- The property as a decidable predicate on an observation (service names distinct; `hs` is
the grpc-status the registered handlers themselves answer with). -/
def allowed (reg : Decl) (path : Bytes) (hs : Nat) (o : Obs) : Bool :=
  handlerOk reg path o && answerOk reg path hs o

/-- The path lies strictly below the prefix `"/" S "/"` of a registered service `S` (used only to
delimit the one excluded case: a user-supplied `axum::Router` with its own fallback legitimately
answers the paths that are below no registered service). -/
def underService (reg : Decl) (path : Bytes) : Bool :=
  reg.any (fun sm => ([47] ++ sm.1 ++ [47]).isPrefixOf path && decide (sm.1.length + 2 < path.length))

/-- Distinct service names ("any *set* of services"). -/
def distinctNames (reg : Decl) : Prop := (reg.map Prod.fst).Nodup

end Spec.Router
