import TonicModel.Basic.Bytes
/-
Oracle for C10, written from the property text and gRPC's PROTOCOL-HTTP2.md
(`Path → "/" Service-Name "/" {method name}`), independent of `Model/Router`:
a registry *declares* methods of named services; a request path *names* method M of service S
iff it is literally "/" S "/" M; everything else must be answered UNIMPLEMENTED (12) without
running any handler.
-/
namespace Spec.Router

/-- What the user registered: service full name ↦ its method names. -/
abbrev Decl := List (Bytes × List Bytes)

def Declares (reg : Decl) (s m : Bytes) : Prop := ∃ ms, (s, ms) ∈ reg ∧ m ∈ ms

/-- `"/" Service-Name "/" method` -/
def pathOf (s m : Bytes) : Bytes := [47] ++ s ++ [47] ++ m

/-- All declared (service, method) pairs whose path is exactly `path` (naive search). -/
def targets (reg : Decl) (path : Bytes) : List (Bytes × Bytes) :=
  reg.flatMap (fun sm => (sm.2.filter (fun m => pathOf sm.1 m == path)).map (fun m => (sm.1, m)))

theorem mem_targets (reg : Decl) (path s m : Bytes) :
    (s, m) ∈ targets reg path ↔ Declares reg s m ∧ path = pathOf s m := by
  simp only [targets, List.mem_flatMap, List.mem_map, List.mem_filter, beq_iff_eq, Declares]
  constructor
  · rintro ⟨⟨s', ms⟩, hmem, m', ⟨hm', hp⟩, heq⟩
    simp only [Prod.mk.injEq] at heq
    obtain ⟨rfl, rfl⟩ := heq
    exact ⟨⟨ms, hmem, hm'⟩, hp.symm⟩
  · rintro ⟨⟨ms, hmem, hm⟩, hp⟩
    exact ⟨(s, ms), hmem, m, ⟨hm, hp.symm⟩, rfl⟩

/-- The observable part of one exchange: which handler ran (if any) and the response's
grpc-status (if any). -/
structure Obs where
  handler : Option (Bytes × Bytes)
  status : Option Nat
deriving DecidableEq, Repr

/-- The property as a decidable predicate on an observation (service names distinct):
a path that names a declared method runs exactly that handler; any other path runs no handler
and is answered with grpc-status 12. -/
def allowed (reg : Decl) (path : Bytes) (o : Obs) : Bool :=
  match targets reg path with
  | [] => o.handler.isNone && o.status == some 12
  | ts => match o.handler with
    | some h => ts.contains h
    | none => false

/-- Distinct service names ("any *set* of services"). -/
def distinctNames (reg : Decl) : Prop := (reg.map Prod.fst).Nodup

end Spec.Router
