import TonicModel.Basic.RichErrorTypes
import TonicModel.Basic.Utf8Rust
/-
Oracle for C20, independent of the model: what a byte string *means* as a google.rpc.Status
according to the protobuf encoding guide and the two .proto files
(google/rpc/status.proto, google/rpc/error_details.proto), read the naive way — first cut the
bytes into (field number, wire value) records, then look fields up by number.  Nothing here
knows about prost, tonic or the streaming reader of the model; groups (deprecated, never
produced by a proto3 writer) and wire types 6/7 are simply "not a conformant encoding".

`carries code msg ds bytes` is the decidable statement "these bytes are a google.rpc.Status with
that code, that message and exactly those details, in that order".
-/
namespace Spec.RichError
open _root_.RichError

inductive Wire
  | varint (n : Nat)
  | fixed64 (b : Bytes)
  | len (b : Bytes)
  | fixed32 (b : Bytes)
  deriving DecidableEq, Repr

/-- base-128 varint: `Σ (bᵢ mod 128)·128^i`, the last byte is the first one below 128; at most ten
bytes and the value must fit 64 bits -/
def varintGo (acc mul : Nat) : Nat → Bytes → Option (Nat × Bytes)
  | 0, _ => none
  | _, [] => none
  | f + 1, b :: bs =>
    if b.toNat < 128 then
      (if acc + b.toNat * mul < 18446744073709551616 then some (acc + b.toNat * mul, bs) else none)
    else varintGo (acc + (b.toNat - 128) * mul) (mul * 128) f bs

def varint (bs : Bytes) : Option (Nat × Bytes) := varintGo 0 1 10 bs

/-- cut a message body into its records -/
def fields : Nat → Bytes → Option (List (Nat × Wire))
  | _, [] => some []
  | 0, _ :: _ => none
  | f + 1, b :: bs =>
    match varint (b :: bs) with
    | none => none
    | some (key, r) =>
      if key / 8 = 0 ∨ 536870912 ≤ key / 8 then none
      else if key % 8 = 0 then
        match varint r with
        | none => none
        | some (v, r') => (fields f r').map ((key / 8, .varint v) :: ·)
      else if key % 8 = 1 then
        (if 8 ≤ r.length then (fields f (r.drop 8)).map ((key / 8, .fixed64 (r.take 8)) :: ·) else none)
      else if key % 8 = 2 then
        match varint r with
        | none => none
        | some (n, r') =>
          if n ≤ r'.length then (fields f (r'.drop n)).map ((key / 8, .len (r'.take n)) :: ·) else none
      else if key % 8 = 5 then
        (if 4 ≤ r.length then (fields f (r.drop 4)).map ((key / 8, .fixed32 (r.take 4)) :: ·) else none)
      else none

def parse (bs : Bytes) : Option (List (Nat × Wire)) := fields bs.length bs

/-- all values of field `n`, in order -/
def occurrences (n : Nat) (fs : List (Nat × Wire)) : List Wire :=
  (fs.filter (fun f => f.1 == n)).map (·.2)

def asLen : Wire → Option Bytes
  | .len b => some b
  | _ => none

def asVarint : Wire → Option Nat
  | .varint v => some v
  | _ => none

/-- `repeated bytes/string/message` field: every occurrence must be length-delimited -/
def repeatedLen (n : Nat) (fs : List (Nat × Wire)) : Option (List Bytes) :=
  (occurrences n fs).mapM asLen

/-- singular `bytes`: the last occurrence counts, absent means empty -/
def bytesField (n : Nat) (fs : List (Nat × Wire)) : Option Bytes :=
  (repeatedLen n fs).map (fun l => l.getLast?.getD [])

/-- singular `string`: as `bytes`, and every occurrence must be UTF-8 -/
def stringField (n : Nat) (fs : List (Nat × Wire)) : Option Bytes :=
  match repeatedLen n fs with
  | none => none
  | some l => if l.all Utf8Rust.valid then some (l.getLast?.getD []) else none

def repeatedString (n : Nat) (fs : List (Nat × Wire)) : Option (List Bytes) :=
  match repeatedLen n fs with
  | none => none
  | some l => if l.all Utf8Rust.valid then some l else none

/-- singular `int32`/`int64`: last occurrence as an unsigned 64-bit number, absent means 0 -/
def varintField (n : Nat) (fs : List (Nat × Wire)) : Option Nat :=
  ((occurrences n fs).mapM asVarint).map (fun l => l.getLast?.getD 0)

def int64Of (v : Nat) : Int := if v < 9223372036854775808 then v else (v : Int) - 18446744073709551616

def int32Of (v : Nat) : Int :=
  if v % 4294967296 < 2147483648 then (v % 4294967296 : Nat) else ((v % 4294967296 : Nat) : Int) - 4294967296

/-- singular embedded message: occurrences merge, which for parsing is concatenation -/
def messageField (n : Nat) (fs : List (Nat × Wire)) : Option (Option Bytes) :=
  match repeatedLen n fs with
  | none => none
  | some [] => some none
  | some l => some (some l.flatten)

/-! ### the messages of error_details.proto, field numbers as in the .proto -/

/-- `message Violation { string subject = 1; string description = 2; }` (QuotaFailure) -/
def quotaViolation (b : Bytes) : Option QuotaViolation := do
  let fs ← parse b
  pure ⟨← stringField 1 fs, ← stringField 2 fs⟩

/-- `message Violation { string type = 1; string subject = 2; string description = 3; }` -/
def preconditionViolation (b : Bytes) : Option PreconditionViolation := do
  let fs ← parse b
  pure ⟨← stringField 1 fs, ← stringField 2 fs, ← stringField 3 fs⟩

/-- `message FieldViolation { string field = 1; string description = 2; }` -/
def fieldViolation (b : Bytes) : Option FieldViolation := do
  let fs ← parse b
  pure ⟨← stringField 1 fs, ← stringField 2 fs⟩

/-- `message Link { string description = 1; string url = 2; }` -/
def helpLink (b : Bytes) : Option HelpLink := do
  let fs ← parse b
  pure ⟨← stringField 1 fs, ← stringField 2 fs⟩

/-- map entry `{ string key = 1; string value = 2; }` -/
def mapEntry (b : Bytes) : Option (Bytes × Bytes) := do
  let fs ← parse b
  pure (← stringField 1 fs, ← stringField 2 fs)

/-- `google.protobuf.Duration { int64 seconds = 1; int32 nanos = 2; }`, restricted to the
non-negative normalized values a `std::time::Duration` can hold -/
def duration (b : Bytes) : Option Dur := do
  let fs ← parse b
  let s := int64Of (← varintField 1 fs)
  let n := int32Of (← varintField 2 fs)
  if 0 ≤ s ∧ 0 ≤ n ∧ n < 1000000000 then pure ⟨s.toNat, n.toNat⟩ else none

/-- `message RetryInfo { google.protobuf.Duration retry_delay = 1; }` -/
def retryInfo (b : Bytes) : Option RetryInfo := do
  let fs ← parse b
  match ← messageField 1 fs with
  | none => pure ⟨none⟩
  | some d => pure ⟨some (← duration d)⟩

/-- `message DebugInfo { repeated string stack_entries = 1; string detail = 2; }` -/
def debugInfo (b : Bytes) : Option DebugInfo := do
  let fs ← parse b
  pure ⟨← repeatedString 1 fs, ← stringField 2 fs⟩

/-- `message QuotaFailure { repeated Violation violations = 1; }` -/
def quotaFailure (b : Bytes) : Option QuotaFailure := do
  let fs ← parse b
  pure ⟨← (← repeatedLen 1 fs).mapM quotaViolation⟩

/-- `message ErrorInfo { string reason = 1; string domain = 2; map<string, string> metadata = 3; }`;
the entries are returned in wire order (duplicates are not merged: a conformant writer has none) -/
def errorInfo (b : Bytes) : Option ErrorInfo := do
  let fs ← parse b
  pure ⟨← stringField 1 fs, ← stringField 2 fs, ← (← repeatedLen 3 fs).mapM mapEntry⟩

/-- `message PreconditionFailure { repeated Violation violations = 1; }` -/
def preconditionFailure (b : Bytes) : Option PreconditionFailure := do
  let fs ← parse b
  pure ⟨← (← repeatedLen 1 fs).mapM preconditionViolation⟩

/-- `message BadRequest { repeated FieldViolation field_violations = 1; }` -/
def badRequest (b : Bytes) : Option BadRequest := do
  let fs ← parse b
  pure ⟨← (← repeatedLen 1 fs).mapM fieldViolation⟩

/-- `message RequestInfo { string request_id = 1; string serving_data = 2; }` -/
def requestInfo (b : Bytes) : Option RequestInfo := do
  let fs ← parse b
  pure ⟨← stringField 1 fs, ← stringField 2 fs⟩

/-- `message ResourceInfo { string resource_type = 1; string resource_name = 2; string owner = 3;
string description = 4; }` -/
def resourceInfo (b : Bytes) : Option ResourceInfo := do
  let fs ← parse b
  pure ⟨← stringField 1 fs, ← stringField 2 fs, ← stringField 3 fs, ← stringField 4 fs⟩

/-- `message Help { repeated Link links = 1; }` -/
def help (b : Bytes) : Option Help := do
  let fs ← parse b
  pure ⟨← (← repeatedLen 1 fs).mapM helpLink⟩

/-- `message LocalizedMessage { string locale = 1; string message = 2; }` -/
def localizedMessage (b : Bytes) : Option LocalizedMessage := do
  let fs ← parse b
  pure ⟨← stringField 1 fs, ← stringField 2 fs⟩

/-- the type URL under which a `google.protobuf.Any` carries message `google.rpc.<name>` -/
def urlOf (name : String) : Bytes := asciiBytes "type.googleapis.com/" ++ asciiBytes "google.rpc." ++ asciiBytes name

/-- the detail an `Any` stands for: `none` = one of the ten types but not decodable,
`some none` = some other type -/
def detailOf (url value : Bytes) : Option (Option ErrorDetail) :=
  if url = urlOf "RetryInfo" then (retryInfo value).map (some ∘ .retryInfo)
  else if url = urlOf "DebugInfo" then (debugInfo value).map (some ∘ .debugInfo)
  else if url = urlOf "QuotaFailure" then (quotaFailure value).map (some ∘ .quotaFailure)
  else if url = urlOf "ErrorInfo" then (errorInfo value).map (some ∘ .errorInfo)
  else if url = urlOf "PreconditionFailure" then (preconditionFailure value).map (some ∘ .preconditionFailure)
  else if url = urlOf "BadRequest" then (badRequest value).map (some ∘ .badRequest)
  else if url = urlOf "RequestInfo" then (requestInfo value).map (some ∘ .requestInfo)
  else if url = urlOf "ResourceInfo" then (resourceInfo value).map (some ∘ .resourceInfo)
  else if url = urlOf "Help" then (help value).map (some ∘ .help)
  else if url = urlOf "LocalizedMessage" then (localizedMessage value).map (some ∘ .localizedMessage)
  else some none

/-- `google.protobuf.Any { string type_url = 1; bytes value = 2; }` -/
def any (b : Bytes) : Option (Bytes × Bytes) := do
  let fs ← parse b
  pure (← stringField 1 fs, ← bytesField 2 fs)

structure Embedded where
  code : Int
  message : Bytes
  details : List (Bytes × Bytes)
  deriving DecidableEq, Repr

/-- `google.rpc.Status { int32 code = 1; string message = 2; repeated google.protobuf.Any details = 3; }` -/
def status (b : Bytes) : Option Embedded := do
  let fs ← parse b
  pure ⟨int32Of (← varintField 1 fs), ← stringField 2 fs, ← (← repeatedLen 3 fs).mapM any⟩

/-- same elements with the same multiplicities -/
def isPerm : List (Bytes × Bytes) → List (Bytes × Bytes) → Bool
  | [], l => l.isEmpty
  | a :: as, l => l.contains a && isPerm as (l.erase a)

/-- equality of details, `ErrorInfo.metadata` compared as a map -/
def sameDetail : ErrorDetail → ErrorDetail → Bool
  | .errorInfo x, .errorInfo y => x.reason == y.reason && x.domain == y.domain && isPerm x.metadata y.metadata
  | a, b => a == b

def sameDetails : List ErrorDetail → List ErrorDetail → Bool
  | [], [] => true
  | a :: as, b :: bs => sameDetail a b && sameDetails as bs
  | _, _ => false

/-- the ten standard details carried by the `Any` list, in order; `none` if one of them is
undecodable -/
def standardDetails : List (Bytes × Bytes) → Option (List ErrorDetail)
  | [] => some []
  | (u, v) :: rest =>
    match detailOf u v with
    | none => none
    | some none => standardDetails rest
    | some (some d) => (standardDetails rest).map (d :: ·)

/-- "these bytes are a google.rpc.Status with this code and message whose details are exactly
`ds`, kinds, order and field values" -/
def carries (code : Nat) (msg : Bytes) (ds : List ErrorDetail) (bytes : Bytes) : Bool :=
  match status bytes with
  | none => false
  | some e =>
    e.code == (code : Int) && e.message == msg && e.details.length == ds.length &&
    (match standardDetails e.details with
     | none => false
     | some ds' => sameDetails ds ds')

def allKinds : List Kind :=
  [.retryInfo, .debugInfo, .quotaFailure, .errorInfo, .preconditionFailure, .badRequest,
   .requestInfo, .resourceInfo, .help, .localizedMessage]

/-- first detail of a kind in a list (what the `get_details_*` getters promise) -/
def firstOfKind (k : Kind) (ds : List ErrorDetail) : Option ErrorDetail := ds.find? (fun d => d.kind == k)

/-- the set form: as `carries`, but `ds` (at most one detail per kind) may sit on the wire in any order -/
def carriesSet (code : Nat) (msg : Bytes) (ds : List ErrorDetail) (bytes : Bytes) : Bool :=
  match status bytes with
  | none => false
  | some e =>
    e.code == (code : Int) && e.message == msg && e.details.length == ds.length &&
    (match standardDetails e.details with
     | none => false
     | some ds' =>
       ds'.length == ds.length &&
       allKinds.all fun k =>
         match firstOfKind k ds, firstOfKind k ds' with
         | none, none => true
         | some a, some b => sameDetail a b
         | _, _ => false)

/-- the embedded status alone: code and message -/
def embeds (code : Nat) (msg : Bytes) (bytes : Bytes) : Bool :=
  match status bytes with
  | none => false
  | some e => e.code == (code : Int) && e.message == msg

/-- last detail of a kind -/
def lastOfKind (k : Kind) (ds : List ErrorDetail) : Option ErrorDetail := firstOfKind k ds.reverse

/-- well-formed inputs: what the Rust types guarantee (`String` is UTF-8, `Duration` has
`nanos < 10^9`, a `HashMap` has distinct keys) plus the property's "durations within the
protobuf range" in its weakest useful form: the seconds fit an `i64`. -/
def wfDur (d : Dur) : Bool := d.secs < 9223372036854775808 && d.nanos < 1000000000

def distinctKeys : List (Bytes × Bytes) → Bool
  | [] => true
  | e :: rest => !(rest.any (fun x => x.1 == e.1)) && distinctKeys rest

def wfDetail : ErrorDetail → Bool
  | .retryInfo x => match x.retryDelay with | none => true | some d => wfDur d
  | .debugInfo x => x.stackEntries.all Utf8Rust.valid && Utf8Rust.valid x.detail
  | .quotaFailure x => x.violations.all fun v => Utf8Rust.valid v.subject && Utf8Rust.valid v.description
  | .errorInfo x =>
    Utf8Rust.valid x.reason && Utf8Rust.valid x.domain &&
    x.metadata.all (fun e => Utf8Rust.valid e.1 && Utf8Rust.valid e.2) && distinctKeys x.metadata
  | .preconditionFailure x =>
    x.violations.all fun v => Utf8Rust.valid v.type && Utf8Rust.valid v.subject && Utf8Rust.valid v.description
  | .badRequest x => x.fieldViolations.all fun v => Utf8Rust.valid v.field && Utf8Rust.valid v.description
  | .requestInfo x => Utf8Rust.valid x.requestId && Utf8Rust.valid x.servingData
  | .resourceInfo x =>
    Utf8Rust.valid x.resourceType && Utf8Rust.valid x.resourceName && Utf8Rust.valid x.owner &&
    Utf8Rust.valid x.description
  | .help x => x.links.all fun v => Utf8Rust.valid v.description && Utf8Rust.valid v.url
  | .localizedMessage x => Utf8Rust.valid x.locale && Utf8Rust.valid x.message

end Spec.RichError
