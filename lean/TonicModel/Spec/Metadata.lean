import TonicModel.Basic.Bytes
import TonicModel.Basic.Base64
import TonicModel.Basic.HMap
/-
Oracle for C08, from the property statement and gRPC's PROTOCOL-HTTP2.md (Custom-Metadata →
Binary-Header / ASCII-Header; Binary-Header → {Header-Name "-bin"} {base64 encoded value});
independent of `Model/Metadata`.
-/
namespace Spec.Metadata

/-- the names the property lists as reserved by the protocol -/
def reserved : List Bytes :=
  [HMap.name "te", HMap.name "user-agent", HMap.name "content-type", HMap.name "grpc-status",
   HMap.name "grpc-message", HMap.name "grpc-message-type"]

/-- a (lower-case, as transmitted) header name denotes a binary entry iff it ends in `-bin`:
read backwards it starts with `nib-` -/
def isBinName (n : Bytes) : Bool := n.reverse.take 4 == [110, 105, 98, 45]

/-- every non-reserved entry of `sent` is in `received` under the same name with the same
values in the same order — and `received` has no other non-reserved entries -/
def preserved (sent received : HMap) : Bool :=
  (HMap.keys sent ++ HMap.keys received).all (fun k =>
    reserved.contains k || HMap.getAll k received == HMap.getAll k sent)

/-- under the reserved names the wire carries only what the protocol itself puts there -/
def reservedOnlyFromProtocol (wire protocolOwn : HMap) : Bool :=
  reserved.all (fun r => HMap.getAll r wire == HMap.getAll r protocolOwn)

/-- a binary value `v` is carried by wire value `w`: base64, decodable whether or not padded -/
def carriesBinary (w v : Bytes) : Bool := B64.decode w == some v

end Spec.Metadata
