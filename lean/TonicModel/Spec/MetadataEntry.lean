import TonicModel.Basic.MetaOps
import TonicModel.Spec.Metadata
/-
Oracle for the entry API of a metadata map (C08), written from the API documentation and the
property statement, independent of `Model/`:

  * a map is a table `name ↦ non-empty list of values`; a name is *binary* iff it ends in `-bin`
    (after header-name normalisation), and the methods of one family (`entry`, `get_all`, … vs
    `entry_bin`, `get_all_bin`, …) see and touch only names of their own category;
  * whatever is handed out for an entry — key, value, iterator item, the entry handle itself — is
    typed by the *category of the stored name*, and a value written through a handle is encoded in
    that category (ASCII: verbatim; binary: unpadded base64 of the bytes given);
  * `insert` replaces all values by one and yields the old first one (`insert_mult`: all old ones),
    `append` adds at the end, `remove*` drops the name and yields the first (`_mult`: all) values,
    `or_insert*` yields the first value, inserting the default only if the name is absent,
    `iter*` / `get_all` yield all values in order (and in reverse order from the back).
-/
namespace Spec.Metadata.EntryApi
open MetaOps

abbrev Table := List (Bytes × List Bytes)

def ofHMap (m : HMap) : Table := (HMap.keys m).map (fun k => (k, HMap.getAll k m))

def flatten (t : Table) : HMap := t.flatMap (fun e => e.2.map (fun v => (e.1, v)))

def lookup (n : Bytes) (t : Table) : List Bytes :=
  match t.find? (fun e => e.1 == n) with
  | some e => e.2
  | none => []

/-- set the values of a name (an empty list drops the name) -/
def set (n : Bytes) (vs : List Bytes) (t : Table) : Table :=
  let rest := t.filter (fun e => e.1 != n)
  if vs.isEmpty then rest else rest ++ [(n, vs)]

/-- the stored name a key denotes for the method family `bin`: it must be a header name whose
normalised form ends in `-bin` iff the family is the binary one -/
def nameOf (bin : Bool) (key : Bytes) : Option Bytes :=
  match HMap.normName key with
  | some n => if bin == Spec.Metadata.isBinName n then some n else none
  | none => none

/-- the stored form of a value given as raw bytes to the family `bin` (`none`: not acceptable) -/
def stored (bin : Bool) (raw : Bytes) : Option Bytes :=
  if bin then some (B64.encode false raw)
  else if HMap.legalValue raw then some raw else none

/-- alternately from the front and from the back -/
def alternate : Nat → List Bytes → List Bytes
  | 0, _ => []
  | _ + 1, [] => []
  | _ + 1, [x] => [x]
  | f + 1, x :: xs => x :: xs.getLast! :: alternate f xs.dropLast

def occScript (n : Bytes) (b : Bool) : List OccUse → Table → List Ev × Table
  | [], t => ([], t)
  | u :: us, t =>
    let vs := lookup n t
    let first := vs.headD []
    let cont (evs : List Ev) (t' : Table) : List Ev × Table :=
      let r := occScript n b us t'
      (evs ++ r.1, r.2)
    match u with
    | .key => cont [.key "okey" b n] t
    | .get => cont [.val "get" b n first] t
    | .getMut => cont [.val "getmut" b n first] t
    | .insert raw =>
      match stored b raw with
      | none => cont [.note "valerr"] t
      | some w => cont [.wrote b n raw w, .val "oinsert" b n first] (set n [w] t)
    | .insertMult raw =>
      match stored b raw with
      | none => cont [.note "valerr"] t
      | some w => cont (.wrote b n raw w :: vs.map (Ev.val "drain" b n)) (set n [w] t)
    | .append raw =>
      match stored b raw with
      | none => cont [.note "valerr"] t
      | some w => cont [.wrote b n raw w] (set n (vs ++ [w]) t)
    | .iter => cont (vs.map (Ev.val "iter" b n)) t
    | .iterMut => cont (vs.map (Ev.val "itermut" b n)) t
    | .intoIter => (vs.map (Ev.val "intoiter" b n), t)
    | .intoMut => ([.val "intomut" b n first], t)
    | .remove => ([.val "remove" b n first], set n [] t)
    | .removeEntry => ([.key "rekey" b n, .val "reval" b n first], set n [] t)
    | .removeEntryMult => (.key "remkey" b n :: vs.map (Ev.val "remval" b n), set n [] t)

def step (op : Op) (t : Table) : List Ev × Table :=
  match op with
  | .insert b key raw =>
    match nameOf b key with
    | none => ([.note "keyerr"], t)
    | some n =>
      match stored b raw with
      | none => ([.note "valerr"], t)
      | some w =>
        (.wrote b n raw w :: (match lookup n t with | p :: _ => [Ev.val "prev" b n p] | [] => [.note "prev:none"]),
         set n [w] t)
  | .append b key raw =>
    match nameOf b key with
    | none => ([.note "keyerr"], t)
    | some n =>
      match stored b raw with
      | none => ([.note "valerr"], t)
      | some w =>
        let vs := lookup n t
        ([.wrote b n raw w, .note (if vs.isEmpty then "existed:0" else "existed:1")], set n (vs ++ [w]) t)
  | .remove b key =>
    match nameOf b key with
    | none => ([.note "removed:none"], t)
    | some n =>
      match lookup n t with
      | w :: _ => ([.val "removed" b n w], set n [] t)
      | [] => ([.note "removed:none"], t)
  | .getAll b kf key =>
    match nameOf b key with
    | none => ([.note (if kf.isTyped then "keyerr" else "ga:0")], t)
    | some n =>
      let vs := lookup n t
      (.note ("ga:" ++ toString vs.length) :: vs.map (Ev.val "ga" b n) ++ vs.reverse.map (Ev.val "gab" b n)
        ++ (alternate vs.length vs).map (Ev.val "gam" b n), t)
  | .entry b _ key use =>
    match nameOf b key with
    | none => ([.note "keyerr"], t)
    | some n =>
      let vs := lookup n t
      let head : List Ev := [.note (if vs.isEmpty then "vacant" else "occupied"), .key "ekey" b n]
      let add (evs : List Ev) (t' : Table) : List Ev × Table := (head ++ evs, t')
      match use with
      | .orInsert raw =>
        match stored b raw, vs with
        | none, _ => add [.note "valerr"] t
        | some _, cur :: _ => add [.val "or_insert" b n cur] t
        | some w, [] => add [.wrote b n raw w, .val "or_insert" b n w] (set n [w] t)
      | .orInsertWith raw =>
        match stored b raw, vs with
        | none, _ => add [.note "valerr"] t
        | some _, cur :: _ => add [.note "notcalled", .val "or_insert_with" b n cur] t
        | some w, [] => add [.note "called", .wrote b n raw w, .val "or_insert_with" b n w] (set n [w] t)
      | .branch vac occ =>
        if !vs.isEmpty then
          let r := occScript n b occ t
          add r.1 r.2
        else
          match vac with
          | .nothing => add [] t
          | .key => add [.key "vkey" b n] t
          | .intoKey => add [.key "vintokey" b n] t
          | .insert raw =>
            match stored b raw with
            | none => add [.note "valerr"] t
            | some w => add [.wrote b n raw w, .val "vinsert" b n w] (set n [w] t)
          | .insertEntry raw =>
            match stored b raw with
            | none => add [.note "valerr"] t
            | some w =>
              -- the handle returned is an entry of the same name: same category
              let r := occScript n b occ (set n [w] t)
              add ([.wrote b n raw w, .key "iekey" b n] ++ r.1) r.2

def run : List Op → Table → List (List Ev × HMap)
  | [], _ => []
  | op :: ops, t =>
    let r := step op t
    (r.1, flatten r.2) :: run ops r.2

/-- **what the property demands of one event**: a key or value is handed out, and a value is
written, in the category of the stored name; and a written value is restored by `to_bytes` of
that category to the bytes it was built from -/
def evOk : Ev → Bool
  | .key _ b n => b == Spec.Metadata.isBinName n
  | .val _ b n _ => b == Spec.Metadata.isBinName n
  | .wrote b n raw w => b == Spec.Metadata.isBinName n && decodeAs b w == some raw
  | .note _ => true

/-- every rendered event of an observed run hands things out in the category of the stored
name (`k:<api>:<A|B>:<name>`, `v:<api>:<A|B>:<name>:…`, `w:<A|B>:<name>:…`) -/
def tokenCategoryOk (tok : String) : Bool :=
  let good (t n : String) : Bool :=
    match Hex.decode n with
    | some n => (t == "B") == Spec.Metadata.isBinName n && (t == "A" || t == "B")
    | none => false
  match tok.splitOn ":" with
  | "k" :: _ :: t :: n :: _ => good t n
  | "v" :: _ :: t :: n :: _ => good t n
  | "w" :: t :: n :: _ => good t n
  | _ => true

end Spec.Metadata.EntryApi
