import TonicModel.Basic.Bytes
import TonicModel.Basic.Base64
import TonicModel.Basic.Percent
import TonicModel.Basic.Utf8
import TonicModel.Basic.HMap
/-
Oracle for C04, typed in from the gRPC documents and the property statement; independent of
`Model/Status` (codes are plain numbers here).

  * statuscodes.md: codes 0..16; PROTOCOL-HTTP2.md: `Status → "grpc-status" 1*DIGIT ; 0-9`,
    `Status-Message → "grpc-message" Percent-Encoded`, `Status-Details → "grpc-status-details-bin"
    {base64 encoded value}`
  * http-grpc-status-mapping.md / the property statement: HTTP status → code
  * PROTOCOL-HTTP2.md#errors: HTTP/2 error code → code
-/
namespace Spec.Status

def OK : Nat := 0
def CANCELLED : Nat := 1
def UNKNOWN : Nat := 2
def PERMISSION_DENIED : Nat := 7
def RESOURCE_EXHAUSTED : Nat := 8
def UNIMPLEMENTED : Nat := 12
def INTERNAL : Nat := 13
def UNAVAILABLE : Nat := 14
def UNAUTHENTICATED : Nat := 16

/-- a well-formed `grpc-status` value: the canonical decimal of a code 0..16 -/
def codeOfString (bs : Bytes) : Option Nat :=
  (List.range 17).find? (fun n => decimal n == bs)

/-- "unknown or malformed codes become UNKNOWN" -/
def readCode (bs : Bytes) : Nat := (codeOfString bs).getD UNKNOWN

/-- HTTP status → gRPC code when no grpc-status is available (non-200). -/
def httpToCode (http : Nat) : Nat :=
  match http with
  | 400 => INTERNAL
  | 401 => UNAUTHENTICATED
  | 403 => PERMISSION_DENIED
  | 404 => UNIMPLEMENTED
  | 429 => UNAVAILABLE
  | 502 => UNAVAILABLE
  | 503 => UNAVAILABLE
  | 504 => UNAVAILABLE
  | _ => UNKNOWN

/-- HTTP/2 error code → gRPC code; `none` = the table gives no mapping (STREAM_CLOSED,
HTTP_1_1_REQUIRED, codes unknown to RFC 9113): any code is accepted. -/
def h2ToCode (reason : Nat) : Option Nat :=
  match reason with
  | 0 => some INTERNAL            -- NO_ERROR
  | 1 => some INTERNAL            -- PROTOCOL_ERROR
  | 2 => some INTERNAL            -- INTERNAL_ERROR
  | 3 => some INTERNAL            -- FLOW_CONTROL_ERROR
  | 4 => some INTERNAL            -- SETTINGS_TIMEOUT
  | 5 => none                     -- STREAM_CLOSED: no mapping
  | 6 => some INTERNAL            -- FRAME_SIZE_ERROR
  | 7 => some UNAVAILABLE         -- REFUSED_STREAM
  | 8 => some CANCELLED           -- CANCEL
  | 9 => some INTERNAL            -- COMPRESSION_ERROR
  | 10 => some INTERNAL           -- CONNECT_ERROR
  | 11 => some RESOURCE_EXHAUSTED -- ENHANCE_YOUR_CALM
  | 12 => some PERMISSION_DENIED  -- INADEQUATE_SECURITY
  | _ => none

/-- RFC 9110 field-value octets as the `http` crate admits them: HTAB, SP..~, obs-text. -/
def legalHeaderByte (b : UInt8) : Bool := b.toNat == 9 || (32 ≤ b.toNat && b.toNat != 127)

def legalHeaderValue (v : Bytes) : Bool := v.all legalHeaderByte

/-- `Percent-Encoded` of PROTOCOL-HTTP2.md: unencoded bytes are %x20-%x24 / %x26-%x7E and every
`%` starts a `%HH` escape. -/
def percentEncodedWellFormed : Bytes → Bool
  | [] => true
  | b :: rest =>
    if b.toNat == 37 then
      match rest with
      | h :: l :: rest' => (Pct.hexVal h).isSome && (Pct.hexVal l).isSome && percentEncodedWellFormed rest'
      | _ => false
    else (32 ≤ b.toNat && b.toNat ≤ 126) && percentEncodedWellFormed rest

def statusName : Bytes := HMap.name "grpc-status"
def messageName : Bytes := HMap.name "grpc-message"
def detailsName : Bytes := HMap.name "grpc-status-details-bin"

/-- names that are not "custom metadata" for a status: the six reserved by the protocol (the
property's list) and the three that carry the status itself -/
def protocolNames : List Bytes :=
  [HMap.name "te", HMap.name "user-agent", HMap.name "content-type",
   HMap.name "grpc-status", HMap.name "grpc-message", HMap.name "grpc-message-type",
   HMap.name "grpc-status-details-bin"]

/-- The status a reader must obtain from a header block that carries a `grpc-status`:
`none` in a field = that field is undecodable. -/
structure Reading where
  code : Nat
  message : Option Bytes
  details : Option Bytes
deriving DecidableEq, Repr

def read (h : HMap) : Option Reading :=
  match HMap.get statusName h with
  | none => none
  | some cv =>
    some {
      code := readCode cv
      message := match HMap.get messageName h with
        | none => some []
        | some v => let d := Pct.decode v; if Utf8.valid d then some d else none
      details := match HMap.get detailsName h with
        | none => some []
        | some v => B64.decode v }

end Spec.Status
