import TonicModel.Basic.ReflDescriptor
/-
Oracle for C19, independent of `Model/Reflection`: what it *means* for a descriptor file to
declare a fully-qualified name, as an inductive relation read off the protobuf scoping rules
(descriptor.proto / the language guide: the full name of a declaration is the full name of its
scope, a dot, and its own name; top-level declarations of a file live in the file's package,
or have no prefix when the file has none).  Two conventions of the property are fixed here and
nowhere else:

  * enum values are named under their enum (`pkg.Enum.VALUE`) — the naming tonic-reflection
    uses and the property text implies ("enum values" listed after "enums"); see DESIGN.md §5;
  * a declaration whose `name` is absent declares nothing.

`declares` is the decision procedure for `Declares` that the driver evaluates on what the
implementation was observed to answer; `Lemmas/Reflection` proves `declares f n = true ↔
Declares f n`, so the verdict is about the relation, not about this function.
-/
namespace Spec.Reflection
open Refl

/-- Full name of `n` declared directly inside the scope with full name `scope`
(`scope = []`: the unnamed root scope of a file without package). -/
def qual (scope n : Name) : Name := if scope = [] then n else scope ++ dot :: n

/-- `DeclE scope e n`: enum `e`, declared in `scope`, declares the full name `n` — itself or one
of its values. -/
inductive DeclE (scope : Name) (e : EnumD) : Name → Prop
  | self {en : Name} : e.name = some en → DeclE scope e (qual scope en)
  | value {en v : Name} : e.name = some en → some v ∈ e.values →
      DeclE scope e (qual (qual scope en) v)

mutual
/-- `DeclM scope m n`: message `m`, declared in `scope`, declares `n` — itself, a field, a oneof,
an enum (or enum value) of its own, or anything a nested message declares, to any depth. -/
inductive DeclM : Name → Msg → Name → Prop
  | self {scope mn nested enums fields oneofs} :
      DeclM scope (.mk (some mn) nested enums fields oneofs) (qual scope mn)
  | nested {scope mn nested enums fields oneofs n} :
      DeclL (qual scope mn) nested n →
      DeclM scope (.mk (some mn) nested enums fields oneofs) n
  | enum {scope mn nested enums fields oneofs e n} :
      e ∈ enums → DeclE (qual scope mn) e n →
      DeclM scope (.mk (some mn) nested enums fields oneofs) n
  | field {scope mn nested enums fields oneofs f} :
      some f ∈ fields →
      DeclM scope (.mk (some mn) nested enums fields oneofs) (qual (qual scope mn) f)
  | oneof {scope mn nested enums fields oneofs o} :
      some o ∈ oneofs →
      DeclM scope (.mk (some mn) nested enums fields oneofs) (qual (qual scope mn) o)
inductive DeclL : Name → MsgList → Name → Prop
  | head {scope m ms n} : DeclM scope m n → DeclL scope (.cons m ms) n
  | tail {scope m ms n} : DeclL scope ms n → DeclL scope (.cons m ms) n
end

/-- The scope of a file's top-level declarations. -/
def pkg (f : File) : Name := f.package.getD []

/-- `Declares f n`: file `f` declares the fully-qualified name `n` (message, nested message,
field, oneof, enum, enum value, service or method). -/
inductive Declares (f : File) : Name → Prop
  | message {n} : DeclL (pkg f) f.messages n → Declares f n
  | enum {e n} : e ∈ f.enums → DeclE (pkg f) e n → Declares f n
  | service {s sn} : s ∈ f.services → s.name = some sn → Declares f (qual (pkg f) sn)
  | method {s sn m} : s ∈ f.services → s.name = some sn → some m ∈ s.methods →
      Declares f (qual (qual (pkg f) sn) m)

/-- `DeclaresService f n`: `n` is the full name of a service declared by `f`. -/
inductive DeclaresService (f : File) : Name → Prop
  | mk {s sn} : s ∈ f.services → s.name = some sn → DeclaresService f (qual (pkg f) sn)

/-! ### Decision procedures (proved equivalent to the relations in `Lemmas/Reflection`) -/

def isName (n : Name) : Option Name → Bool
  | some x => decide (n = x)
  | none => false

def declE (scope : Name) (e : EnumD) (n : Name) : Bool :=
  match e.name with
  | none => false
  | some en =>
    decide (n = qual scope en) || e.values.any (fun v => isName n (v.map (qual (qual scope en))))

mutual
def declM (scope : Name) : Msg → Name → Bool
  | .mk none _ _ _ _, _ => false
  | .mk (some mn) nested enums fields oneofs, n =>
    decide (n = qual scope mn)
      || declL (qual scope mn) nested n
      || enums.any (fun e => declE (qual scope mn) e n)
      || fields.any (fun f => isName n (f.map (qual (qual scope mn))))
      || oneofs.any (fun o => isName n (o.map (qual (qual scope mn))))
def declL (scope : Name) : MsgList → Name → Bool
  | .nil, _ => false
  | .cons m ms, n => declM scope m n || declL scope ms n
end

def declSvc (scope : Name) (s : Service) (n : Name) : Bool :=
  match s.name with
  | none => false
  | some sn =>
    decide (n = qual scope sn) || s.methods.any (fun m => isName n (m.map (qual (qual scope sn))))

def declares (f : File) (n : Name) : Bool :=
  declL (pkg f) f.messages n
    || f.enums.any (fun e => declE (pkg f) e n)
    || f.services.any (fun s => declSvc (pkg f) s n)

def declaresService (f : File) (n : Name) : Bool :=
  f.services.any (fun s => isName n (s.name.map (qual (pkg f))))

/-- The full names of the services a file declares, in declaration order. -/
def serviceNames (f : File) : List Name := f.services.filterMap (fun s => s.name.map (qual (pkg f)))

/-! ### Well-named descriptors: every `name` the service reads is present -/

def namesPresent (l : List (Option Name)) : Bool := l.all Option.isSome

def EnumD.wellNamed (e : EnumD) : Bool := e.name.isSome && namesPresent e.values

mutual
def Msg.wellNamed : Msg → Bool
  | .mk name nested enums fields oneofs =>
    name.isSome && MsgList.wellNamed nested && enums.all EnumD.wellNamed
      && namesPresent fields && namesPresent oneofs
def MsgList.wellNamed : MsgList → Bool
  | .nil => true
  | .cons m ms => Msg.wellNamed m && MsgList.wellNamed ms
end

def Service.wellNamed (s : Service) : Bool := s.name.isSome && namesPresent s.methods

/-- Everything below the file's own name is named. -/
def File.wellNamedBody (f : File) : Bool :=
  MsgList.wellNamed f.messages && f.enums.all EnumD.wellNamed && f.services.all Service.wellNamed

def File.wellNamed (f : File) : Bool := f.name.isSome && File.wellNamedBody f

/-! ### Registered files -/

/-- No other registered file claims `f`'s file name with different content (registering the
identical file again is not a conflict).  Protobuf requires file names to be unique in a pool;
for conflicting registrations the property only demands that *one* of them is served. -/
def Unconflicted (fs : List File) (f : File) : Prop := ∀ g ∈ fs, g.name = f.name → g = f

instance (fs : List File) (f : File) : Decidable (Unconflicted fs f) := by
  unfold Unconflicted; exact inferInstance

/-- `servedFrom earlier fs`: the files of `fs` that are the first of their name in
`earlier ++ fs`, in order. -/
def servedFrom (earlier : List File) : List File → List File
  | [] => []
  | f :: fs =>
    if earlier.any (fun g => decide (g.name = f.name)) then servedFrom (earlier ++ [f]) fs
    else f :: servedFrom (earlier ++ [f]) fs

/-- First-registration-wins reading of duplicate file names: of several registered files with
one name, the first (in the order the builder examines them) is the one served. -/
def served (fs : List File) : List File := servedFrom [] fs

/-! ### Builder programs

What the documented builder API says a sequence of calls configures (independent of the
model's `Builder`): every registration counts, in call order; the advertised services are the
chosen names in call order once `with_service_name` was called at all; "serve the gRPC Reflection
Service descriptor ... enabled by default - set `include` to false to disable": the last
`include_reflection_service` call counts, and without one it is on. -/

/-- One builder call, as far as the reading needs it. -/
inductive Call where
  | register | serviceName | includeReflection (b : Bool)
deriving DecidableEq

def includeOf (cs : List Call) : Bool :=
  match cs.reverse.findSome? (fun c => match c with | .includeReflection b => some b | _ => none) with
  | some b => b
  | none => true

def registrationsOf (cs : List Call) : Nat := (cs.filter (· = .register)).length
def namesOf (cs : List Call) : Nat := (cs.filter (· = .serviceName)).length

/-- The service names of the gRPC server reflection protocol (reflection.proto of grpc/grpc-proto):
the names under which the two services are reached, and which they declare. -/
def protocolNameV1 : Name := "grpc.reflection.v1.ServerReflection".toUTF8.toList
def protocolNameV1alpha : Name := "grpc.reflection.v1alpha.ServerReflection".toUTF8.toList

end Spec.Reflection
