import TonicModel.Basic.LimitProg
/-
Oracle for the C06 `lim.seq` cases, written from the property text, not from the code:

  "A received message is accepted iff its on-the-wire payload length is within the configured
   decoding limit (4 MiB by default); an oversized one is refused with OUT_OF_RANGE …  An outgoing
   message over the encoding limit ends the call with OUT_OF_RANGE instead of being sent, and every
   message produced before it is still delivered, in order, ahead of that status."

"Configured" is read off the program text: the limit in force at a call is the one the LAST
configuration statement before it asked for; a call, a clone, a compression setting or an
`apply_max_message_size_config(None, …)` asks for nothing.
-/
namespace Spec.LimitCfg
open LimitProg

/-- the decoding limit asked for last (`seen`: the statements so far, latest first) -/
def askedDec : List Op → Option Nat
  | [] => none
  | .setDec l :: _ => some l
  | .apply (some l) _ :: _ => some l
  | _ :: r => askedDec r

def askedEnc : List Op → Option Nat
  | [] => none
  | .setEnc l :: _ => some l
  | .apply _ (some l) :: _ => some l
  | _ :: r => askedEnc r

/-- over the decoding limit in force (4 MiB unless configured)? -/
def overDec (seen : List Op) (n : Nat) : Bool := decide (n > (askedDec seen).getD (4 * 1024 * 1024))

/-- over the encoding limit in force (none unless configured)? -/
def overEnc (seen : List Op) (n : Nat) : Bool :=
  match askedEnc seen with
  | some l => decide (n > l)
  | none => false

/-- A call seen from the server.  The request messages meet the decoding limit, the response
messages the encoding limit.  With a single-request shape the request is judged as a whole before
the handler runs; with a streaming request the handler receives exactly the messages in front of
the first oversized one.  The response delivers exactly the messages in front of the first
oversized one, then OUT_OF_RANGE. -/
def srvExpect (seen : List Op) (k : Call) : SrvObs :=
  match k.qs.findIdx? (overDec seen) with
  | some i => if k.shape.oneRequest then ⟨11, 0, 0, 0⟩ else ⟨11, 1, i, 0⟩
  | none =>
    let m := if k.shape.oneRequest then 1 else k.qs.length
    let answer := if k.shape.oneResponse then k.rs.take 1 else k.rs
    match answer.findIdx? (overEnc seen) with
    | some j => ⟨11, 1, m, j⟩
    | none => ⟨0, 1, m, answer.length⟩

/-- A call seen from the client.  The request messages meet the encoding limit (the transport
receives exactly those in front of the first oversized one, and the call fails OUT_OF_RANGE), the
response messages the decoding limit (a single-response call fails as a whole; a streaming
response delivers exactly the messages in front of the first oversized one, then OUT_OF_RANGE). -/
def cliExpect (seen : List Op) (k : Call) : CliObs :=
  let sent := if k.shape.oneRequest then k.qs.take 1 else k.qs
  match sent.findIdx? (overEnc seen) with
  | some i => ⟨i, 0, some 11⟩
  | none =>
    match k.rs.findIdx? (overDec seen) with
    | some j => if k.shape.oneResponse then ⟨sent.length, 0, some 11⟩ else ⟨sent.length, j, some 11⟩
    | none => ⟨sent.length, if k.shape.oneResponse then 1 else k.rs.length, none⟩

def runServer (seen : List Op) : List Stmt → List SrvObs
  | [] => []
  | .op o :: rest => runServer (o :: seen) rest
  | .call k :: rest => srvExpect seen k :: runServer seen rest

def runClient (seen : List Op) : List Stmt → List CliObs
  | [] => []
  | .op o :: rest => runClient (o :: seen) rest
  | .call k :: rest => cliExpect seen k :: runClient seen rest

end Spec.LimitCfg
