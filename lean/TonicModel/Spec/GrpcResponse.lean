import TonicModel.Basic.RespFrames
/-
The response oracle of C03: what the gRPC-over-HTTP/2 protocol document (and the property text)
demands of ANY response a gRPC server sends, whoever inside tonic produced it:

  Response         → (Response-Headers *Length-Prefixed-Message Trailers) / Trailers-Only
  Response-Headers → HTTP-Status [Message-Encoding] [Message-Accept-Encoding] Content-Type *Custom-Metadata
  Trailers-Only    → HTTP-Status Content-Type Trailers
  Trailers         → Status [Status-Message] *Custom-Metadata
  HTTP-Status      → ":status 200"
  Content-Type     → "content-type" "application/grpc" …
  Status           → "grpc-status" 1*DIGIT ; 0-9

Independent of `Model/`: it looks only at an observed status line, header map and the list of
results of polling the body to its end and beyond.
-/
namespace Spec.GrpcResponse
open HMapLite HttpLite

/-- an observed response: HTTP status, headers, and what polling the body (past its end) gave -/
structure Obs where
  status : Nat
  headers : Hdrs
  frames : List Fr
deriving Repr

/-- `grpc-status` value: a decimal gRPC code 0..16 without sign, blanks or leading zeros -/
def codeOk (v : Bytes) : Bool :=
  !v.isEmpty && v.all Ascii.isDigit && digitsVal v ≤ 16 &&
  (v.length == 1 || (v.length == 2 && v.head? != some 48))

/-- the header block carries exactly one `grpc-status`, and it is well-formed -/
def oneStatus (h : Hdrs) : Bool :=
  match getAll (str "grpc-status") h with
  | [v] => codeOk v.1
  | _ => false

def noStatus (h : Hdrs) : Bool := (getAll (str "grpc-status") h).isEmpty

def isEos : Fr → Bool
  | .eos => true
  | _ => false

/-- data frames, then exactly one trailers block carrying exactly one `grpc-status`, then the end
of the stream — reached, and nothing but the end on every later poll -/
def endsWithOneTrailers : List Fr → Bool
  | .data _ :: r => endsWithOneTrailers r
  | .trailers t :: r => oneStatus t && !r.isEmpty && r.all isEos
  | _ => false

/-- a body-less response: polling finds the end at once (and again on every later poll) -/
def bodyLess (fs : List Fr) : Bool := !fs.isEmpty && fs.all isEos

def contentTypeOk (h : Hdrs) : Bool :=
  match getAll (str "content-type") h with
  | [v] => v.1 == str "application/grpc"
  | _ => false

/-- the clauses, named; the first false one is the verdict -/
def clauses (o : Obs) : List (String × Bool) :=
  [("http-200", o.status == 200),
   ("content-type-application-grpc", contentTypeOk o.headers),
   ("exactly-one-grpc-status",
      if noStatus o.headers then endsWithOneTrailers o.frames
      else oneStatus o.headers && bodyLess o.frames)]

def conformant (o : Obs) : Bool := (clauses o).all (·.2)

/-- the grpc code a conformant response carries (headers of a trailers-only response, else the
trailers block) -/
def codeOf (o : Obs) : Option Nat :=
  match getAll (str "grpc-status") o.headers with
  | v :: _ => some (digitsVal v.1)
  | [] =>
    (o.frames.findSome? (fun f => match f with
      | .trailers t => some t
      | _ => none)).bind (fun t => ((getAll (str "grpc-status") t).head?).map (fun v => digitsVal v.1))

end Spec.GrpcResponse
