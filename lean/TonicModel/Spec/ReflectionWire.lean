import TonicModel.Basic.ReflDescriptor
/-
Oracle for "the answer is a descriptor that decodes to what was registered": a reader for the
protobuf wire format (encoding guide: varints, tag = field_number·8 + wire_type, wire type 2 =
length-delimited) and the schema of descriptor.proto restricted to the parts `Refl.File`
records.  Independent of `Model/ReflectionWire` (which writes) and of `Model/Reflection`.
Semantics as the protobuf language guide prescribes: unknown fields are skipped, the last
occurrence of an optional scalar wins, repeated fields keep their order.
Only length-delimited fields are read by this schema; scalar fields are skipped, groups rejected.
-/
namespace Spec.ReflWire
open Refl

def readVarint : Bytes → Option (Nat × Bytes)
  | [] => none
  | b :: rest =>
    if b.toNat < 128 then some (b.toNat, rest)
    else match readVarint rest with
      | some (v, r) => some (b.toNat - 128 + 128 * v, r)
      | none => none

/-- One field: `some (field number, payload)` for a length-delimited one, `none` for a scalar
(varint, fixed64, fixed32 — none is read by this schema, so it is skipped like an unknown
field), and the remaining bytes.  Groups (wire types 3, 4) and invalid types are rejected. -/
def readField (bs : Bytes) : Option (Option (Nat × Bytes) × Bytes) :=
  match readVarint bs with
  | none => none
  | some (tag, r) =>
    if tag % 8 = 2 then
      match readVarint r with
      | none => none
      | some (len, r2) =>
        if len ≤ r2.length then some (some (tag / 8, r2.take len), r2.drop len) else none
    else if tag % 8 = 0 then (readVarint r).map (fun x => (none, x.2))
    else if tag % 8 = 1 then (if 8 ≤ r.length then some (none, r.drop 8) else none)
    else if tag % 8 = 5 then (if 4 ≤ r.length then some (none, r.drop 4) else none)
    else none

/-- All length-delimited fields of a message body (`fuel` bounds the number of fields). -/
def parseFields : Nat → Bytes → Option (List (Nat × Bytes))
  | _, [] => some []
  | 0, _ :: _ => none
  | fuel + 1, b :: bs =>
    match readField (b :: bs) with
    | none => none
    | some (x, rest) =>
      match parseFields fuel rest with
      | none => none
      | some xs => some (match x with | some f => f :: xs | none => xs)

def parse (bs : Bytes) : Option (List (Nat × Bytes)) := parseFields bs.length bs

/-- optional scalar field `k`: last occurrence wins -/
def getOpt (k : Nat) (fs : List (Nat × Bytes)) : Option Bytes :=
  ((fs.filter (fun x => x.1 = k)).map (·.2)).getLast?

/-- repeated field `k`, in order -/
def getAll (k : Nat) (fs : List (Nat × Bytes)) : List Bytes :=
  (fs.filter (fun x => x.1 = k)).map (·.2)

def mapAll {α : Type} (dec : Bytes → Option α) : List Bytes → Option (List α)
  | [] => some []
  | b :: bs =>
    match dec b, mapAll dec bs with
    | some a, some as => some (a :: as)
    | _, _ => none

/-- a message of which only `name = 1` is read -/
def decNamed (bs : Bytes) : Option (Option Name) := (parse bs).map (getOpt 1)

def decEnum (bs : Bytes) : Option EnumD :=
  match parse bs with
  | none => none
  | some fs => (mapAll decNamed (getAll 2 fs)).map (fun vs => { name := getOpt 1 fs, values := vs })

/-- `DescriptorProto`; `fuel` = recursion limit (prost: 100). -/
def decMsg : Nat → Bytes → Option Msg
  | 0, _ => none
  | fuel + 1, bs =>
    match parse bs with
    | none => none
    | some fs =>
      match mapAll decNamed (getAll 2 fs), mapAll (decMsg fuel) (getAll 3 fs),
            mapAll decEnum (getAll 4 fs), mapAll decNamed (getAll 8 fs) with
      | some fields, some nested, some enums, some oneofs =>
        some (.mk (getOpt 1 fs) (MsgList.ofList nested) enums fields oneofs)
      | _, _, _, _ => none

def decService (bs : Bytes) : Option Service :=
  match parse bs with
  | none => none
  | some fs => (mapAll decNamed (getAll 2 fs)).map (fun ms => { name := getOpt 1 fs, methods := ms })

/-- `FileDescriptorProto` skeleton (nothing but names ⇒ `extra = 0`). -/
def decFile (fuel : Nat) (bs : Bytes) : Option File :=
  match parse bs with
  | none => none
  | some fs =>
    match mapAll (decMsg fuel) (getAll 4 fs), mapAll decEnum (getAll 5 fs),
          mapAll decService (getAll 6 fs) with
    | some msgs, some enums, some svcs =>
      some { name := getOpt 1 fs, package := getOpt 2 fs, messages := MsgList.ofList msgs,
             enums := enums, services := svcs, extra := 0 }
    | _, _, _ => none

mutual
/-- nesting depth, the recursion a reader needs -/
def Msg.depth : Msg → Nat
  | .mk _ nested _ _ _ => MsgList.depth nested + 1
def MsgList.depth : MsgList → Nat
  | .nil => 0
  | .cons m ms => max (Msg.depth m) (MsgList.depth ms)
end

end Spec.ReflWire
