import TonicModel.Basic.HealthTypes
/-
Oracle for C18, independent of `Model/Health`: it keeps no state except the log of past events
(newest first) and answers every query by scanning that log.  No channels, versions or tables.

Reading of the property text that the definitions below fix (DESIGN.md §4 C18):
* the status of a name is the one most recently set since it was last cleared; the empty name
  starts as SERVING; a name never set, or cleared since, has none (NOT_FOUND);
* a Watch on a name that has a status opens a stream; the stream belongs to that registration
  of the name: it ends at the first clear of the name after the subscription, and later
  re-registrations do not revive it;
* whenever a stream delivers a status, it is the latest status of its registration at that
  moment (so intermediate updates are coalesced and the first delivery is the status at
  subscription unless an update came in between); a stream that has not delivered anything
  yet, or whose registration was updated since its last delivery, has something to deliver;
  otherwise it waits while the name stays registered and ends once it is cleared.
-/
namespace Spec.Health
open _root_.Health

/-- Status of `n` after the history `h`: last `set` since the last `clear`; `""` ↦ SERVING at
the start. -/
def current : Hist → Name → Option St
  | [], n => if n = [] then some .serving else none
  | e :: h, n =>
    match e.1 with
    | .set m s => if m = n then some s else current h n
    | .clear m => if m = n then none else current h n
    | _ => current h n

/-- Number of Watch calls so far = the slot the next Watch call opens. -/
def numWatches : Hist → Nat
  | [] => 0
  | e :: h =>
    match e.1 with
    | .watch _ => numWatches h + 1
    | _ => numWatches h

/-- What the history says about stream `w`: its name, the status at subscription, and the
events since the subscription (newest first). -/
structure View where
  name : Name
  start : St
  evs : Hist
deriving DecidableEq, Repr

def View.push (v : View) (e : Ev) : View := { v with evs := e :: v.evs }

/-- `none`: slot `w` was never opened, was refused, or the stream has been dropped. -/
def view : Hist → Nat → Option View
  | [], _ => none
  | e :: h, w =>
    match e.1 with
    | .watch n =>
      if numWatches h = w then (current h n).map (fun s0 => ⟨n, s0, []⟩)
      else (view h w).map (·.push e)
    | .drop w' => if w' = w then none else (view h w).map (·.push e)
    | _ => (view h w).map (·.push e)

/-- The name was cleared at some point of `l`. -/
def closed (n : Name) (l : Hist) : Bool := l.any (fun e => decide (e.1 = Op.clear n))

/-- Event `e` is a delivery of a status on stream `w`. -/
def isReport (w : Nat) (e : Ev) : Bool :=
  match e.1, e.2 with
  | .next w', .value _ => decide (w' = w)
  | _, _ => false

def hasReported (w : Nat) (l : Hist) : Bool := l.any (isReport w)

/-- The status delivered most recently on stream `w`. -/
def lastReported (w : Nat) : Hist → Option St
  | [] => none
  | e :: l =>
    match e.1, e.2 with
    | .next w', .value s => if w' = w then some s else lastReported w l
    | _, _ => lastReported w l

/-- Latest status of the registration: the newest `set n` that is not preceded (in time) by a
`clear n`; the status at subscription if there is none. -/
def latest (n : Name) (s0 : St) : Hist → St
  | [] => s0
  | e :: l =>
    if closed n l then latest n s0 l
    else match e.1 with
      | .set m s => if m = n then s else latest n s0 l
      | _ => latest n s0 l

/-- Every status the registration has had since the subscription (newest first). -/
def statuses (n : Name) (s0 : St) : Hist → List St
  | [] => [s0]
  | e :: l =>
    if closed n l then statuses n s0 l
    else match e.1 with
      | .set m s => if m = n then s :: statuses n s0 l else statuses n s0 l
      | _ => statuses n s0 l

/-- The registration was updated after the last delivery on stream `w`. -/
def fresh (n : Name) (w : Nat) : Hist → Bool
  | [] => false
  | e :: l =>
    if isReport w e then false
    else match e.1 with
      | .set m _ => (decide (m = n) && !closed n l) || fresh n w l
      | _ => fresh n w l

/-- The reference answer of stream `w` to one poll. -/
def expectedNext (v : View) (w : Nat) : Resp :=
  if !hasReported w v.evs || fresh v.name w v.evs then .value (latest v.name v.start v.evs)
  else if closed v.name v.evs then .ended
  else .pending

/-- The reference answer to every operation. -/
def expected (h : Hist) : Op → Resp
  | .set _ _ => .done
  | .clear _ => .done
  | .check n => match current h n with
    | some s => .status s
    | none => .notFound
  | .watch n => if (current h n).isSome then .subscribed else .notFound
  | .next w => match view h w with
    | some v => expectedNext v w
    | none => .noWatcher
  | .drop w => if (view h w).isSome then .done else .noWatcher

/-- The reference interpreter: answers in order, logging its own answers. -/
def run (h : Hist) : List Op → List Resp
  | [] => []
  | op :: ops => expected h op :: run ((op, expected h op) :: h) ops

/-- The log after the reference interpreter has processed `ops`. -/
def log (h : Hist) : List Op → Hist
  | [] => h
  | op :: ops => log ((op, expected h op) :: h) ops

/-! ### The property's clauses as a decidable check of one observed answer

`allowed h op r`: answer `r` to `op` after the observed history `h` is acceptable.  This is
what the driver evaluates on the implementation's output.  It is deliberately a little weaker
than `expected` where the property text is: a stream may stay silent (or end, once cleared)
exactly when the last status it delivered *equals* the latest one, whether or not a `set` of
that same status happened in between. -/

/-- Nothing undelivered, value-wise. -/
def upToDate (v : View) (w : Nat) : Bool :=
  lastReported w v.evs = some (latest v.name v.start v.evs)

def clauses (h : Hist) (op : Op) (r : Resp) : List (String × Bool) :=
  match op with
  | .set _ _ => [("update-completes", r = .done)]
  | .clear _ => [("update-completes", r = .done)]
  | .check n => [("check-is-latest-status", r = (match current h n with
      | some s => Resp.status s
      | none => .notFound))]
  | .watch n => [("watch-accepted-iff-registered",
      r = (if (current h n).isSome then Resp.subscribed else .notFound))]
  | .drop w => [("drop", r = (if (view h w).isSome then Resp.done else .noWatcher))]
  | .next w =>
    match view h w with
    | none => [("no-such-stream", r = .noWatcher)]
    | some v =>
      let cl := closed v.name v.evs
      match r with
      | .value s =>
        [ ("watch-value-was-set", (statuses v.name v.start v.evs).contains s),
          ("watch-first-report-is-current", hasReported w v.evs || s = latest v.name v.start v.evs),
          ("watch-reports-latest", s = latest v.name v.start v.evs),
          ("clear-ends-streams", !(cl && hasReported w v.evs && !fresh v.name w v.evs)) ]
      | .pending =>
        [ ("watch-first-report-is-current", hasReported w v.evs),
          ("clear-ends-streams", !cl),
          ("watch-converges-to-latest", upToDate v w) ]
      | .ended =>
        [ ("watch-continues-while-registered", cl),
          ("clear-ends-after-unreported-status", upToDate v w) ]
      | _ => [("watch-stream-answer", false)]

def allowed (h : Hist) (op : Op) (r : Resp) : Bool :=
  (clauses h op r).all (·.2)

/-- The clauses as an acceptor of recorded answers (used on concurrent histories). -/
def accept (h : Hist) (op : Op) (r : Resp) : Option Hist :=
  if allowed h op r then some ((op, r) :: h) else none

/-- Every answer of a whole observed trace (oldest first) is acceptable given the answers
before it. -/
def allowedTrace (h : Hist) : List Ev → Bool
  | [] => true
  | (op, r) :: t => allowed h op r && allowedTrace ((op, r) :: h) t

/-! ### Histories with awaiting watchers

A watcher that sits in `message().await` is served by nobody's polling: "goes on to report its
latest status once updates stop" then means that the report reaches the waiting task by itself.
The check below runs over an observed history of `Item`s (`Basic/HealthTypes`): every answer is
judged by `clauses` exactly as in a polled history (an `await` that parks counts as the answer
"nothing to deliver", a completion of a parked task as the answer its poll gave), and after
every item each task that is still parked must be entitled to be: "nothing to deliver" must be
an acceptable answer of its stream at that moment (`mayStayParked`).  So a task parked on a
name whose status then changes, or which is cleared, has to complete — with an acceptable
answer — before the next item; re-setting the status it reported last need not wake it. -/

def firstFail (cs : List (String × Bool)) : Option String :=
  (cs.find? (fun c => !c.2)).map (·.1)

/-- A task awaiting stream `w` may stay parked. -/
def mayStayParked (h : Hist) (w : Nat) : Bool := allowed h (.next w) .pending

/-- Completions reported with an item: each is of a parked stream, delivers something, and what
it delivers is an acceptable answer of that stream at that point. -/
def checkWoken : Hist → List Nat → List (Nat × Resp) → Except String (Hist × List Nat)
  | h, pk, [] => .ok (h, pk)
  | h, pk, (w, r) :: rest =>
    if !pk.contains w then .error "completion-of-a-parked-watcher"
    else if r = .pending then .error "completion-delivers"
    else match firstFail (clauses h (.next w) r) with
      | some c => .error c
      | none => checkWoken ((.next w, r) :: h) (pk.filter (fun x => x != w)) rest

/-- The item's own answer. -/
def checkAnswer (h : Hist) (pk : List Nat) (it : Item) (a : Ans) : Except String (Hist × List Nat) :=
  match it, a with
  | .await w, .busy => if pk.contains w then .ok (h, pk) else .error "stream-held-by-awaiting-task"
  | .op (.next w), .busy => if pk.contains w then .ok (h, pk) else .error "stream-held-by-awaiting-task"
  | _, .busy => .error "stream-held-by-awaiting-task"
  | .await w, .parked =>
    if pk.contains w then .error "stream-held-by-awaiting-task"
    else match firstFail (clauses h (.next w) .pending) with
      | some c => .error c
      | none => .ok ((.next w, .pending) :: h, w :: pk)
  | .await w, .plain r =>
    if pk.contains w then .error "stream-held-by-awaiting-task"
    else if r = .pending then .error "await-parks-when-nothing-to-deliver"
    else match firstFail (clauses h (.next w) r) with
      | some c => .error c
      | none => .ok ((.next w, r) :: h, pk)
  | .op _, .parked => .error "answer-kind"
  | .op o, .plain r =>
    let held := match o with
      | .next w => pk.contains w
      | _ => false
    if held then .error "stream-held-by-awaiting-task"
    else match firstFail (clauses h o r) with
      | some c => .error c
      | none =>
        .ok ((o, r) :: h, match o with
          | .drop w => pk.filter (fun x => x != w)
          | _ => pk)

def checkItem (h : Hist) (pk : List Nat) (it : Item) (o : Out) : Except String (Hist × List Nat) :=
  match checkAnswer h pk it o.ans with
  | .error c => .error c
  | .ok (h1, pk1) =>
    match checkWoken h1 pk1 o.woken with
    | .error c => .error c
    | .ok (h2, pk2) =>
      if pk2.all (mayStayParked h2) then .ok (h2, pk2) else .error "parked-watcher-is-woken"

/-- First clause an observed history with awaiting watchers breaks (`none` = acceptable);
otherwise the log and the streams still held by parked tasks at the end. -/
def checkPark : Hist → List Nat → List (Item × Out) → Except String (Hist × List Nat)
  | h, pk, [] => .ok (h, pk)
  | h, pk, (it, o) :: t =>
    match checkItem h pk it o with
    | .error c => .error c
    | .ok (h', pk') => checkPark h' pk' t

end Spec.Health
