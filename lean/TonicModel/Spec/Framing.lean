import TonicModel.Basic.Bytes
/-
Independent oracle for the gRPC length-prefixed message format (PROTOCOL-HTTP2.md:
`Length-Prefixed-Message → Compressed-Flag Message-Length Message`), written as a naive *batch*
parser over a complete byte string. Shares nothing with `Model/Framing`.
-/
namespace Spec.Framing

/-- Big-endian value of four bytes. -/
def be32 (a b c d : UInt8) : Nat := ((a.toNat * 256 + b.toNat) * 256 + c.toNat) * 256 + d.toNat

/-- Split a byte string into its complete frames `(flag, payload)` and the unparsed rest. -/
def split (bs : Bytes) : List (UInt8 × Bytes) × Bytes :=
  match bs with
  | f :: a :: b :: c :: d :: rest =>
    if be32 a b c d ≤ rest.length then
      let r := split (rest.drop (be32 a b c d))
      ((f, rest.take (be32 a b c d)) :: r.1, r.2)
    else ([], bs)
  | _ => ([], bs)
termination_by bs.length
decreasing_by simp; omega

/-- A frame as the specification writes it. -/
def frame (flag : UInt8) (payload : Bytes) : Bytes :=
  flag :: ([UInt8.ofNat (payload.length / 16777216 % 256), UInt8.ofNat (payload.length / 65536 % 256),
            UInt8.ofNat (payload.length / 256 % 256), UInt8.ofNat (payload.length % 256)] ++ payload)

def frames : List (UInt8 × Bytes) → Bytes
  | [] => []
  | (f, p) :: r => frame f p ++ frames r

/-- A byte string is a well-formed message body: it splits into frames with nothing left over
and every flag is 0 or 1. -/
def wellFormed (bs : Bytes) : Bool :=
  (split bs).2.isEmpty && (split bs).1.all (fun fp => fp.1 == 0 || fp.1 == 1)

end Spec.Framing

/-! ### Reference batch decoder

What a receiver must make of a complete byte string, stated without any notion of chunks,
buffers or polling: messages in order until the input ends cleanly, ends inside a frame, or
hits a frame that has to be refused. -/
namespace Spec.Framing

inductive Bad | flag | noEncoding | tooLarge | decompress | codec
deriving DecidableEq, Repr

inductive Stop | clean | incomplete | bad (b : Bad)
deriving DecidableEq, Repr

/-- Receiver parameters: size limit, whether an encoding was negotiated, the decompressor and
the message decoder. -/
structure Recv (α : Type) where
  limit : Nat
  hasEnc : Bool
  dz : Bytes → Option Bytes
  de : Bytes → Option α

/-- Judge a header: refused, or accepted as (compressed?) -/
def header (p : Recv α) (flag : UInt8) (len : Nat) : Except Bad Bool :=
  if flag = 0 then (if len > p.limit then .error .tooLarge else .ok false)
  else if flag = 1 then
    (if p.hasEnc then (if len > p.limit then .error .tooLarge else .ok true) else .error .noEncoding)
  else .error .flag

/-- Judge a payload of declared length `len` at the front of `bs`. -/
def payload (p : Recv α) (len : Nat) (compressed : Bool) (bs : Bytes) : Except Stop α :=
  if bs.length < len then .error .incomplete
  else
    match (if compressed then p.dz (bs.take len) else some (bs.take len)) with
    | none => .error (.bad .decompress)
    | some raw =>
      match p.de raw with
      | none => .error (.bad .codec)
      | some m => .ok m

def batch (p : Recv α) (bs : Bytes) : List α × Stop :=
  match bs with
  | [] => ([], .clean)
  | f :: a :: b :: c :: d :: rest =>
    match header p f (be32 a b c d) with
    | .error e => ([], .bad e)
    | .ok comp =>
      match payload p (be32 a b c d) comp rest with
      | .error stop => ([], stop)
      | .ok m =>
        let r := batch p (rest.drop (be32 a b c d))
        (m :: r.1, r.2)
  | _ => ([], .incomplete)
termination_by bs.length
decreasing_by simp; omega

/-- The same, entered after a header `(len, compressed)` has already been accepted. -/
def batchBody (p : Recv α) (len : Nat) (compressed : Bool) (bs : Bytes) : List α × Stop :=
  match payload p len compressed bs with
  | .error stop => ([], stop)
  | .ok m =>
    let r := batch p (bs.drop len)
    (m :: r.1, r.2)

/-- What a receiver is left holding of an unfinished frame when the input ends: the bytes of a
partial header, or the payload bytes received so far of a frame whose header was accepted
(`[]` when the input ends between frames, right after an accepted header, or at a refused frame). -/
def held (p : Recv α) (bs : Bytes) : Bytes :=
  match bs with
  | [] => []
  | f :: a :: b :: c :: d :: rest =>
    match header p f (be32 a b c d) with
    | .error _ => []
    | .ok comp =>
      match payload p (be32 a b c d) comp rest with
      | .error .incomplete => rest
      | .error _ => []
      | .ok _ => held p (rest.drop (be32 a b c d))
  | _ => bs
termination_by bs.length
decreasing_by simp; omega

/-- The same, entered after a header `(len, compressed)` has already been accepted. -/
def heldBody (p : Recv α) (len : Nat) (compressed : Bool) (bs : Bytes) : Bytes :=
  match payload p len compressed bs with
  | .error .incomplete => bs
  | .error _ => []
  | .ok _ => held p (bs.drop len)

end Spec.Framing
