import TonicModel.Basic.Bytes
/-
Oracle for C09, written from gRPC's PROTOCOL-HTTP2.md, independent of `Model/Timeout`:
  Timeout      → "grpc-timeout" TimeoutValue TimeoutUnit
  TimeoutValue → {positive integer as ASCII string of at most 8 digits}
  TimeoutUnit  → "H" / "M" / "S" / "m" / "u" / "n"
-/
namespace Spec.Timeout

def unitNanos (b : UInt8) : Option Nat :=
  if b = 'H'.toNat.toUInt8 then some (3600 * 1000000000)
  else if b = 'M'.toNat.toUInt8 then some (60 * 1000000000)
  else if b = 'S'.toNat.toUInt8 then some 1000000000
  else if b = 'm'.toNat.toUInt8 then some 1000000
  else if b = 'u'.toNat.toUInt8 then some 1000
  else if b = 'n'.toNat.toUInt8 then some 1
  else none

/-- The duration (ns) a spec-conformant header value denotes; `none` = not spec-conformant. -/
def denote (v : Bytes) : Option Nat :=
  match v.getLast? with
  | none => none
  | some ub =>
    let ds := v.dropLast
    if 1 ≤ ds.length ∧ ds.length ≤ 8 ∧ ds.all Ascii.isDigit = true then
      (unitNanos ub).map (fun k => digitsVal ds * k)
    else none

/-- Largest duration the property quantifies over: 99 999 999 hours (+ anything below the next hour). -/
def maxDuration : Nat := 100000000 * 3600 * 1000000000 - 1

end Spec.Timeout
