import TonicModel.Basic.Bytes
/-
Oracle for C09, written from gRPC's PROTOCOL-HTTP2.md, independent of `Model/Timeout`:
  Timeout      → "grpc-timeout" TimeoutValue TimeoutUnit
  TimeoutValue → {positive integer as ASCII string of at most 8 digits}
  TimeoutUnit  → "H" / "M" / "S" / "m" / "u" / "n"
-/
namespace Spec.Timeout

def unitNanos (b : UInt8) : Option Nat :=
  if b = 'H'.toNat.toUInt8 then some (3600 * 1000000000)
  else if b = 'M'.toNat.toUInt8 then some (60 * 1000000000)
  else if b = 'S'.toNat.toUInt8 then some 1000000000
  else if b = 'm'.toNat.toUInt8 then some 1000000
  else if b = 'u'.toNat.toUInt8 then some 1000
  else if b = 'n'.toNat.toUInt8 then some 1
  else none

/-- The duration (ns) a spec-conformant header value denotes; `none` = not spec-conformant. -/
def denote (v : Bytes) : Option Nat :=
  match v.getLast? with
  | none => none
  | some ub =>
    let ds := v.dropLast
    if 1 ≤ ds.length ∧ ds.length ≤ 8 ∧ ds.all Ascii.isDigit = true then
      (unitNanos ub).map (fun k => digitsVal ds * k)
    else none

/-- Largest duration the property quantifies over: 99 999 999 hours (+ anything below the next hour). -/
def maxDuration : Nat := 100000000 * 3600 * 1000000000 - 1

/-! ### Deadline enforcement (last sentence of the property), stated without the model

"A call is cut off with a CANCELLED 'Timeout expired' status once the shorter of the caller's
grpc-timeout and the locally configured timeout has elapsed, and is unaffected if it finishes
before that." -/

/-- The shortest of the deadlines that are present (naive fold). -/
def shortest : List (Option Nat) → Option Nat
  | [] => none
  | none :: ds => shortest ds
  | some d :: ds =>
    match shortest ds with
    | none => some d
    | some m => some (if d ≤ m then d else m)

/-- What the caller must observe, and when (virtual ns after the call started). -/
inductive Expect
  | finishes (t : Nat)    -- the call's own result, at the time the peer finished it
  | cancelled (t : Nat)   -- CANCELLED "Timeout expired" at `t`
  | pending               -- nothing (no deadline and the peer never finishes)
deriving DecidableEq, Repr

/-- With the shortest deadline `m` in hand. -/
def expected' (m finish : Option Nat) : Expect :=
  match m, finish with
  | none, none => .pending
  | none, some l => .finishes l
  | some m, none => .cancelled m
  | some m, some l => if m < l then .cancelled m else .finishes l

/-- `deadlines`: every deadline in force where the observation is made; `finish`: when the call
would finish if left alone (`none` = never). -/
def expected (deadlines : List (Option Nat)) (finish : Option Nat) : Expect :=
  expected' (shortest deadlines) finish

/-! ### Several calls on one channel / one connection

The property speaks of "a call", its caller's grpc-timeout and "the locally configured timeout":
nothing another call said is a deadline of this one.  So every call of a sequence — issued after
others, or while others are still running — must be observed exactly as if it were alone on a
fresh channel with the same configuration. -/

/-- `calls`: per call, the caller's deadline and when the call would finish if left alone;
times count from each call's own dispatch. -/
def expectedEach (configured : Option Nat) (calls : List (Option Nat × Option Nat)) : List Expect :=
  calls.map fun c => expected [c.1, configured] c.2

/-! ### A caller that looks late

The deadline counts from the moment the call was DISPATCHED ("once the shorter of … has elapsed"),
not from the moment the caller first looks at its response future.  A caller that dispatches at
time 0 and first looks at time `b` can only observe anything from `b` on, so "when" is never
before `b`:

* the call finishes by its deadline (`l ≤ m`, or no deadline): it is unaffected — the caller gets
  the call's own result, at the later of `l` and `b`;
* the call is still running when the deadline has passed AND the caller is looking
  (`l > max m b`, or it never finishes): CANCELLED "Timeout expired", at the later of `m` and `b`
  — in particular NOT at `b + m`;
* the call finished after its deadline but before the caller looked (`m < l ≤ b`): nobody was
  polling when the deadline passed, and by the time somebody looks both the result and the expired
  deadline are there.  The caller cannot tell whether the cut-off happened "in time", and the
  property does not say which of the two wins: EITHER outcome is acceptable, at `b`. -/

/-- The later of two instants (naive). -/
def later (a b : Nat) : Nat := if a ≤ b then b else a

/-- The acceptable observations, with the shortest deadline `m` in hand; `b` = when the caller
first polls. -/
def lateExpected' (m finish : Option Nat) (b : Nat) : List Expect :=
  match m, finish with
  | none, none => [.pending]
  | none, some l => [.finishes (later l b)]
  | some m, none => [.cancelled (later m b)]
  | some m, some l =>
    if l ≤ m then [.finishes (later l b)]
    else if later m b < l then [.cancelled (later m b)]
    else [.finishes b, .cancelled b]

def lateExpected (deadlines : List (Option Nat)) (finish : Option Nat) (b : Nat) : List Expect :=
  lateExpected' (shortest deadlines) finish b

/-- The status the property names: CANCELLED (code 1 in gRPC's statuscodes.md), "Timeout expired". -/
def cancelledCode : Nat := 1
def expiredText : Bytes := "Timeout expired".toUTF8.toList

/-- Unit sizes in ns, most precise first (PROTOCOL-HTTP2.md: n, u, m, S, M, H). -/
def unitSizes : List Nat := [1, 1000, 1000000, 1000000000, 60 * 1000000000, 3600 * 1000000000]

/-- The most precise unit in which `d` needs at most 8 digits (first sentence of the property). -/
def chosenUnit (d : Nat) : Option Nat := unitSizes.find? (fun k => d / k ≤ 99999999)

/-- The deadline a caller's timeout `d` amounts to once written as a conformant value in the most
precise unit that holds it: `d` rounded down to that unit.  (Never longer than requested, less
than one unit lost.) -/
def onWire (d : Nat) : Option Nat := (chosenUnit d).map (fun k => d / k * k)

/-- "The locally configured timeout" after a sequence of builder calls: what the most recent
`.timeout(..)` call said (`some t` = a `.timeout(t)` call, `none` = any other builder call). -/
def lastSet : List (Option Nat) → Option Nat
  | [] => none
  | x :: xs =>
    match lastSet xs with
    | some t => some t
    | none => x

/-! ### What the caller has in hand (audit aC09)

"… is cut off with a CANCELLED 'Timeout expired' status once … has elapsed, and is unaffected if it
finishes before that": whatever the call itself reports — OK or an error status of its own — is its
result; the deadline machinery may replace it by CANCELLED 'Timeout expired' only when the deadline
passed first. -/

/-- `own` = the status (code, message) the call itself ends with; `(code, message, time)`. -/
def report (own : Nat × Bytes) : Expect → Option (Nat × Bytes × Nat)
  | .finishes t => some (own.1, own.2, t)
  | .cancelled t => some (cancelledCode, expiredText, t)
  | .pending => none

/-- One server, several connections: "the locally configured timeout" is the server's, on every
connection it accepts; each request is judged alone. -/
def expectedConns (configured : Option Nat) (conns : List (List (Option Nat × Option Nat))) :
    List (List Expect) :=
  conns.map (expectedEach configured)

/-! ### A second reading of the header value that shares no number reader with the model

`denote` above uses `digitsVal` and `Ascii.isDigit` (Basic/Bytes.lean), which the model's
`parseValue` uses too, so in `tryParse = denote` the value part is compared with itself (Lean review
round 4, lr5-6).  `denotePositional` reads the digits by a table and weighs them by powers of ten —
"{positive integer as ASCII string of at most 8 digits}" as school arithmetic — and mentions neither
`digitsVal` nor `Ascii.isDigit`. -/

/-- The value of one ASCII digit, by table; `none` for every other byte. -/
def digitOf (b : UInt8) : Option Nat :=
  if b.toNat = 48 then some 0 else if b.toNat = 49 then some 1 else if b.toNat = 50 then some 2
  else if b.toNat = 51 then some 3 else if b.toNat = 52 then some 4 else if b.toNat = 53 then some 5
  else if b.toNat = 54 then some 6 else if b.toNat = 55 then some 7 else if b.toNat = 56 then some 8
  else if b.toNat = 57 then some 9 else none

/-- A digit string read most significant digit first: `Σ dᵢ · 10^(n-1-i)`; `none` if some byte is
not a digit. -/
def positional : Bytes → Option Nat
  | [] => some 0
  | b :: bs =>
    match digitOf b, positional bs with
    | some d, some r => some (d * 10 ^ bs.length + r)
    | _, _ => none

/-- The duration (ns) a spec-conformant header value denotes, read positionally. -/
def denotePositional (v : Bytes) : Option Nat :=
  match v.getLast? with
  | none => none
  | some ub =>
    let ds := v.dropLast
    if 1 ≤ ds.length ∧ ds.length ≤ 8 then
      match positional ds, unitNanos ub with
      | some x, some k => some (x * k)
      | _, _ => none
    else none

end Spec.Timeout
