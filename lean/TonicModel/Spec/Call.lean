import TonicModel.Basic.HMap
/-
Oracle for C02, written from the property text alone (no import of any model):

  "the client API yields the same messages in order and then the same outcome: success only if
   the handler succeeded, otherwise an error carrying the handler's code, message and details and
   every metadata entry the handler attached.  Symmetrically the handler receives exactly the
   request messages and metadata the caller sent."

A call is described abstractly by what the application did on each side (`Did`, `Sent`) and by
what the other side's application was given (`Saw`, `Got`); the predicates below say when the
latter is faithful to the former.  Metadata is compared per name ("every entry that was attached
is there, under its name, with its values in order"); names reserved by the protocol are not
custom metadata and are excluded (tonic strips them by design — C08's subject).
-/
namespace Spec.Call

/-- names that are not custom metadata: the six the protocol reserves, and the header that
carries a status' details -/
def protocolNames : List Bytes :=
  [HMap.name "te", HMap.name "user-agent", HMap.name "content-type", HMap.name "grpc-status",
   HMap.name "grpc-message", HMap.name "grpc-message-type", HMap.name "grpc-status-details-bin"]

/-- every custom entry of `attached` is in `got` under its name, with its values in order -/
def carried (attached got : HMap) : Bool :=
  (HMap.keys attached).all (fun k => protocolNames.contains k || HMap.getAll k got == HMap.getAll k attached)

/-- `got` holds exactly the custom entries of `attached`: every name of either map (protocol
names apart) has the same values, in the same order, in both — nothing lost, nothing foreign -/
def exactly (attached got : HMap) : Bool :=
  (HMap.keys attached ++ HMap.keys got).all
    (fun k => protocolNames.contains k || HMap.getAll k got == HMap.getAll k attached)

structure St where
  code : Nat
  message : Bytes
  details : Bytes
  metadata : HMap
deriving Repr

/-- the error the client reports carries the handler's code, message, details, and metadata -/
def sameStatus (want got : St) : Bool :=
  got.code == want.code && got.message == want.message && got.details == want.details &&
    carried want.metadata got.metadata

/-- What a handler did: failed at once, or returned metadata and then a sequence of messages
that ended normally (`final = none`) or with an error. -/
inductive Did (α : Type)
  | failed (st : St)
  | responded (md : HMap) (msgs : List α) (final : Option St)

/-- What the client API gave its caller. -/
inductive Saw (α : Type)
  | failed (st : St)                                               -- `Err(status)`
  | single (md : HMap) (m : α)                                     -- `Ok(Response<M>)`
  | stream (md : HMap) (msgs : List α) (ended : Option St)        -- `Ok(Response<Streaming<M>>)`, read to its end
  | other                                                          -- hang, panic

/-- **Response direction.**  `streaming` = the call shape has a response stream. -/
def clientOk [BEq α] (streaming : Bool) : Did α → Saw α → Bool
  | .failed want, .failed got => want.code != 0 && sameStatus want got
  | .responded md msgs final, .stream md' msgs' ended =>
    streaming && msgs' == msgs && carried md md' &&
      (match final, ended with
       | none, none => true                                         -- success iff the handler succeeded
       | some want, some got => want.code != 0 && sameStatus want got
       | _, _ => false)
  | .responded md [m] none, .single md' m' => !streaming && m' == m && carried md md'
  | _, _ => false

/-- **Response direction, single-response client facing a handler that streams** (the wire shape any gRPC
server may produce for a unary call that fails after it has produced output: HEADERS, messages, then an
error status in the TRAILERS).  The caller must be given that error - code, message, details, and every
metadata entry of the status; when NO message preceded it the client merges the response headers into the
status (names the headers also carry are C08's subject and left out here). -/
def clientOkMixed : Did α → Saw α → Bool
  | .responded md msgs (some want), .failed got =>
    want.code != 0 && got.code == want.code && got.message == want.message && got.details == want.details &&
      (HMap.keys want.metadata).all (fun k =>
        protocolNames.contains k || (msgs.isEmpty && !(HMap.getAll k md).isEmpty) ||
          HMap.getAll k got.metadata == HMap.getAll k want.metadata)
  | _, _ => false

/-- What the caller sent. -/
structure Sent (α : Type) where
  md : HMap
  msgs : List α

/-- What the handler was given: one message (unary-request shapes), or a stream of which it read
`msgs` and then saw: `none` = it did not ask further, `some true` = the clean end of the
stream, `some false` = an error. -/
inductive Got (α : Type)
  | notCalled
  | unary (md : HMap) (m : α)
  | stream (md : HMap) (msgs : List α) (ended : Option Bool)

/-- **Request direction** ("the handler receives EXACTLY the request messages and metadata the
caller sent": `exactly`, not merely `carried`).  `reads` = how many times a streaming handler asked
for a message. -/
def handlerOk [BEq α] (streaming : Bool) (reads : Nat) (s : Sent α) : Got α → Bool
  | .unary md m => !streaming && s.msgs == [m] && exactly s.md md
  | .stream md msgs ended =>
    streaming && exactly s.md md && msgs == s.msgs.take reads &&
      ended == (if reads ≤ s.msgs.length then none else some true)
  | .notCalled => false

end Spec.Call
