// private reviewer probe (rev2): shows the real behaviour behind a few findings
use bytes::Bytes;
use http::{HeaderMap, StatusCode};
use http_body::Frame;
use tonic::codec::{DecodeBuf, Decoder, Streaming};
use tonic::metadata::{AsciiMetadataKey, BinaryMetadataValue, MetadataMap, MetadataValue, Binary, KeyAndValueRef};
use tonic::{Code, Status};
use bytes::Buf;

struct RawDecoder;
impl Decoder for RawDecoder {
    type Item = Vec<u8>;
    type Error = Status;
    fn decode(&mut self, src: &mut DecodeBuf<'_>) -> Result<Option<Vec<u8>>, Status> {
        let n = src.remaining();
        Ok(Some(src.copy_to_bytes(n).to_vec()))
    }
}

fn http_with_body(status: u16, body: &'static [u8]) {
    let items: Vec<Result<Frame<Bytes>, Status>> = if body.is_empty() { vec![] } else { vec![Ok(Frame::data(Bytes::from_static(body)))] };
    let b = http_body_util::StreamBody::new(tokio_stream::iter(items));
    let mut s: Streaming<Vec<u8>> = Streaming::new_response(RawDecoder, b, StatusCode::from_u16(status).unwrap(), None, None);
    let rt = tokio::runtime::Builder::new_current_thread().build().unwrap();
    let r = rt.block_on(async move { s.message().await });
    match r {
        Ok(m) => println!("http {} body {:?}: Ok({:?})", status, String::from_utf8_lossy(body), m),
        Err(st) => println!("http {} body {:?}: Err(code={:?}, message={:?})", status, String::from_utf8_lossy(body), st.code(), st.message()),
    }
}

fn main() {
    let which = std::env::args().nth(1).unwrap_or_default();
    match which.as_str() {
        "http" => {
            for (st, body) in [(503u16, &b""[..]), (503, &b"<html><body>503 Service Unavailable</body></html>"[..]), (404, &b"Not Found"[..]), (502, &b"Bad Gateway\n"[..]), (401, &b"\0\0\0\0\x0cunauthorized"[..]), (429, &b"slow"[..])] {
                http_with_body(st, body);
            }
        }
        "shared" => {
            let raw = vec![0xffu8, 0xfe, 0x00];
            let a = MetadataValue::<Binary>::from_bytes(&raw);
            let b = BinaryMetadataValue::try_from(raw.clone()).unwrap();
            let c = BinaryMetadataValue::try_from(Bytes::from(raw.clone())).unwrap();
            println!("from_bytes -> wire {:?}", String::from_utf8_lossy(a.as_encoded_bytes()));
            println!("try_from(Vec<u8>) -> wire {:?} to_bytes {:?}", b.as_encoded_bytes(), b.to_bytes());
            println!("try_from(Bytes) -> wire {:?} to_bytes {:?}", c.as_encoded_bytes(), c.to_bytes());
        }
        "keystatic" => {
            let k = AsciiMetadataKey::from_static("hello-bin");
            let mut m = MetadataMap::new();
            m.insert(k, "not base64!".parse().unwrap());
            for kv in m.iter() {
                match kv {
                    KeyAndValueRef::Ascii(k, v) => println!("iter: Ascii {} {:?}", k, v),
                    KeyAndValueRef::Binary(k, v) => println!("iter: Binary {} to_bytes={:?}", k, v.to_bytes()),
                }
            }
        }
        "longmsg" => {
            for n in [100usize, 3000, 40000] {
                let st = Status::new(Code::Internal, "m".repeat(n));
                let mut h = HeaderMap::new();
                st.add_header(&mut h).unwrap();
                let back = Status::from_header_map(&h).unwrap();
                println!("message len {} -> read back len {}", n, back.message().len());
            }
        }
        "entry" => {
            use tonic::metadata::Entry;
            let mut map = MetadataMap::new();
            if let Entry::Vacant(v) = map.entry_bin("x-bin").unwrap() {
                let mut e = v.insert_entry(MetadataValue::<Binary>::from_bytes(&[0u8, 1, 2]));
                // `e` is an OccupiedEntry<'_, Ascii>: the binary entry is presented as ASCII
                let as_ascii: &MetadataValue<tonic::metadata::Ascii> = e.get();
                let k: &tonic::metadata::MetadataKey<tonic::metadata::Ascii> = e.key();
                println!("insert_entry on entry_bin: key typed Ascii = {:?}, value typed Ascii = {:?} (to_str {:?})", k, as_ascii, as_ascii.to_str());
                e.append("not base64!".parse().unwrap());
            }
            for kv in map.iter() {
                match kv {
                    KeyAndValueRef::Ascii(k, v) => println!("iter: Ascii {} {:?}", k, v),
                    KeyAndValueRef::Binary(k, v) => println!("iter: Binary {} wire={:?} to_bytes={:?}", k, String::from_utf8_lossy(v.as_encoded_bytes()), v.to_bytes()),
                }
            }
        }
        _ => eprintln!("usage: probe http|shared|keystatic|longmsg"),
    }
}
