#!/bin/sh
# Build everything from files on disk only (offline).
set -e
cd "$(dirname "$0")"
export CARGO_NET_OFFLINE=true
(cd lean && lake build TonicModel driver </dev/null)
# /repo/Cargo.lock is untracked there; the committed harness/Cargo.lock is the fallback
[ -f ../repo/Cargo.lock ] && cp -f ../repo/Cargo.lock harness/Cargo.lock
(cd harness && cargo build --offline </dev/null)
for d in $(python3 -c "import json,glob;print(' '.join(sorted({c for f in glob.glob('props.d/*.json') for c in json.load(open(f)).get('extra_crates',[])})))"); do
  if [ -f ../repo/Cargo.lock ]; then cp -f ../repo/Cargo.lock $d/Cargo.lock; else cp -f harness/Cargo.lock $d/Cargo.lock; fi
  (cd $d && cargo build --offline </dev/null)
done
