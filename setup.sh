#!/bin/sh
# Build everything from files on disk only (offline).
set -e
cd "$(dirname "$0")"
export CARGO_NET_OFFLINE=true
(cd lean && lake build TonicModel driver)
cp -f ../repo/Cargo.lock harness/Cargo.lock
(cd harness && cargo build --offline)
for d in $(python3 -c "import json,glob;print(' '.join(sorted({c for f in glob.glob('props.d/*.json') for c in json.load(open(f)).get('extra_crates',[])})))"); do
  cp -f ../repo/Cargo.lock $d/Cargo.lock
  (cd $d && cargo build --offline)
done
