#!/bin/sh
# Build everything from files on disk only (offline).
set -e
cd "$(dirname "$0")"
export CARGO_NET_OFFLINE=true
(cd lean && lake build TonicModel driver)
cp -f ../repo/Cargo.lock harness/Cargo.lock
(cd harness && cargo build --offline)
