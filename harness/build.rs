//! Build-time pool of generated services for C10 / C11.
//!
//! Every entry of `POOL` is run through the real generator (`tonic_build::manual`, i.e.
//! `CodeGenBuilder::generate_server` / `generate_client` + prettyplease) and the result is
//! compiled into the harness.  The names are chosen for prefix / case / package collisions.
//! Next to the generated code this script writes `c10_pool.rs`: one module per service, a handler
//! implementation of every generated server trait (records which method ran), the declared pool
//! table (package, name, methods — what the *user* declared, independent of what the generator
//! made of it), and dispatch helpers indexed by pool position.
use std::fmt::Write as _;
use std::path::PathBuf;

/// (rust package, service name, [(route name, kind)]) ; kind 0 unary, 1 server-streaming,
/// 2 client-streaming, 3 bidi.  The Rust method name of method j is `m<j>`.
/// The first `N_EMIT` entries are generated with `emit_package(true)` (through
/// `manual::Builder`), the rest with `emit_package(false)` (through `CodeGenBuilder` directly;
/// `manual::Builder` has no such switch): their Service-Name is the bare service name.
const N_EMIT: usize = 14;
const POOL: &[(&str, &str, &[(&str, u8)])] = &[
    ("a", "S", &[("M", 0), ("Mx", 0), ("m", 0), ("N", 1), ("CS", 2), ("BD", 3)]),
    ("a", "Sv", &[("M", 0), ("Mx", 1)]),
    ("a.S", "x", &[("M", 0)]),
    ("", "S", &[("M", 0), ("Get", 0)]),
    ("", "s", &[("M", 0), ("m", 2)]),
    ("a", "s", &[("M", 0)]),
    ("A", "S", &[("M", 0)]),
    ("", "a", &[("S", 0), ("M", 0)]),
    ("a.b", "Svc", &[("Do", 0), ("DoIt", 3), ("Do2", 0)]),
    ("a", "b", &[("Svc", 0)]),
    ("grpc.health.v1", "Health", &[("Check", 0), ("Watch", 1)]),
    ("", "S_1", &[("M_1", 0), ("M", 0)]),
    ("a", "S1", &[("M", 0), ("M1", 0)]),
    ("a.S", "M", &[("M", 0)]),
    ("pk", "E", &[("M", 0), ("N", 1), ("CS", 2), ("BD", 3)]),
    ("a.b", "Svc2", &[("Do", 0), ("M", 1)]),
    ("", "F", &[("M", 0)]),
];

/// copy of tonic-build's private `naive_snake_case` (module names of the generated code)
fn naive_snake_case(name: &str) -> String {
    let mut s = String::new();
    let mut it = name.chars().peekable();
    while let Some(x) = it.next() {
        s.push(x.to_ascii_lowercase());
        if let Some(y) = it.peek() {
            if y.is_uppercase() {
                s.push('_');
            }
        }
    }
    s
}

fn main() {
    println!("cargo:rerun-if-changed=build.rs");
    let out = PathBuf::from(std::env::var("OUT_DIR").unwrap());
    let mut pool = String::new();
    let ty = "crate::c10::pool";
    for (i, (pkg, name, methods)) in POOL.iter().enumerate() {
        let mut sb = tonic_build::manual::Service::builder().name(name).package(pkg);
        for (j, (route, kind)) in methods.iter().enumerate() {
            let mut mb = tonic_build::manual::Method::builder()
                .name(format!("m{j}"))
                .route_name(route)
                .input_type(format!("{ty}::Req"))
                .output_type(format!("{ty}::Resp"))
                .codec_path("tonic::codec::ProstCodec");
            if *kind == 2 || *kind == 3 {
                mb = mb.client_streaming();
            }
            if *kind == 1 || *kind == 3 {
                mb = mb.server_streaming();
            }
            sb = sb.method(mb.build());
        }
        let dir = out.join(format!("p{i}"));
        std::fs::create_dir_all(&dir).unwrap();
        let file = dir.join(format!("{pkg}.{name}.rs"));
        if i < N_EMIT {
            tonic_build::manual::Builder::new().out_dir(&dir).compile(&[sb.build()]);
        } else {
            let svc = sb.build();
            let mut b = tonic_build::CodeGenBuilder::new();
            b.emit_package(false);
            let code = format!("{}\n{}\n", b.generate_client(&svc, "super"), b.generate_server(&svc, "super"));
            std::fs::write(&file, code).unwrap();
        }
        writeln!(pool, "#[allow(non_camel_case_types, non_snake_case, unused_qualifications)]\npub mod p{i} {{ include!({:?}); }}", file.to_str().unwrap()).unwrap();

        // handler implementation of the generated trait
        let sn = naive_snake_case(name);
        writeln!(pool, "#[tonic::async_trait]\nimpl p{i}::{sn}_server::{name} for {ty}::Handler {{").unwrap();
        for (j, (route, kind)) in methods.iter().enumerate() {
            match kind {
                0 => writeln!(pool, "  async fn m{j}(&self, r: tonic::Request<{ty}::Req>) -> Result<tonic::Response<{ty}::Resp>, tonic::Status> {{ self.unary({i}, {j}, r) }}").unwrap(),
                1 => writeln!(pool, "  type {route}Stream = {ty}::OutStream;\n  async fn m{j}(&self, r: tonic::Request<{ty}::Req>) -> Result<tonic::Response<Self::{route}Stream>, tonic::Status> {{ self.server_streaming({i}, {j}, r) }}").unwrap(),
                2 => writeln!(pool, "  async fn m{j}(&self, r: tonic::Request<tonic::Streaming<{ty}::Req>>) -> Result<tonic::Response<{ty}::Resp>, tonic::Status> {{ self.client_streaming({i}, {j}, r).await }}").unwrap(),
                _ => writeln!(pool, "  type {route}Stream = {ty}::OutStream;\n  async fn m{j}(&self, r: tonic::Request<tonic::Streaming<{ty}::Req>>) -> Result<tonic::Response<Self::{route}Stream>, tonic::Status> {{ self.streaming({i}, {j}, r).await }}").unwrap(),
            }
        }
        writeln!(pool, "}}").unwrap();
    }
    // declared table
    writeln!(pool, "pub const POOL: &[(&str, &str, &[(&str, u8)])] = &[").unwrap();
    for (pkg, name, methods) in POOL {
        writeln!(pool, "  ({pkg:?}, {name:?}, &{methods:?}),").unwrap();
    }
    writeln!(pool, "];").unwrap();
    writeln!(pool, "/// generated with emit_package(true)?\npub const POOL_EMIT: &[bool] = &{:?};", (0..POOL.len()).map(|i| i < N_EMIT).collect::<Vec<_>>()).unwrap();
    // one request straight into the generated server (no router in front)
    writeln!(pool, "pub async fn direct_call(i: usize, h: {ty}::Handler, req: http::Request<tonic::body::Body>) -> http::Response<tonic::body::Body> {{\n use tower_service::Service as _;\n match i {{").unwrap();
    for (i, (_, name, _)) in POOL.iter().enumerate() {
        let sn = naive_snake_case(name);
        writeln!(pool, "  {i} => p{i}::{sn}_server::{name}Server::new(h).call(req).await.unwrap(),").unwrap();
    }
    writeln!(pool, "  _ => panic!(\"pool index\") }} }}").unwrap();
    // a concrete service type for `add_optional_service(None)`
    {
        let (_, name, _) = POOL[0];
        let sn = naive_snake_case(name);
        writeln!(pool, "pub type AnyServer = p0::{sn}_server::{name}Server<{ty}::Handler>;").unwrap();
    }
    // the NAME the generated server advertises
    writeln!(pool, "pub fn advertised_name(i: usize) -> &'static str {{ match i {{").unwrap();
    for (i, (_, name, _)) in POOL.iter().enumerate() {
        let sn = naive_snake_case(name);
        writeln!(pool, "  {i} => <p{i}::{sn}_server::{name}Server<{ty}::Handler> as tonic::server::NamedService>::NAME,").unwrap();
    }
    writeln!(pool, "  _ => panic!(\"pool index\") }} }}").unwrap();
    writeln!(pool, "pub fn service_name_const(i: usize) -> &'static str {{ match i {{").unwrap();
    for (i, (_, name, _)) in POOL.iter().enumerate() {
        let sn = naive_snake_case(name);
        writeln!(pool, "  {i} => p{i}::{sn}_server::SERVICE_NAME,").unwrap();
    }
    writeln!(pool, "  _ => panic!(\"pool index\") }} }}").unwrap();
    // registration by index
    writeln!(pool, "pub fn add(reg: &mut {ty}::Reg, i: usize, wrap: {ty}::Wrap, h: {ty}::Handler) {{ match i {{").unwrap();
    for (i, (_, name, _)) in POOL.iter().enumerate() {
        let sn = naive_snake_case(name);
        writeln!(pool, "  {i} => {ty}::add_wrapped(reg, p{i}::{sn}_server::{name}Server::new(h.clone()), {i}, wrap, h),").unwrap();
    }
    writeln!(pool, "  _ => panic!(\"pool index\") }} }}").unwrap();
    // generated client call by (service, method): returns the response values
    writeln!(pool, "pub async fn client_call<T>(i: usize, j: usize, t: T, arg: {ty}::Req) -> Result<Vec<{ty}::Resp>, tonic::Status>\nwhere T: tonic::client::GrpcService<tonic::body::Body>, T::Error: Into<tonic::codegen::StdError>, T::ResponseBody: tonic::codegen::Body<Data = tonic::codegen::Bytes> + Send + 'static, <T::ResponseBody as tonic::codegen::Body>::Error: Into<tonic::codegen::StdError> + Send {{\n match (i, j) {{").unwrap();
    for (i, (_, name, methods)) in POOL.iter().enumerate() {
        let sn = naive_snake_case(name);
        for (j, (_, kind)) in methods.iter().enumerate() {
            let c = format!("p{i}::{sn}_client::{name}Client::new(t)");
            match kind {
                0 => writeln!(pool, "  ({i}, {j}) => {c}.m{j}(tonic::Request::new(arg)).await.map(|r| vec![r.into_inner()]),").unwrap(),
                1 => writeln!(pool, "  ({i}, {j}) => {ty}::drain({c}.m{j}(tonic::Request::new(arg)).await?.into_inner()).await,").unwrap(),
                2 => writeln!(pool, "  ({i}, {j}) => {c}.m{j}(tonic::Request::new(tokio_stream::iter(vec![arg.clone(), arg]))).await.map(|r| vec![r.into_inner()]),").unwrap(),
                _ => writeln!(pool, "  ({i}, {j}) => {ty}::drain({c}.m{j}(tonic::Request::new(tokio_stream::iter(vec![arg.clone(), arg]))).await?.into_inner()).await,").unwrap(),
            }
        }
    }
    writeln!(pool, "  _ => panic!(\"pool index\") }} }}").unwrap();
    std::fs::write(out.join("c10_pool.rs"), pool).unwrap();
    c10x_pool(&out);
    c11x_pool(&out);
}

/// C10 dimension audit (aC10): a second small pool generated through `CodeGenBuilder` with the
/// remaining generator knobs — (package, name, methods, emit_package, use_arc_self,
/// generate_default_stubs) — among them a service without methods, plus the other public
/// constructors of the servers of the first pool (`with_interceptor`, `from_arc`, the
/// compression / size-limit setters, `Clone`).  Written to `c10x_pool.rs` (included by
/// `src/c10_x.rs` only).
const XPOOL: &[(&str, &str, &[(&str, u8)], bool, bool, bool)] = &[
    ("x", "Ark", &[("M", 0), ("N", 1), ("CS", 2), ("BD", 3)], true, true, false),
    ("x", "Stub", &[("M", 0), ("N", 1), ("BD", 3)], true, false, true),
    ("x", "Empty", &[], true, false, false),
    ("x.Ark", "M", &[("M", 0)], false, true, true),
    ("x", "Arks", &[("M", 0), ("m", 0)], true, false, false),
];

fn c10x_pool(out: &std::path::Path) {
    let ty = "crate::c10::pool";
    let base = POOL.len();
    let mut x = String::new();
    for (xi, (pkg, name, methods, emit, arc, stubs)) in XPOOL.iter().enumerate() {
        let i = base + xi;
        let mut sb = tonic_build::manual::Service::builder().name(name).package(pkg);
        for (j, (route, kind)) in methods.iter().enumerate() {
            let mut mb = tonic_build::manual::Method::builder()
                .name(format!("m{j}"))
                .route_name(route)
                .input_type(format!("{ty}::Req"))
                .output_type(format!("{ty}::Resp"))
                .codec_path("tonic::codec::ProstCodec");
            if *kind == 2 || *kind == 3 {
                mb = mb.client_streaming();
            }
            if *kind == 1 || *kind == 3 {
                mb = mb.server_streaming();
            }
            sb = sb.method(mb.build());
        }
        let svc = sb.build();
        let mut b = tonic_build::CodeGenBuilder::new();
        b.emit_package(*emit).use_arc_self(*arc).generate_default_stubs(*stubs);
        if xi == 4 {
            b.compile_well_known_types(true);
            b.disable_comments(["x.Arks".to_string(), "x.Arks.M".to_string()].into_iter().collect());
        }
        let file = out.join(format!("c10x_{xi}.rs"));
        let code = format!("{}\n", b.generate_server(&svc, "super"));
        std::fs::write(&file, code).unwrap();
        writeln!(x, "#[allow(non_camel_case_types, non_snake_case, unused_qualifications)]\npub mod x{xi} {{ include!({:?}); }}", file.to_str().unwrap()).unwrap();
        let sn = naive_snake_case(name);
        let slf = if *arc { "self: std::sync::Arc<Self>" } else { "&self" };
        writeln!(x, "#[tonic::async_trait]\nimpl x{xi}::{sn}_server::{name} for {ty}::Handler {{").unwrap();
        for (j, (route, kind)) in methods.iter().enumerate() {
            let st = if *stubs { format!("{ty}::OutStream") } else { format!("Self::{route}Stream") };
            let decl = if *stubs || *kind == 0 || *kind == 2 { String::new() } else { format!("  type {route}Stream = {ty}::OutStream;\n") };
            match kind {
                0 => writeln!(x, "  async fn m{j}({slf}, r: tonic::Request<{ty}::Req>) -> Result<tonic::Response<{ty}::Resp>, tonic::Status> {{ self.unary({i}, {j}, r) }}").unwrap(),
                1 => writeln!(x, "{decl}  async fn m{j}({slf}, r: tonic::Request<{ty}::Req>) -> Result<tonic::Response<{st}>, tonic::Status> {{ self.server_streaming({i}, {j}, r) }}").unwrap(),
                2 => writeln!(x, "  async fn m{j}({slf}, r: tonic::Request<tonic::Streaming<{ty}::Req>>) -> Result<tonic::Response<{ty}::Resp>, tonic::Status> {{ self.client_streaming({i}, {j}, r).await }}").unwrap(),
                _ => writeln!(x, "{decl}  async fn m{j}({slf}, r: tonic::Request<tonic::Streaming<{ty}::Req>>) -> Result<tonic::Response<{st}>, tonic::Status> {{ self.streaming({i}, {j}, r).await }}").unwrap(),
            }
        }
        writeln!(x, "}}").unwrap();
    }
    // declared table (what the user declared; the registered name follows the generator's documented rule)
    writeln!(x, "pub const XPOOL: &[(&str, &str, &[(&str, u8)], bool)] = &[").unwrap();
    for (pkg, name, methods, emit, _, _) in XPOOL {
        writeln!(x, "  ({pkg:?}, {name:?}, &{methods:?}, {emit}),").unwrap();
    }
    writeln!(x, "];").unwrap();
    // registration of an XPOOL server, by index into XPOOL
    writeln!(x, "pub fn add_x(reg: &mut {ty}::Reg, xi: usize, wrap: {ty}::Wrap, h: {ty}::Handler) {{ match xi {{").unwrap();
    for (xi, (_, name, _, _, _, _)) in XPOOL.iter().enumerate() {
        let sn = naive_snake_case(name);
        writeln!(x, "  {xi} => {ty}::add_wrapped(reg, x{xi}::{sn}_server::{name}Server::new(h.clone()), {}, wrap, h),", base + xi).unwrap();
    }
    writeln!(x, "  _ => panic!(\"xpool index\") }} }}").unwrap();
    // the other constructors of the servers of the first pool
    writeln!(x, "pub fn add_ctor(reg: &mut {ty}::Reg, i: usize, ctor: &str, h: {ty}::Handler) {{\n use tonic::codec::CompressionEncoding as CE;\n match i {{").unwrap();
    for (i, (_, name, _)) in POOL.iter().enumerate() {
        let sn = naive_snake_case(name);
        let s = format!("{ty}::p{i}::{sn}_server::{name}Server");
        writeln!(x, "  {i} => match ctor {{").unwrap();
        writeln!(x, "    \"with-icept\" => {{ let h2 = h.clone(); super::add_boxed(reg, {s}::with_interceptor(h.clone(), move |r: tonic::Request<()>| {{ h2.enter({i}); Ok(r) }}), {i}, h) }}").unwrap();
        writeln!(x, "    \"with-icept-fresh\" => {{ let h2 = h.clone(); super::add_boxed(reg, {s}::with_interceptor(h.clone(), move |_r: tonic::Request<()>| {{ h2.enter({i}); Ok(tonic::Request::new(())) }}), {i}, h) }}").unwrap();
        writeln!(x, "    \"from-arc\" => {ty}::add_wrapped(reg, {s}::from_arc(std::sync::Arc::new(h.clone())), {i}, {ty}::Wrap::Probe, h),").unwrap();
        writeln!(x, "    \"configured\" => {ty}::add_wrapped(reg, {s}::new(h.clone()).accept_compressed(CE::Gzip).send_compressed(CE::Gzip).accept_compressed(CE::Zstd).max_decoding_message_size(1 << 16).max_encoding_message_size(1 << 16), {i}, {ty}::Wrap::Probe, h),").unwrap();
        writeln!(x, "    \"cloned\" => {{ let a = {s}::new(h.clone()); let b = a.clone(); drop(a); {ty}::add_wrapped(reg, b.clone(), {i}, {ty}::Wrap::Probe, h) }}").unwrap();
        writeln!(x, "    _ => panic!(\"ctor\") }},").unwrap();
    }
    writeln!(x, "  _ => panic!(\"pool index\") }} }}").unwrap();
    std::fs::write(out.join("c10x_pool.rs"), x).unwrap();
}

/// C11 dimension audit (aC11): the other public constructors of the generated CLIENTS of the first
/// pool (`with_origin`, `with_interceptor`, the compression / size-limit setters, `Clone`) and one
/// client value used for SEVERAL calls (in turn, on fresh clones, concurrently).  Written to
/// `c11x_pool.rs` (included by `src/c11_x.rs` only; `Tap`, `join_all` are defined there).
fn c11x_pool(out: &std::path::Path) {
    let ty = "crate::c10::pool";
    let bounds = "T: tonic::client::GrpcService<tonic::body::Body>, T::Error: Into<tonic::codegen::StdError>, T::ResponseBody: tonic::codegen::Body<Data = tonic::codegen::Bytes> + Send + 'static, <T::ResponseBody as tonic::codegen::Body>::Error: Into<tonic::codegen::StdError> + Send";
    let mut x = String::new();
    for (i, (_, name, methods)) in POOL.iter().enumerate() {
        let sn = naive_snake_case(name);
        let c = format!("{ty}::p{i}::{sn}_client::{name}Client");
        // one call: method j, tagged with its position k in the sequence
        writeln!(x, "pub async fn call_{i}<T>(c: &mut {c}<T>, j: usize, k: usize, arg: {ty}::Req) -> Result<Vec<{ty}::Resp>, tonic::Status>\nwhere {bounds} {{\n match j {{").unwrap();
        for (j, (_, kind)) in methods.iter().enumerate() {
            match kind {
                0 => writeln!(x, "  {j} => c.m{j}(super::tagged(arg, k)).await.map(|r| vec![r.into_inner()]),").unwrap(),
                1 => writeln!(x, "  {j} => {ty}::drain(c.m{j}(super::tagged(arg, k)).await?.into_inner()).await,").unwrap(),
                2 => writeln!(x, "  {j} => c.m{j}(super::tagged(tokio_stream::iter(vec![arg.clone(), arg]), k)).await.map(|r| vec![r.into_inner()]),").unwrap(),
                _ => writeln!(x, "  {j} => {ty}::drain(c.m{j}(super::tagged(tokio_stream::iter(vec![arg.clone(), arg]), k)).await?.into_inner()).await,").unwrap(),
            }
        }
        writeln!(x, "  _ => panic!(\"method index\") }} }}").unwrap();
        // a sequence of calls on ONE client value
        writeln!(x, "pub async fn run_{i}<T>(mut c: {c}<T>, mode: &str, calls: &[(usize, {ty}::Req)]) -> Vec<Result<Vec<{ty}::Resp>, tonic::Status>>\nwhere T: Clone, {bounds} {{").unwrap();
        writeln!(x, " let mut out = Vec::new();\n match mode {{").unwrap();
        writeln!(x, "  \"same\" => {{ for (k, (j, arg)) in calls.iter().enumerate() {{ out.push(call_{i}(&mut c, *j, k, arg.clone()).await); }} }}").unwrap();
        writeln!(x, "  \"clones\" => {{ for (k, (j, arg)) in calls.iter().enumerate() {{ let mut d = c.clone(); out.push(call_{i}(&mut d, *j, k, arg.clone()).await); }} }}").unwrap();
        writeln!(x, "  \"clone-used\" => {{ let mut d = None; for (k, (j, arg)) in calls.iter().enumerate() {{ if k % 2 == 0 {{ out.push(call_{i}(&mut c, *j, k, arg.clone()).await); if d.is_none() {{ d = Some(c.clone()); }} }} else {{ out.push(call_{i}(d.as_mut().unwrap(), *j, k, arg.clone()).await); }} }} }}").unwrap();
        writeln!(x, "  \"conc\" => {{ let futs = calls.iter().enumerate().map(|(k, (j, arg))| {{ let mut d = c.clone(); let (j, arg) = (*j, arg.clone()); Box::pin(async move {{ call_{i}(&mut d, j, k, arg).await }}) }}).collect::<Vec<_>>(); out = super::join_all(futs).await; }}").unwrap();
        writeln!(x, "  _ => panic!(\"mode\") }}\n out }}").unwrap();
    }
    writeln!(x, "pub async fn client_seq(i: usize, ctor: &str, mode: &str, calls: &[(usize, {ty}::Req)], t: super::Tap) -> Vec<Result<Vec<{ty}::Resp>, tonic::Status>> {{\n use tonic::codec::CompressionEncoding as CE;\n match i {{").unwrap();
    for (i, (_, name, _)) in POOL.iter().enumerate() {
        let sn = naive_snake_case(name);
        let c = format!("{ty}::p{i}::{sn}_client::{name}Client");
        writeln!(x, "  {i} => match ctor {{").unwrap();
        writeln!(x, "    \"new\" => run_{i}({c}::new(t), mode, calls).await,").unwrap();
        writeln!(x, "    \"origin\" => run_{i}({c}::with_origin(t, http::Uri::from_static(\"http://origin.example:8080\")), mode, calls).await,").unwrap();
        writeln!(x, "    \"origin-slash\" => run_{i}({c}::with_origin(t, http::Uri::from_static(\"https://origin.example/\")), mode, calls).await,").unwrap();
        writeln!(x, "    \"icept\" => run_{i}({c}::with_interceptor(t, |r: tonic::Request<()>| Ok(r)), mode, calls).await,").unwrap();
        writeln!(x, "    \"conf\" => run_{i}({c}::new(t).accept_compressed(CE::Gzip).accept_compressed(CE::Zstd).max_decoding_message_size(1 << 20).max_encoding_message_size(1 << 20), mode, calls).await,").unwrap();
        writeln!(x, "    \"cloned\" => {{ let a = {c}::new(t); let b = a.clone(); drop(a); run_{i}(b.clone(), mode, calls).await }}").unwrap();
        writeln!(x, "    _ => panic!(\"ctor\") }},").unwrap();
    }
    writeln!(x, "  _ => panic!(\"pool index\") }} }}").unwrap();
    std::fs::write(out.join("c11x_pool.rs"), x).unwrap();
}
