#!/bin/sh
# Test PKI for C15 (committed; the keys are test material, never use them for anything else).
# Re-create with:  cd harness/certs && sh gen.sh        (needs the openssl CLI; overwrites *.pem)
#
#   ca1, ca2              two unrelated self-signed root CAs
#   ica1                  intermediate CA issued by ca1 (used for the two-certificate client chain)
#   s1good                server leaf, issuer ca1, SAN DNS:good.test
#   s1bad                 server leaf, issuer ca1, SAN DNS:other.test        (non-matching SAN)
#   s2good                server leaf, issuer ca2, SAN DNS:good.test         (other CA)
#   s1ip                  server leaf, issuer ca1, SAN IP:127.0.0.1 + DNS:good.test
#   c1                    client leaf, issuer ca1
#   c2                    client leaf, issuer ca2
#   c1chain               client leaf issued by ica1; c1chain.pem = leaf + ica1 (a 2-cert chain)
# All keys are EC P-256 in PKCS#8 PEM ("BEGIN PRIVATE KEY"); validity 50 years.
set -eu
cd "$(dirname "$0")"
DAYS=18250
T=$(mktemp -d)
trap 'rm -rf "$T"' EXIT

key() { openssl genpkey -algorithm EC -pkeyopt ec_paramgen_curve:P-256 -out "$1.key.pem" 2>/dev/null; }

root() { # name CN
  key "$1"
  openssl req -x509 -new -key "$1.key.pem" -sha256 -days $DAYS -subj "/O=tonic-verif/CN=$2" \
    -addext "basicConstraints=critical,CA:TRUE" -addext "keyUsage=critical,keyCertSign,cRLSign" \
    -out "$1.pem"
}

issue() { # name CN issuer extfile-content [ca]
  key "$1"
  openssl req -new -key "$1.key.pem" -subj "/O=tonic-verif/CN=$2" -out "$T/$1.csr"
  printf '%s\n' "$4" > "$T/$1.ext"
  openssl x509 -req -in "$T/$1.csr" -CA "$3.pem" -CAkey "$3.key.pem" -CAcreateserial -CAserial "$T/$3.srl" \
    -sha256 -days $DAYS -extfile "$T/$1.ext" -out "$1.pem" 2>/dev/null
}

root ca1 "verif test CA 1"
root ca2 "verif test CA 2"
issue ica1 "verif test intermediate CA 1" ca1 "basicConstraints=critical,CA:TRUE,pathlen:0
keyUsage=critical,keyCertSign,cRLSign"

SRV="basicConstraints=CA:FALSE
keyUsage=critical,digitalSignature
extendedKeyUsage=serverAuth"
CLI="basicConstraints=CA:FALSE
keyUsage=critical,digitalSignature
extendedKeyUsage=clientAuth"

issue s1good "s1good" ca1 "$SRV
subjectAltName=DNS:good.test"
issue s1bad "s1bad" ca1 "$SRV
subjectAltName=DNS:other.test"
issue s2good "s2good" ca2 "$SRV
subjectAltName=DNS:good.test"
issue s1ip "s1ip" ca1 "$SRV
subjectAltName=IP:127.0.0.1,DNS:good.test"
issue c1 "client c1" ca1 "$CLI"
issue c2 "client c2" ca2 "$CLI"
issue c1leaf "client c1chain" ica1 "$CLI"
cat c1leaf.pem ica1.pem > c1chain.pem
mv c1leaf.key.pem c1chain.key.pem
rm -f c1leaf.pem
openssl verify -CAfile ca1.pem s1good.pem s1bad.pem s1ip.pem c1.pem
openssl verify -CAfile ca2.pem s2good.pem c2.pem
openssl verify -CAfile ca1.pem -untrusted ica1.pem c1chain.pem
ls -1 *.pem
