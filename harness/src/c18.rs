//! C18 — health service: Check / Watch report the latest status.
//!
//! Sequential cases (`seq …`) drive the real `HealthReporter` + `HealthServer` pair returned by
//! `tonic_health::server::health_reporter()` through the generated `HealthClient`, in-process
//! (the server is the client's transport, so every call runs the real codec, router arm and
//! `HealthService`).  No tokio runtime is entered for them: the futures are polled by a small
//! executor with a flag waker, so `next` on a watch stream is "poll until settled" and a stream
//! with nothing to report is the observable `pend`.
//!
//! Concurrent cases (`conc <seed> <set-up ops> | <program> | <program> …`) run the set-up alone,
//! then one task per program on a shared multi-thread tokio runtime, and record a history
//! `<task> <inv> <res> <answer>` with global invocation/response stamps; polls of a stream are
//! single polls (`pend` if not ready).  When every task has finished its program, tasks that
//! hold a stream drain it (extra records).  The Lean driver searches for a linearization of the
//! history (see Driver/C18.lean for how windows and `pend` answers are treated).
//!
//! Parked-watcher cases (`park <items>`; items are the ops above plus `a <w>` = a task is spawned
//! that sits in `stream.message().await` on stream `w`) run on a current-thread tokio runtime with
//! paused time.  The awaiting task is a real spawned task and is never polled by the harness: it
//! runs again only if the waker it left in the watch channel is fired.  Reporter calls are made
//! from other tasks.  After every item the driver task sleeps 1 ms of virtual time — which, with
//! a paused clock, elapses only once every runnable task has run — and then reports which parked
//! tasks have finished (`wk<w>:<answer>`).  At the end each task that is still parked is given an
//! hour of virtual time (`idle<w>` if it is still parked then, `late<w>:<answer>` if the timer's
//! turn of the scheduler is what made it finish).
//!
//! `life st<k> <items>` cases (c18_x.rs, audit aC18): two `health_reporter()` pairs in one process,
//! reporter / client handles cloned, overwritten and dropped between the operations, behind one of
//! five client/server stacks; that file also generates `seq` cases of scale (many watchers, many
//! names, bursts of 15…513 updates between polls) and near-miss name pairs.
//!
//! Every observed line is `<exact answers> # <per-stream report sequences>`: `r<w>=<digits>` is
//! the sequence of statuses stream `w` delivered with immediate repetitions removed (a purely
//! syntactic function of the answers).  See Driver/C18.lean for how the two parts are compared.
use crate::common::*;
use std::future::Future;
use std::pin::Pin;
use std::sync::atomic::{AtomicBool, AtomicU64, Ordering};
use std::sync::{Arc, OnceLock};
use std::task::{Context, Poll, Wake, Waker};
use tonic_health::pb::health_client::HealthClient;
use tonic_health::pb::health_server::{Health, HealthServer};
use tonic_health::pb::HealthCheckRequest;
use tonic_health::server::{health_reporter, HealthReporter};
use tonic_health::ServingStatus;

/// audit aC18: `life` cases (handle lifecycle, independent pairs, stack variants) and the scale /
/// naming generators — see the header of c18_x.rs
#[path = "c18_x.rs"]
mod x;

// ---------------------------------------------------------------------------------------------
// case vocabulary

#[derive(Clone, Debug)]
enum Op {
    Set(usize, String, u8), // reporter handle, name, status 0/1/2
    Serving(usize),         // set_serving::<HealthServer<_>>()
    NotServing(usize),      // set_not_serving::<HealthServer<_>>()
    Clear(usize, String),
    Check(usize, String), // client handle, name
    Watch(usize, String),
    Next(usize), // watcher slot (seq) / ignored (conc: the task's own watcher)
    Drop(usize),
}

/// Item of a parked-watcher case.
#[derive(Clone, Debug)]
enum Item {
    Op(Op),
    Await(usize),
}

fn items_tokens(items: &[Item]) -> String {
    items
        .iter()
        .map(|it| match it {
            Item::Op(op) => op_tokens(op),
            Item::Await(w) => format!("a {}", w),
        })
        .collect::<Vec<_>>()
        .join(" ")
}

/// `NamedService::NAME` of `HealthServer<_>` — what `set_serving::<HealthServer<_>>()` sets.
const SVC_NAME: &str = "grpc.health.v1.Health";

fn name_tok(n: &str) -> String {
    hex(n.as_bytes())
}

fn op_tokens(op: &Op) -> String {
    match op {
        Op::Set(r, n, s) => format!("s {} {} {}", r, name_tok(n), s),
        Op::Serving(r) => format!("sv {}", r),
        Op::NotServing(r) => format!("nsv {}", r),
        Op::Clear(r, n) => format!("c {} {}", r, name_tok(n)),
        Op::Check(c, n) => format!("k {} {}", c, name_tok(n)),
        Op::Watch(c, n) => format!("w {} {}", c, name_tok(n)),
        Op::Next(w) => format!("n {}", w),
        Op::Drop(w) => format!("d {}", w),
    }
}

fn ops_tokens(ops: &[Op]) -> String {
    ops.iter().map(op_tokens).collect::<Vec<_>>().join(" ")
}

fn parse_name(t: &str) -> Option<String> {
    String::from_utf8(unhex(t)?).ok()
}

/// Parses a flat op token list; `None` on a malformed list.
fn parse_ops(t: &[&str]) -> Option<Vec<Op>> {
    parse_items(t, false)?
        .into_iter()
        .map(|it| match it {
            Item::Op(op) => Some(op),
            Item::Await(_) => None,
        })
        .collect()
}

fn parse_items(t: &[&str], with_await: bool) -> Option<Vec<Item>> {
    let mut out = Vec::new();
    let mut i = 0;
    let num = |s: &str| s.parse::<usize>().ok();
    while i < t.len() {
        if with_await && t[i] == "a" && i + 1 < t.len() {
            out.push(Item::Await(num(t[i + 1])?));
            i += 2;
            continue;
        }
        let mut out = OpSink(&mut out);
        match t[i] {
            "s" if i + 3 < t.len() => {
                let st = num(t[i + 3])?;
                if st > 2 {
                    return None;
                }
                out.push(Op::Set(num(t[i + 1])?, parse_name(t[i + 2])?, st as u8));
                i += 4;
            }
            "sv" if i + 1 < t.len() => {
                out.push(Op::Serving(num(t[i + 1])?));
                i += 2;
            }
            "nsv" if i + 1 < t.len() => {
                out.push(Op::NotServing(num(t[i + 1])?));
                i += 2;
            }
            "c" if i + 2 < t.len() => {
                out.push(Op::Clear(num(t[i + 1])?, parse_name(t[i + 2])?));
                i += 3;
            }
            "k" if i + 2 < t.len() => {
                out.push(Op::Check(num(t[i + 1])?, parse_name(t[i + 2])?));
                i += 3;
            }
            "w" if i + 2 < t.len() => {
                out.push(Op::Watch(num(t[i + 1])?, parse_name(t[i + 2])?));
                i += 3;
            }
            "n" if i + 1 < t.len() => {
                out.push(Op::Next(num(t[i + 1])?));
                i += 2;
            }
            "d" if i + 1 < t.len() => {
                out.push(Op::Drop(num(t[i + 1])?));
                i += 2;
            }
            _ => return None,
        }
    }
    Some(out)
}

struct OpSink<'a>(&'a mut Vec<Item>);
impl OpSink<'_> {
    fn push(&mut self, op: Op) {
        self.0.push(Item::Op(op));
    }
}

fn status_of(s: u8) -> ServingStatus {
    match s {
        0 => ServingStatus::Unknown,
        1 => ServingStatus::Serving,
        _ => ServingStatus::NotServing,
    }
}

// ---------------------------------------------------------------------------------------------
// a tiny executor: poll until the future is ready or has settled as pending

struct Flag(AtomicBool);
impl Wake for Flag {
    fn wake(self: Arc<Self>) {
        self.0.store(true, Ordering::SeqCst);
    }
    fn wake_by_ref(self: &Arc<Self>) {
        self.0.store(true, Ordering::SeqCst);
    }
}

enum Settled<T> {
    Ready(T),
    Pending,
    Busy,
}

fn settle<F: Future>(mut fut: Pin<&mut F>) -> Settled<F::Output> {
    let flag = Arc::new(Flag(AtomicBool::new(false)));
    let waker = Waker::from(flag.clone());
    let mut cx = Context::from_waker(&waker);
    for _ in 0..1000 {
        flag.0.store(false, Ordering::SeqCst);
        match fut.as_mut().poll(&mut cx) {
            Poll::Ready(v) => return Settled::Ready(v),
            Poll::Pending => {
                if !flag.0.load(Ordering::SeqCst) {
                    return Settled::Pending;
                }
            }
        }
    }
    Settled::Busy
}

/// For calls that must complete without outside help (everything except `next`).
fn complete<F: Future>(fut: F) -> Result<F::Output, &'static str> {
    let mut fut = std::pin::pin!(fut);
    match settle(fut.as_mut()) {
        Settled::Ready(v) => Ok(v),
        Settled::Pending => Err("hang"),
        Settled::Busy => Err("busy-loop"),
    }
}

fn wire_status_tok(prefix: &str, v: i32) -> String {
    match v {
        0..=2 => format!("{}{}", prefix, v),
        other => format!("{}?{}", prefix, other),
    }
}

fn err_tok(st: &tonic::Status) -> String {
    if st.code() == tonic::Code::NotFound {
        "nf".into()
    } else {
        format!("err{}", st.code() as i32)
    }
}

type Stream = tonic::Streaming<tonic_health::pb::HealthCheckResponse>;

fn next_tok(stream: &mut Stream) -> String {
    let fut = stream.message();
    let mut fut = std::pin::pin!(fut);
    match settle(fut.as_mut()) {
        Settled::Ready(Ok(Some(m))) => wire_status_tok("v", m.status),
        Settled::Ready(Ok(None)) => "end".into(),
        Settled::Ready(Err(st)) => format!("err{}", st.code() as i32),
        Settled::Pending => "pend".into(),
        Settled::Busy => "busy-loop".into(),
    }
}

// ---------------------------------------------------------------------------------------------
// sequential runs

fn run_seq<T: Health>(reporter: HealthReporter, server: HealthServer<T>, ops: &[Op]) -> String {
    // two handles of everything that can be cloned: clones must share the one table
    let mut reporters = [reporter.clone(), reporter];
    let mut clients = [HealthClient::new(server.clone()), HealthClient::new(server)];
    let mut watchers: Vec<Option<Stream>> = Vec::new();
    let mut out: Vec<String> = Vec::with_capacity(ops.len());
    let mut polls: Vec<(usize, String)> = Vec::new();
    for op in ops {
        let tok = match op {
            Op::Set(r, n, s) => {
                match complete(reporters[r % 2].set_service_status(n.as_str(), status_of(*s))) {
                    Ok(()) => "ok".to_string(),
                    Err(e) => e.to_string(),
                }
            }
            Op::Serving(r) => match complete(reporters[r % 2].set_serving::<HealthServer<T>>()) {
                Ok(()) => "ok".to_string(),
                Err(e) => e.to_string(),
            },
            Op::NotServing(r) => match complete(reporters[r % 2].set_not_serving::<HealthServer<T>>()) {
                Ok(()) => "ok".to_string(),
                Err(e) => e.to_string(),
            },
            Op::Clear(r, n) => match complete(reporters[r % 2].clear_service_status(n.as_str())) {
                Ok(()) => "ok".to_string(),
                Err(e) => e.to_string(),
            },
            Op::Check(c, n) => {
                let req = HealthCheckRequest { service: n.clone() };
                match complete(clients[c % 2].check(req)) {
                    Ok(Ok(resp)) => wire_status_tok("st", resp.into_inner().status),
                    Ok(Err(st)) => err_tok(&st),
                    Err(e) => e.to_string(),
                }
            }
            Op::Watch(c, n) => {
                let req = HealthCheckRequest { service: n.clone() };
                match complete(clients[c % 2].watch(req)) {
                    Ok(Ok(resp)) => {
                        watchers.push(Some(resp.into_inner()));
                        "sub".to_string()
                    }
                    Ok(Err(st)) => {
                        watchers.push(None);
                        err_tok(&st)
                    }
                    Err(e) => {
                        watchers.push(None);
                        e.to_string()
                    }
                }
            }
            Op::Next(w) => match watchers.get_mut(*w) {
                Some(Some(stream)) => {
                    let tok = next_tok(stream);
                    polls.push((*w, tok.clone()));
                    tok
                }
                _ => "now".to_string(),
            },
            Op::Drop(w) => match watchers.get_mut(*w) {
                Some(slot @ Some(_)) => {
                    *slot = None;
                    "ok".to_string()
                }
                _ => "now".to_string(),
            },
        };
        out.push(tok);
    }
    let key = report_key(watchers.len(), &polls);
    if out.is_empty() {
        key
    } else {
        format!("{} {}", out.join(" "), key)
    }
}

// ---------------------------------------------------------------------------------------------
// the comparison key that is blind to repeated reports

/// `# r0=<digits> r1=<digits> …`: per stream (slot = index of the Watch call) the statuses it
/// delivered, immediate repetitions removed.  `polls` = (slot, answer token) of every answer that
/// came from a stream, in order.
fn report_key(nslots: usize, polls: &[(usize, String)]) -> String {
    let mut seqs: Vec<String> = vec![String::new(); nslots];
    for (w, tok) in polls {
        if let (Some(seq), Some(d)) = (seqs.get_mut(*w), tok.strip_prefix('v')) {
            if d.len() == 1 && !seq.ends_with(d) {
                seq.push_str(d);
            }
        }
    }
    let mut out = String::from("#");
    for (w, seq) in seqs.iter().enumerate() {
        out.push_str(&format!(" r{}={}", w, seq));
    }
    out
}

// ---------------------------------------------------------------------------------------------
// parked watchers

enum Slot {
    Empty,
    Held(Stream),
    Parked(tokio::task::JoinHandle<(String, Stream)>),
}

fn msg_tok(r: Result<Option<tonic_health::pb::HealthCheckResponse>, tonic::Status>) -> String {
    match r {
        Ok(Some(m)) => wire_status_tok("v", m.status),
        Ok(None) => "end".into(),
        Err(st) => format!("err{}", st.code() as i32),
    }
}

/// Virtual-time barrier: with a paused clock the sleep elapses only when the runtime has nothing
/// else to run, i.e. after every task that was woken has been polled.
async fn quiesce() {
    tokio::time::sleep(std::time::Duration::from_millis(1)).await;
}

async fn on_other_task<F>(fut: F) -> String
where
    F: Future<Output = ()> + Send + 'static,
{
    match tokio::spawn(fut).await {
        Ok(()) => "ok".to_string(),
        Err(_) => "panic".to_string(),
    }
}

async fn park_body<T: Health>(reporter: HealthReporter, server: HealthServer<T>, items: Vec<Item>) -> String
where
    HealthServer<T>: Clone + Send + 'static,
{
    let reporters = [reporter.clone(), reporter];
    let mut clients = [HealthClient::new(server.clone()), HealthClient::new(server)];
    let mut slots: Vec<Slot> = Vec::new();
    let mut out: Vec<String> = Vec::new();
    let mut polls: Vec<(usize, String)> = Vec::new();
    for it in items {
        let tok = match it {
            Item::Await(w) => match slots.get_mut(w) {
                Some(slot @ Slot::Held(_)) => {
                    let Slot::Held(mut stream) = std::mem::replace(slot, Slot::Empty) else { unreachable!() };
                    // the awaiting task: nobody polls it but the runtime, and only when woken
                    let h = tokio::spawn(async move {
                        let r = stream.message().await;
                        (msg_tok(r), stream)
                    });
                    quiesce().await;
                    if h.is_finished() {
                        match h.await {
                            Ok((tok, stream)) => {
                                *slot = Slot::Held(stream);
                                polls.push((w, tok.clone()));
                                tok
                            }
                            Err(_) => "panic".to_string(),
                        }
                    } else {
                        *slot = Slot::Parked(h);
                        "parked".to_string()
                    }
                }
                Some(Slot::Parked(_)) => "busy".to_string(),
                _ => "now".to_string(),
            },
            Item::Op(Op::Set(r, n, s)) => {
                let rep = reporters[r % 2].clone();
                on_other_task(async move { rep.set_service_status(n.as_str(), status_of(s)).await }).await
            }
            Item::Op(Op::Serving(r)) => {
                let rep = reporters[r % 2].clone();
                on_other_task(async move { rep.set_serving::<HealthServer<T>>().await }).await
            }
            Item::Op(Op::NotServing(r)) => {
                let rep = reporters[r % 2].clone();
                on_other_task(async move { rep.set_not_serving::<HealthServer<T>>().await }).await
            }
            Item::Op(Op::Clear(r, n)) => {
                let mut rep = reporters[r % 2].clone();
                on_other_task(async move { rep.clear_service_status(n.as_str()).await }).await
            }
            Item::Op(Op::Check(c, n)) => match clients[c % 2].check(HealthCheckRequest { service: n }).await {
                Ok(resp) => wire_status_tok("st", resp.into_inner().status),
                Err(st) => err_tok(&st),
            },
            Item::Op(Op::Watch(c, n)) => match clients[c % 2].watch(HealthCheckRequest { service: n }).await {
                Ok(resp) => {
                    slots.push(Slot::Held(resp.into_inner()));
                    "sub".to_string()
                }
                Err(st) => {
                    slots.push(Slot::Empty);
                    err_tok(&st)
                }
            },
            Item::Op(Op::Next(w)) => match slots.get_mut(w) {
                Some(Slot::Held(stream)) => {
                    // one poll, like `next` of the sequential cases: ready now or `pend`
                    let tok = {
                        let mut fut = std::pin::pin!(tokio::task::unconstrained(stream.message()));
                        std::future::poll_fn(|cx| {
                            Poll::Ready(match fut.as_mut().poll(cx) {
                                Poll::Ready(r) => msg_tok(r),
                                Poll::Pending => "pend".to_string(),
                            })
                        })
                        .await
                    };
                    polls.push((w, tok.clone()));
                    tok
                }
                Some(Slot::Parked(_)) => "busy".to_string(),
                _ => "now".to_string(),
            },
            Item::Op(Op::Drop(w)) => match slots.get_mut(w) {
                Some(slot @ Slot::Held(_)) => {
                    *slot = Slot::Empty;
                    "ok".to_string()
                }
                Some(slot @ Slot::Parked(_)) => {
                    // the client gives up waiting: the task, and with it the stream, is dropped
                    if let Slot::Parked(h) = std::mem::replace(slot, Slot::Empty) {
                        h.abort();
                        let _ = h.await;
                    }
                    "ok".to_string()
                }
                _ => "now".to_string(),
            },
        };
        out.push(tok);
        // let every woken task run, then see which parked tasks have finished by themselves
        quiesce().await;
        for (w, slot) in slots.iter_mut().enumerate() {
            if matches!(slot, Slot::Parked(h) if h.is_finished()) {
                let Slot::Parked(h) = std::mem::replace(slot, Slot::Empty) else { unreachable!() };
                match h.await {
                    Ok((tok, stream)) => {
                        *slot = Slot::Held(stream);
                        out.push(format!("wk{}:{}", w, tok));
                        polls.push((w, tok));
                    }
                    Err(_) => out.push(format!("wk{}:panic", w)),
                }
            }
        }
    }
    // updates have stopped: a task that is still parked gets an hour of virtual time
    out.push("fin".to_string());
    for (w, slot) in slots.iter_mut().enumerate() {
        if let Slot::Parked(h) = slot {
            match tokio::time::timeout(std::time::Duration::from_secs(3600), &mut *h).await {
                Ok(Ok((tok, _))) => {
                    out.push(format!("late{}:{}", w, tok));
                    polls.push((w, tok));
                }
                Ok(Err(_)) => out.push(format!("late{}:panic", w)),
                Err(_) => {
                    h.abort();
                    out.push(format!("idle{}", w));
                }
            }
        }
    }
    format!("{} {}", out.join(" "), report_key(slots.len(), &polls))
}

fn run_park<T: Health>(reporter: HealthReporter, server: HealthServer<T>, items: Vec<Item>) -> String
where
    HealthServer<T>: Clone + Send + 'static,
{
    let rt = paused_rt();
    rt.block_on(async move {
        // a call that never returns shows as `hang` (the virtual clock jumps when all is idle)
        match tokio::time::timeout(std::time::Duration::from_secs(1_000_000), park_body(reporter, server, items)).await {
            Ok(s) => s,
            Err(_) => "hang".to_string(),
        }
    })
}

// ---------------------------------------------------------------------------------------------
// concurrent runs

fn conc_rt() -> &'static tokio::runtime::Runtime {
    static RT: OnceLock<tokio::runtime::Runtime> = OnceLock::new();
    RT.get_or_init(|| {
        tokio::runtime::Builder::new_multi_thread()
            .worker_threads(8)
            .enable_all()
            .build()
            .unwrap()
    })
}

/// One poll of `message()` with the task's own waker, outside tokio's cooperative budget (so a
/// `Pending` means the stream had nothing, never "budget exhausted").
async fn try_next(stream: &mut Stream) -> String {
    let mut fut = std::pin::pin!(tokio::task::unconstrained(stream.message()));
    std::future::poll_fn(|cx| {
        Poll::Ready(match fut.as_mut().poll(cx) {
            Poll::Ready(Ok(Some(m))) => wire_status_tok("v", m.status),
            Poll::Ready(Ok(None)) => "end".to_string(),
            Poll::Ready(Err(st)) => format!("err{}", st.code() as i32),
            Poll::Pending => "pend".to_string(),
        })
    })
    .await
}

async fn jitter(rng: &mut Rng) {
    match rng.below(8) {
        0 => tokio::task::yield_now().await,
        1 => std::thread::yield_now(),
        2 => {
            for _ in 0..rng.below(200) {
                std::hint::spin_loop();
            }
        }
        3 => {
            tokio::task::yield_now().await;
            tokio::task::yield_now().await;
        }
        _ => {}
    }
}

async fn run_program<T: Health>(
    tid: usize,
    mut reporter: HealthReporter,
    server: HealthServer<T>,
    ops: Vec<Op>,
    clock: Arc<AtomicU64>,
    mut rng: Rng,
    quiesce: Arc<tokio::sync::Barrier>,
) -> Vec<String> {
    let mut client = HealthClient::new(server);
    let mut watcher: Option<Stream> = None;
    let mut out = Vec::new();
    for op in ops {
        jitter(&mut rng).await;
        let inv = clock.fetch_add(1, Ordering::SeqCst);
        let res = match &op {
            Op::Set(_, n, s) => {
                reporter.set_service_status(n.as_str(), status_of(*s)).await;
                "ok".to_string()
            }
            Op::Serving(_) => {
                reporter.set_serving::<HealthServer<T>>().await;
                "ok".to_string()
            }
            Op::NotServing(_) => {
                reporter.set_not_serving::<HealthServer<T>>().await;
                "ok".to_string()
            }
            Op::Clear(_, n) => {
                reporter.clear_service_status(n.as_str()).await;
                "ok".to_string()
            }
            Op::Check(_, n) => match client.check(HealthCheckRequest { service: n.clone() }).await {
                Ok(resp) => wire_status_tok("st", resp.into_inner().status),
                Err(st) => err_tok(&st),
            },
            Op::Watch(_, n) => match client.watch(HealthCheckRequest { service: n.clone() }).await {
                Ok(resp) => {
                    watcher = Some(resp.into_inner());
                    "sub".to_string()
                }
                Err(st) => {
                    watcher = None;
                    err_tok(&st)
                }
            },
            Op::Next(_) => match watcher.as_mut() {
                Some(s) => try_next(s).await,
                None => "now".to_string(),
            },
            Op::Drop(_) => match watcher.take() {
                Some(_) => "ok".to_string(),
                None => "now".to_string(),
            },
        };
        let resp = clock.fetch_add(1, Ordering::SeqCst);
        out.push(format!("{} {} {} {}", tid, inv, resp, res));
    }
    // every program has finished: updates have stopped.  A task that still holds a stream
    // drains it (extra `next` records beyond its program) until it has nothing more to say.
    quiesce.wait().await;
    if let Some(s) = watcher.as_mut() {
        for _ in 0..8 {
            let inv = clock.fetch_add(1, Ordering::SeqCst);
            let res = try_next(s).await;
            let resp = clock.fetch_add(1, Ordering::SeqCst);
            let stop = res == "pend" || res == "end" || res.starts_with("err");
            out.push(format!("{} {} {} {}", tid, inv, resp, res));
            if stop {
                break;
            }
        }
    }
    out
}

fn run_conc<T: Health + 'static>(
    reporter: HealthReporter,
    server: HealthServer<T>,
    seed: u64,
    programs: Vec<Vec<Op>>,
) -> String
where
    HealthServer<T>: Clone + Send + 'static,
{
    let clock = Arc::new(AtomicU64::new(0));
    let mut rng = Rng::new(seed);
    let rt = conc_rt();
    let mut out = Vec::new();
    // segment 0 is the set-up: it runs alone, to completion, before the tasks start (task id 0)
    let mut programs = programs.into_iter();
    let setup = programs.next().unwrap_or_default();
    {
        let alone = Arc::new(tokio::sync::Barrier::new(1));
        let fut = run_program(0, reporter.clone(), server.clone(), setup, clock.clone(), Rng(0), alone);
        match rt.block_on(async { tokio::time::timeout(std::time::Duration::from_secs(20), rt.spawn(fut)).await }) {
            Ok(Ok(v)) => out.extend(v),
            Ok(Err(_)) => return "panic".into(),
            Err(_) => return "hang".into(),
        }
    }
    let programs: Vec<Vec<Op>> = programs.collect();
    let barrier = Arc::new(tokio::sync::Barrier::new(programs.len()));
    let quiesce = Arc::new(tokio::sync::Barrier::new(programs.len()));
    let handles: Vec<_> = programs
        .into_iter()
        .enumerate()
        .map(|(i, ops)| {
            let tid = i + 1;
            let reporter = reporter.clone();
            let server = server.clone();
            let clock = clock.clone();
            let r = rng.fork();
            let barrier = barrier.clone();
            let quiesce = quiesce.clone();
            rt.spawn(async move {
                barrier.wait().await;
                run_program(tid, reporter, server, ops, clock, r, quiesce).await
            })
        })
        .collect();
    for h in handles {
        match rt.block_on(async { tokio::time::timeout(std::time::Duration::from_secs(20), h).await }) {
            Ok(Ok(v)) => out.extend(v),
            Ok(Err(_)) => return "panic".into(),
            Err(_) => return "hang".into(),
        }
    }
    out.join(" ")
}

// ---------------------------------------------------------------------------------------------
// entry points

pub fn execute(case: &str) -> String {
    let t: Vec<&str> = case.split(' ').filter(|s| !s.is_empty()).collect();
    match t.first().copied() {
        Some("seq") => match parse_ops(&t[1..]) {
            Some(ops) => {
                let (reporter, server) = health_reporter();
                run_seq(reporter, server, &ops)
            }
            None => "bad-case".into(),
        },
        Some("park") => match parse_items(&t[1..], true) {
            Some(items) => {
                let (reporter, server) = health_reporter();
                run_park(reporter, server, items)
            }
            None => "bad-case".into(),
        },
        Some("life") => x::execute_life(&t[1..]),
        Some("conc") if t.len() >= 2 => {
            let Ok(seed) = t[1].parse::<u64>() else { return "bad-case".into() };
            let mut programs = Vec::new();
            for part in t[2..].split(|x| *x == "|") {
                match parse_ops(part) {
                    Some(ops) => programs.push(ops),
                    None => return "bad-case".into(),
                }
            }
            if programs.len() < 2 || programs[1..].iter().all(|p| p.is_empty()) {
                return "bad-case".into();
            }
            let (reporter, server) = health_reporter();
            run_conc(reporter, server, seed, programs)
        }
        _ => "bad-case".into(),
    }
}

const NAMES_SMALL: [&str; 2] = ["", "a"];
/// Names chosen so that a lookup that is not exact string equality shows: case, prefix,
/// trailing dot, the `NamedService::NAME` used by `set_serving`, a non-ASCII name.
const NAMES: [&str; 10] = ["", "a", "A", "a.b", "a.", "ab", SVC_NAME, "é", " ", LONG_NAME];
/// longer than any inline buffer a lookup might use
const LONG_NAME: &str = "pkg.sub.VeryLongServiceName0123456789.pkg.sub.VeryLongServiceName0123456789.pkg.sub.VeryLongServiceName0123456789.pkg.sub.VeryLongServiceName0123456789.pkg.sub.VeryLongServiceName0123456789.pkg.sub.VeryLongServiceName0123456789.pkg.sub.VeryLongServiceName0123456789.X";

fn rand_name(rng: &mut Rng) -> String {
    match rng.below(10) {
        0..=2 => "".to_string(),
        3..=5 => "a".to_string(),
        _ => rng.pick(&NAMES).to_string(),
    }
}

/// Generator-side bookkeeping, only to bias choices (which names are probably registered, which
/// slots probably hold a stream); it decides nothing about expected answers.
struct Bias {
    registered: Vec<String>,
    slots: Vec<bool>,
}

impl Bias {
    fn new() -> Self {
        Bias { registered: vec!["".to_string()], slots: Vec::new() }
    }
    fn note(&mut self, op: &Op) {
        match op {
            Op::Set(_, n, _) => {
                if !self.registered.contains(n) {
                    self.registered.push(n.clone());
                }
            }
            Op::Serving(_) | Op::NotServing(_) => {
                if !self.registered.iter().any(|x| x == SVC_NAME) {
                    self.registered.push(SVC_NAME.to_string());
                }
            }
            Op::Clear(_, n) => self.registered.retain(|x| x != n),
            Op::Watch(_, n) => self.slots.push(self.registered.contains(n)),
            Op::Drop(w) => {
                if let Some(s) = self.slots.get_mut(*w) {
                    *s = false;
                }
            }
            _ => {}
        }
    }
    fn slot(&self, rng: &mut Rng) -> usize {
        let live: Vec<usize> = self.slots.iter().enumerate().filter(|(_, l)| **l).map(|(i, _)| i).collect();
        if !live.is_empty() && rng.chance(9, 10) {
            *rng.pick(&live)
        } else {
            rng.below(self.slots.len() as u64 + 2) as usize
        }
    }
    fn reg_name(&self, rng: &mut Rng, names: &dyn Fn(&mut Rng) -> String) -> String {
        if !self.registered.is_empty() && rng.chance(3, 4) {
            rng.pick(&self.registered).clone()
        } else {
            names(rng)
        }
    }
}

fn rand_op(rng: &mut Rng, bias: &mut Bias, names: &dyn Fn(&mut Rng) -> String) -> Op {
    let h = rng.below(2) as usize;
    let op = match rng.below(20) {
        0..=4 => Op::Set(h, names(rng), rng.below(3) as u8),
        5 => {
            if rng.chance(1, 2) {
                Op::Serving(h)
            } else {
                Op::NotServing(h)
            }
        }
        6 => Op::Clear(h, bias.reg_name(rng, names)),
        7..=9 => Op::Check(h, names(rng)),
        10..=12 => Op::Watch(h, bias.reg_name(rng, names)),
        13..=18 => Op::Next(bias.slot(rng)),
        _ => Op::Drop(bias.slot(rng)),
    };
    bias.note(&op);
    op
}

/// Every op sequence of length exactly `len` over the small alphabet (names "" and "a",
/// statuses 1 and 2 plus `set a 0`), `next`/`drop` only on slots that exist.
fn enumerate(len: usize, out: &mut Vec<String>) {
    fn rec(len: usize, cur: &mut Vec<Op>, nwatch: usize, out: &mut Vec<String>) {
        if cur.len() == len {
            out.push(format!("seq {}", ops_tokens(cur)));
            return;
        }
        let mut alphabet: Vec<Op> = Vec::new();
        for n in NAMES_SMALL {
            alphabet.push(Op::Set(0, n.to_string(), 1));
            alphabet.push(Op::Set(0, n.to_string(), 2));
            alphabet.push(Op::Clear(0, n.to_string()));
            alphabet.push(Op::Check(0, n.to_string()));
            alphabet.push(Op::Watch(0, n.to_string()));
        }
        for w in 0..nwatch.min(2) {
            alphabet.push(Op::Next(w));
        }
        for op in alphabet {
            let nw = nwatch + matches!(op, Op::Watch(..)) as usize;
            cur.push(op);
            rec(len, cur, nw, out);
            cur.pop();
        }
    }
    rec(len, &mut Vec::new(), 0, out);
}

/// Every sequence of length `len` over {set a 1, set a 2, clear a, watch a, next 0, next 1}
/// (streams are polled only once they exist), followed by `next 0 next 0 next 1 next 1 check a`.
fn enumerate_one_name(len: usize, out: &mut Vec<String>) {
    fn rec(len: usize, cur: &mut Vec<Op>, nwatch: usize, out: &mut Vec<String>) {
        if cur.len() == len {
            let mut ops = cur.clone();
            for w in 0..nwatch.min(2) {
                ops.push(Op::Next(w));
                ops.push(Op::Next(w));
            }
            ops.push(Op::Check(0, "a".to_string()));
            out.push(format!("seq {}", ops_tokens(&ops)));
            return;
        }
        let a = "a".to_string();
        let mut alphabet: Vec<Op> = vec![Op::Set(0, a.clone(), 1), Op::Set(0, a.clone(), 2), Op::Clear(0, a.clone())];
        if nwatch < 2 {
            alphabet.push(Op::Watch(0, a.clone()));
        }
        for w in 0..nwatch.min(2) {
            alphabet.push(Op::Next(w));
        }
        for op in alphabet {
            let nw = nwatch + matches!(op, Op::Watch(..)) as usize;
            cur.push(op);
            rec(len, cur, nw, out);
            cur.pop();
        }
    }
    rec(len, &mut Vec::new(), 0, out);
}

pub fn generate(tier: &str, rng: &mut Rng) -> Vec<String> {
    let thorough = tier == "thorough";
    let mut out: Vec<String> = Vec::new();
    let a = "a".to_string();
    let e = "".to_string();
    // ---- corpus: the two unit-test sequences of tonic-health, and the sequences on which the
    // clauses of the property are decided
    let corpus: Vec<Vec<Op>> = vec![
        vec![],
        vec![Op::Check(0, e.clone()), Op::Check(0, a.clone())],
        vec![Op::Watch(0, e.clone()), Op::Next(0), Op::Next(0)],
        vec![Op::Watch(0, a.clone()), Op::Next(0)],
        // watch, coalescing, same-value set, clear after unseen value, end, re-registration
        vec![
            Op::Set(0, a.clone(), 0),
            Op::Watch(0, a.clone()),
            Op::Next(0),
            Op::Set(0, a.clone(), 2),
            Op::Next(0),
            Op::Set(1, a.clone(), 1),
            Op::Set(0, a.clone(), 2),
            Op::Next(0),
            Op::Next(0),
            Op::Set(0, a.clone(), 2),
            Op::Next(0),
            Op::Set(0, a.clone(), 1),
            Op::Clear(0, a.clone()),
            Op::Check(0, a.clone()),
            Op::Next(0),
            Op::Next(0),
            Op::Next(0),
            Op::Set(0, a.clone(), 1),
            Op::Next(0),
            Op::Watch(1, a.clone()),
            Op::Next(1),
            Op::Next(0),
        ],
        // subscribed but never polled before the clear: the unseen status, then end
        vec![Op::Set(0, a.clone(), 2), Op::Watch(0, a.clone()), Op::Clear(0, a.clone()), Op::Next(0), Op::Next(0)],
        // subscribed, update before the first poll: first report is the coalesced latest
        vec![Op::Set(0, a.clone(), 2), Op::Watch(0, a.clone()), Op::Set(0, a.clone(), 1), Op::Next(0), Op::Next(0)],
        // clearing the overall-health name
        vec![Op::Watch(0, e.clone()), Op::Clear(0, e.clone()), Op::Check(0, e.clone()), Op::Next(0), Op::Next(0), Op::Set(0, e.clone(), 2), Op::Check(0, e.clone()), Op::Next(0)],
        // set_serving / set_not_serving use NamedService::NAME
        vec![Op::Serving(0), Op::Check(0, SVC_NAME.to_string()), Op::Watch(0, SVC_NAME.to_string()), Op::NotServing(1), Op::Next(0), Op::Check(1, SVC_NAME.to_string())],
        // two watchers, one dropped; clear of another name leaves them alone
        vec![Op::Set(0, a.clone(), 1), Op::Watch(0, a.clone()), Op::Watch(1, a.clone()), Op::Next(0), Op::Drop(0), Op::Set(0, a.clone(), 2), Op::Clear(0, "A".to_string()), Op::Next(0), Op::Next(1), Op::Next(1), Op::Drop(0), Op::Next(7)],
        // near-miss names
        vec![Op::Set(0, a.clone(), 1), Op::Check(0, "A".to_string()), Op::Check(0, "a.".to_string()), Op::Check(0, "ab".to_string()), Op::Check(0, e.clone()), Op::Watch(0, "A".to_string()), Op::Next(0)],
    ];
    for c in &corpus {
        out.push(format!("seq {}", ops_tokens(c)));
    }
    // ---- structured: random op sequences, lengths biased to short and to long
    let nrand = if thorough { 120000 } else { 15000 };
    for i in 0..nrand {
        let len = match rng.below(6) {
            0 => rng.range(1, 4),
            1..=3 => rng.range(5, 16),
            4 => rng.range(17, 40),
            _ => rng.range(41, 90),
        } as usize;
        let small = i % 3 != 0;
        let names: &dyn Fn(&mut Rng) -> String = if small {
            &|r: &mut Rng| r.pick(&NAMES_SMALL).to_string()
        } else {
            &rand_name
        };
        let mut bias = Bias::new();
        let ops: Vec<Op> = (0..len).map(|_| rand_op(rng, &mut bias, names)).collect();
        out.push(format!("seq {}", ops_tokens(&ops)));
    }
    // ---- watcher-centred: one name, many watchers subscribed at different points, bursts of
    // updates between polls (coalescing), clear / re-register cycles
    let nrand = if thorough { 60000 } else { 6000 };
    for _ in 0..nrand {
        let n = if rng.chance(1, 3) { e.clone() } else { a.clone() };
        let mut ops = Vec::new();
        let mut nwatch = 0usize;
        let len = rng.range(6, 40) as usize;
        if !n.is_empty() && rng.chance(9, 10) {
            ops.push(Op::Set(0, n.clone(), rng.below(3) as u8));
        }
        if rng.chance(2, 3) {
            nwatch += 1;
            ops.push(Op::Watch(0, n.clone()));
        }
        for _ in 0..len {
            let h = rng.below(2) as usize;
            let op = match rng.below(16) {
                0..=4 => Op::Set(h, n.clone(), rng.below(3) as u8),
                5 => Op::Clear(h, n.clone()),
                6 => Op::Check(h, n.clone()),
                7..=8 => {
                    nwatch += 1;
                    Op::Watch(h, n.clone())
                }
                9 => Op::Set(h, if n.is_empty() { a.clone() } else { e.clone() }, rng.below(3) as u8),
                _ => Op::Next(if nwatch == 0 { 0 } else { rng.below(nwatch as u64) as usize }),
            };
            ops.push(op);
        }
        // final drain: every watcher is polled twice after updates have stopped
        for w in 0..nwatch {
            ops.push(Op::Next(w));
            ops.push(Op::Next(w));
        }
        ops.push(Op::Check(0, n.clone()));
        out.push(format!("seq {}", ops_tokens(&ops)));
    }
    // ---- small-scope exhaustive: two names, every sequence up to a length
    let maxlen = if thorough { 6 } else { 4 };
    for len in 1..=maxlen {
        enumerate(len, &mut out);
    }
    // ---- small-scope exhaustive, deep: one name, two streams, every sequence up to a length,
    // each followed by a drain of both streams and a Check (so every sequence also decides
    // "once updates stop the stream delivers the latest status and then stays silent / is over")
    let maxlen = if thorough { 8 } else { 6 };
    for len in 0..=maxlen {
        enumerate_one_name(len, &mut out);
    }
    // ---- parked watchers (tasks sitting in `message().await` while updates arrive)
    park_corpus(&mut out);
    gen_park(rng, if thorough { 60000 } else { 4000 }, &mut out);
    for len in 1..=(if thorough { 6 } else { 4 }) {
        enumerate_park(len, &mut out);
    }
    // ---- concurrent histories
    if thorough {
        gen_conc(rng, 40000, &mut out);
        gen_create_race(rng, 120000, &mut out);
    } else {
        gen_conc(rng, 4000, &mut out);
        gen_create_race(rng, 24000, &mut out);
    }
    // ---- audit aC18: handles, pairs, stacks, scale, near-miss names (c18_x.rs)
    x::generate(tier, rng, &mut out);
    out
}

/// Parked-watcher cases: one or two names, streams that are polled, then awaited; updates of the
/// same / a different status, clears, re-registrations and unrelated operations arrive while
/// tasks are parked.
fn gen_park(rng: &mut Rng, count: usize, out: &mut Vec<String>) {
    for _ in 0..count {
        let n = if rng.chance(1, 3) { "".to_string() } else { "a".to_string() };
        let other = if n.is_empty() { "a".to_string() } else { "".to_string() };
        let mut items: Vec<Item> = Vec::new();
        let mut nwatch = 0usize;
        if !n.is_empty() && rng.chance(9, 10) {
            items.push(Item::Op(Op::Set(0, n.clone(), rng.below(3) as u8)));
        }
        let len = rng.range(4, 24) as usize;
        for _ in 0..len {
            let h = rng.below(2) as usize;
            let slot = |rng: &mut Rng| if nwatch == 0 { 0 } else { rng.below(nwatch as u64) as usize };
            let it = match rng.below(20) {
                0..=4 => Item::Op(Op::Set(h, n.clone(), rng.below(3) as u8)),
                5 => Item::Op(Op::Clear(h, n.clone())),
                6 => Item::Op(Op::Check(h, n.clone())),
                7 => Item::Op(Op::Set(h, other.clone(), rng.below(3) as u8)),
                8 => Item::Op(if rng.chance(1, 2) { Op::Clear(h, other.clone()) } else { Op::Watch(h, other.clone()) }),
                9..=10 => Item::Op(Op::Watch(h, n.clone())),
                11..=12 => Item::Op(Op::Next(slot(rng))),
                13 => {
                    if rng.chance(1, 3) {
                        Item::Op(Op::Drop(slot(rng)))
                    } else {
                        Item::Op(Op::Next(slot(rng)))
                    }
                }
                _ => Item::Await(slot(rng)),
            };
            if matches!(it, Item::Op(Op::Watch(..))) {
                nwatch += 1;
            }
            items.push(it);
        }
        out.push(format!("park {}", items_tokens(&items)));
    }
}

/// Every item sequence of length `len` over {set a 1, set a 2, clear a, watch a (at most two),
/// next w, await w} after `set a 1`.
fn enumerate_park(len: usize, out: &mut Vec<String>) {
    fn rec(len: usize, cur: &mut Vec<Item>, nwatch: usize, out: &mut Vec<String>) {
        if cur.len() == len + 1 {
            out.push(format!("park {}", items_tokens(cur)));
            return;
        }
        let a = "a".to_string();
        let mut alphabet: Vec<Item> = vec![
            Item::Op(Op::Set(0, a.clone(), 1)),
            Item::Op(Op::Set(0, a.clone(), 2)),
            Item::Op(Op::Clear(0, a.clone())),
        ];
        if nwatch < 2 {
            alphabet.push(Item::Op(Op::Watch(0, a.clone())));
        }
        for w in 0..nwatch.min(2) {
            alphabet.push(Item::Op(Op::Next(w)));
            alphabet.push(Item::Await(w));
        }
        for it in alphabet {
            let nw = nwatch + matches!(it, Item::Op(Op::Watch(..))) as usize;
            cur.push(it);
            rec(len, cur, nw, out);
            cur.pop();
        }
    }
    rec(len, &mut vec![Item::Op(Op::Set(0, "a".to_string(), 1))], 0, out);
}

fn park_corpus(out: &mut Vec<String>) {
    let a = "a".to_string();
    let e = "".to_string();
    let set = |n: &String, s: u8| Item::Op(Op::Set(0, n.clone(), s));
    let corpus: Vec<Vec<Item>> = vec![
        // parked, then a different status: the task completes with it
        vec![set(&a, 2), Item::Op(Op::Watch(0, a.clone())), Item::Op(Op::Next(0)), Item::Await(0), set(&a, 1), Item::Op(Op::Next(0))],
        // parked, then the same status again: tonic-health reports it again
        vec![set(&a, 2), Item::Op(Op::Watch(0, a.clone())), Item::Op(Op::Next(0)), Item::Await(0), set(&a, 2), Item::Op(Op::Next(0))],
        // parked, then cleared: the task completes with end-of-stream
        vec![set(&a, 2), Item::Op(Op::Watch(0, a.clone())), Item::Op(Op::Next(0)), Item::Await(0), Item::Op(Op::Clear(1, a.clone())), Item::Await(0)],
        // await on a fresh stream delivers at once; the second await parks; unrelated operations do not wake it
        vec![Item::Op(Op::Watch(0, e.clone())), Item::Await(0), Item::Await(0), set(&a, 1), Item::Op(Op::Check(0, e.clone())), Item::Op(Op::Watch(1, a.clone())), Item::Op(Op::Clear(0, a.clone())), Item::Op(Op::Next(0)), Item::Await(0)],
        // two tasks parked on one name, a third on another name
        vec![set(&a, 1), Item::Op(Op::Watch(0, a.clone())), Item::Op(Op::Watch(1, a.clone())), Item::Op(Op::Watch(0, e.clone())), Item::Await(0), Item::Await(1), Item::Await(2), Item::Await(0), Item::Await(1), Item::Await(2), set(&a, 2), set(&e, 2), Item::Await(0), Item::Op(Op::Clear(0, a.clone())), Item::Op(Op::Clear(0, e.clone()))],
        // parked across a clear and a re-registration: the old stream ends, the new registration does not revive it
        vec![set(&a, 1), Item::Op(Op::Watch(0, a.clone())), Item::Await(0), Item::Await(0), Item::Op(Op::Clear(0, a.clone())), set(&a, 2), Item::Await(0), Item::Op(Op::Watch(0, a.clone())), Item::Await(1), Item::Await(1), set(&a, 0)],
        // giving up: the stream of a parked task is dropped
        vec![set(&a, 1), Item::Op(Op::Watch(0, a.clone())), Item::Await(0), Item::Await(0), Item::Op(Op::Drop(0)), set(&a, 2), Item::Await(0), Item::Op(Op::Next(0))],
        // set_serving / set_not_serving wake a task parked on NamedService::NAME
        vec![Item::Op(Op::Serving(0)), Item::Op(Op::Watch(0, SVC_NAME.to_string())), Item::Await(0), Item::Await(0), Item::Op(Op::NotServing(1)), Item::Await(0), Item::Op(Op::NotServing(0))],
        // a burst while parked: the task completes on the first update and sees the rest by polling
        vec![set(&a, 1), Item::Op(Op::Watch(0, a.clone())), Item::Await(0), Item::Await(0), set(&a, 2), set(&a, 0), set(&a, 1), Item::Op(Op::Next(0)), Item::Op(Op::Next(0))],
    ];
    for c in &corpus {
        out.push(format!("park {}", items_tokens(c)));
    }
}

/// First registration raced: no set-up, several writers publish the first status of the same
/// name at once while watchers try to subscribe — where a non-atomic look-up-then-insert in the
/// reporter would replace a channel somebody already watches.
fn gen_create_race(rng: &mut Rng, count: usize, out: &mut Vec<String>) {
    for _ in 0..count {
        let n = "a".to_string();
        let nwriters = rng.range(2, 4) as usize;
        let nwatchers = rng.range(1, 3) as usize;
        let mut programs: Vec<String> = vec![ops_tokens(&[])];
        for _ in 0..nwriters {
            let mut ops: Vec<Op> = Vec::new();
            for _ in 0..rng.range(1, 3) {
                ops.push(Op::Set(0, n.clone(), rng.below(3) as u8));
            }
            programs.push(ops_tokens(&ops));
        }
        for _ in 0..nwatchers {
            let mut ops: Vec<Op> = Vec::new();
            // retry the subscription a few times: it is refused while the name is unregistered
            for _ in 0..rng.range(2, 4) {
                ops.push(Op::Watch(0, n.clone()));
                ops.push(Op::Next(0));
            }
            ops.push(Op::Next(0));
            programs.push(ops_tokens(&ops));
        }
        out.push(format!("conc {} {}", rng.below(1 << 30), programs.join(" | ")));
    }
}

fn gen_conc(rng: &mut Rng, count: usize, out: &mut Vec<String>) {
    for _ in 0..count {
        let n = if rng.chance(1, 4) { "".to_string() } else { "a".to_string() };
        // set-up (runs alone first): usually registers the name, sometimes leaves it unset
        let mut setup: Vec<Op> = Vec::new();
        if !n.is_empty() && rng.chance(5, 6) {
            setup.push(Op::Set(0, n.clone(), rng.below(3) as u8));
        }
        let nthreads = rng.range(2, 4) as usize;
        let mut programs: Vec<String> = vec![ops_tokens(&setup)];
        let big = rng.chance(1, 3);
        for t in 0..nthreads {
            let len = if big { rng.range(4, 8) } else { rng.range(2, 5) } as usize;
            let mut ops: Vec<Op> = Vec::new();
            // task roles: 0 = writer, 1 = watcher, others drawn
            let role = if t == 0 { 0 } else if t == 1 { 1 } else { *rng.pick(&[0u64, 0, 1, 2, 3]) };
            match role {
                0 => {
                    for _ in 0..len {
                        ops.push(match rng.below(12) {
                            0 => Op::Clear(0, n.clone()),
                            _ => Op::Set(0, n.clone(), rng.below(3) as u8),
                        });
                    }
                }
                1 | 3 => {
                    ops.push(Op::Watch(0, n.clone()));
                    for _ in 0..len {
                        ops.push(Op::Next(0));
                    }
                    if rng.chance(1, 5) {
                        ops.push(Op::Watch(0, n.clone()));
                        ops.push(Op::Next(0));
                    }
                }
                _ => {
                    for _ in 0..len {
                        ops.push(match rng.below(5) {
                            0 => Op::Set(0, n.clone(), rng.below(3) as u8),
                            1 => Op::Check(0, if n.is_empty() { "a".to_string() } else { "".to_string() }),
                            _ => Op::Check(0, n.clone()),
                        });
                    }
                }
            }
            programs.push(ops_tokens(&ops));
        }
        out.push(format!("conc {} {}", rng.below(1 << 30), programs.join(" | ")));
    }
}
