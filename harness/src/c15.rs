//! C15 — TLS channels and servers authenticate the peer and insist on HTTP/2.
//!
//! One case = one configuration of the property's matrix (plus extension values), run through
//! REAL rustls handshakes: a tonic `Endpoint` (`tls_config` + `connect_with_connector`) against a
//! tonic `Server` (`tls_config` + `serve_with_incoming`) — or, for the ALPN variants tonic's own
//! acceptor cannot produce, against a hand-rolled tokio-rustls acceptor that hands the accepted
//! TLS streams to a tonic server.  Transport is a loopback TCP socket (127.0.0.1, port 0) or an
//! in-memory `tokio::io::duplex`.
//!
//! case line:
//!   `tls <client> [| <client>]… ; <servercert> <alpn> <srvops> <transport>`
//!   `<client>` = `<scheme> <urihost> <ops…>`; several clients share the one server instance
//!   (one after the other, or concurrently with `-par`), outcomes are reported per client.
//!   `<transport>` = `tcp|duplex` + any of `-lazy` (connect_with_connector_lazy, failed call
//!   retried once), `-x2` (each client connects twice from the same Endpoint, so the second TLS
//!   session resumes), `-par`, `-native` (`Endpoint::connect()` with tonic's own HttpConnector to a
//!   recording loopback proxy in front of the server; URI host must be `ip`), `-cto` (a
//!   connect_timeout is set, so the connector runs inside a TimeoutConnector).
//!   A client may refer to EARLIER clients of the case (index from 0), which makes the case one
//!   program in which configuration / endpoint VALUES are shared:
//!   `<scheme> <urihost> ^j <ops…>` — the configuration is `cfg_j.clone().<ops>` (a clone of client
//!   j's configuration value, as it was handed — by clone — to j's endpoint) instead of
//!   `ClientTlsConfig::new().<ops>`; `<scheme> <urihost> @k` — the endpoint is `ep_k.clone()`,
//!   connected as it is; `<scheme> <urihost> @k [^j] <ops…>` — `ep_k.clone().tls_config(<cfg>)`
//!   (scheme and host tokens must be those of client k); `cfg - [^j] <ops…>` — only defines a
//!   configuration value for later clients to clone (observed group `cfg-only`).  Sequentially
//!   each client's configuration is derived right before it is used (so: used, then modified,
//!   then used again); with `-par` all configurations and endpoints are built first.
//!   `<scheme> <urihost> @k new` — `Endpoint::new(ep_k.clone())`: what a generated `connect(dst)` does
//!   when `dst` already is an `Endpoint` (audit aC15; as found, 0.13.0 replaced the caller's TLS
//!   configuration there — fixed).  More `<transport>` flags (audit aC15): `-c2` two calls on one
//!   channel, `-kn` every other `Endpoint` builder method called after `tls_config`, `-bal` (with
//!   `-native`) a balanced channel over the endpoint (`Channel::balance_list` for even client
//!   indices, `Channel::balance_channel` for odd ones).  The `Endpoint` constructor (`from_shared`,
//!   `from_str`, `TryFrom<String>`, `From<Uri>`, `Channel::from_shared`; for `auto` the `dst` type
//!   handed to `Endpoint::new`) is rotated deterministically per case.
//! `<ops…>` is the sequence of `ClientTlsConfig` builder calls, in order (may be empty):
//!   `ca:<ca1|ca2|ica1|junk|broken>`  `cas:<a>+<b>`  `ta:<ca>`  `tas:<a>+<b>` (trust anchors)
//!   `dom:<good|bad|other|ip|invalid>`  `id:<c1|c2|c1chain|brokencert|nokey>`
//!   `h2:<0|1>` (assume_http2)  `roots` (with_enabled_roots)  `kl` (use_key_log)
//! or the single token `notls` (`Endpoint::from_shared`, no `tls_config` call) or `auto`
//! (`Endpoint::new`, the entry point generated clients use).
//! `<alpn>`: `h2` = tonic's own `Server::tls_config`; `plain` = tonic server without TLS;
//! `none|http11|h2first|h2last|h2only` = hand-rolled tokio-rustls acceptor with that ALPN list.
//! `<srvops>`: `-` or `+`-joined `ServerTlsConfig` calls after `identity`: `ca:<ca>` `opt:<0|1>` `ico:<0|1>` `kl`
//!   (use_key_log), and among them `Server`-level builder calls around `Server::tls_config`: `pre` (an
//!   earlier `tls_config` with a configuration WITHOUT client authentication, which the case's own call
//!   must replace), `lay0` / `lay` (`Server::layer` before / after `tls_config`; `lay` is a tonic
//!   interceptor layer, so the handler sits behind an `InterceptedService`).
//!
//! Also `srvcfg <op>+<op>…`: `Server::builder().tls_config(..)` alone (`ok|err:<class>|panic`).
//!
//! `tlsf <feat> <store> <rest of a tls case>`: the same scenario in a build of tonic that has root-store
//! features compiled in — which this harness (tls-ring only) has not.  `<feat>` = `n` (tls-ring +
//! tls-native-roots) or `nw` (+ tls-webpki-roots, with a `webpki-roots` crate whose only anchor is the
//! test CA `ca2`); `<store>` = what the "platform" store holds for this case (`SSL_CERT_FILE`, which
//! rustls-native-certs honours): `ca1|ca2|ca1+ca2|empty|junk|missing`.  Extra client ops there:
//! `nroots` (with_native_roots), `wroots` (with_webpki_roots, `nw` only).  This file is compiled a
//! second and third time into the side crates `../harness_c15n`, `../harness_c15nw` (which call
//! `install_side`); the main harness forwards `tlsf` cases to those binaries over a pipe (one
//! process per side crate per run, one case line in, one observed line out).
//!
//! observed line (one group per client, joined by ` | `):
//!   `res=<ok|fail:CLASS> cfg=<ok|err:…> h=<handler runs> peer=<…> ext=<…> plain=<0|1> dial=<0|1>`
use crate::common::*;
// `resume`: two servers in one process, a client that offers the second the session of the first (seed C15g)
#[path = "c15_r.rs"]
mod r;
use std::future::Future;
use std::io;
use std::pin::Pin;
use std::sync::atomic::{AtomicUsize, Ordering};
use std::sync::{Arc, Mutex};
use std::task::{Context, Poll};
use std::time::Duration;
use tokio::io::{AsyncRead, AsyncWrite, ReadBuf};
use tokio_rustls::rustls;
use tokio_rustls::rustls::pki_types::{pem::PemObject, CertificateDer, PrivateKeyDer};
use tonic::transport::server::{Connected, TcpConnectInfo, TlsConnectInfo};
use tonic::transport::{Certificate, ClientTlsConfig, Endpoint, Identity, Server, ServerTlsConfig};

macro_rules! pem {
    ($n:literal) => {
        include_str!(concat!("../certs/", $n, ".pem"))
    };
}

fn cert_pem(name: &str) -> Option<&'static str> {
    Some(match name {
        "ca1" => pem!("ca1"),
        "ca2" => pem!("ca2"),
        "ica1" => pem!("ica1"),
        "s1good" => pem!("s1good"),
        "s1bad" => pem!("s1bad"),
        "s2good" => pem!("s2good"),
        "s1ip" => pem!("s1ip"),
        "c1" => pem!("c1"),
        "c2" => pem!("c2"),
        "c1chain" => pem!("c1chain"),
        "junk" => "-----BEGIN NOTHING-----\nAAAA\n-----END NOTHING-----\n",
        "broken" | "brokencert" => "-----BEGIN CERTIFICATE-----\n!!!! not base64 !!!!\n-----END CERTIFICATE-----\n",
        "nokey" => pem!("c1"),
        _ => return None,
    })
}

fn key_pem(name: &str) -> Option<&'static str> {
    Some(match name {
        "s1good" => pem!("s1good.key"),
        "s1bad" => pem!("s1bad.key"),
        "s2good" => pem!("s2good.key"),
        "s1ip" => pem!("s1ip.key"),
        "c1" => pem!("c1.key"),
        "c2" => pem!("c2.key"),
        "c1chain" => pem!("c1chain.key"),
        "brokencert" => pem!("c1.key"),
        "nokey" => "-----BEGIN NOTHING-----\nAAAA\n-----END NOTHING-----\n",
        _ => return None,
    })
}

fn ders(pem: &str) -> Vec<Vec<u8>> {
    CertificateDer::pem_slice_iter(pem.as_bytes())
        .filter_map(|c| c.ok())
        .map(|c| c.as_ref().to_vec())
        .collect()
}

fn host_of(tok: &str) -> Option<&'static str> {
    Some(match tok {
        "good" => "good.test",
        "bad" => "bad.test",
        "other" => "other.test",
        "ip" => "127.0.0.1",
        "invalid" => "not a name!",
        _ => return None,
    })
}

// ------------------------------------------------------------------------------------------
// byte tap: everything the client side writes to / reads from the wire

#[derive(Default)]
struct TapLog {
    written: Vec<u8>,
    /// offset in `written` at which the most recent connection starts
    conn_start: usize,
    /// recording proxy only (`-native`): connections accepted / whose client side has been read to its end
    accepted: usize,
    closed: usize,
}

/// The client's view of the wire for failure classification: the tap log and whether it is filled
/// in by the recording proxy (asynchronously) or by the tapped IO itself (synchronously).
#[derive(Clone)]
struct Wire {
    log: Arc<Mutex<TapLog>>,
    native: bool,
}

impl Wire {
    fn now(&self) -> WirePos {
        let l = self.log.lock().unwrap();
        wire_pos(&l.written[l.conn_start.min(l.written.len())..])
    }
    /// Position on the most recent connection once everything the client wrote is in the log.
    /// The tapped IO logs a write before the client can go on; the proxy logs it when its own task
    /// gets to read it, so there we wait until it has read that connection to its end (a client
    /// whose connect failed has dropped the socket) — or the answer can no longer change.
    async fn settled(&self) -> WirePos {
        if !self.native {
            return self.now();
        }
        for _ in 0..3000 {
            let p = self.now();
            if p == WirePos::Finished {
                return p;
            }
            {
                let l = self.log.lock().unwrap();
                if l.accepted > 0 && l.closed >= l.accepted {
                    drop(l);
                    return self.now();
                }
            }
            tokio::time::sleep(Duration::from_millis(1)).await;
        }
        self.now()
    }
}

struct Tap<IO> {
    inner: IO,
    log: Arc<Mutex<TapLog>>,
}

impl<IO: AsyncRead + Unpin> AsyncRead for Tap<IO> {
    fn poll_read(mut self: Pin<&mut Self>, cx: &mut Context<'_>, buf: &mut ReadBuf<'_>) -> Poll<io::Result<()>> {
        Pin::new(&mut self.inner).poll_read(cx, buf)
    }
}

impl<IO: AsyncWrite + Unpin> AsyncWrite for Tap<IO> {
    fn poll_write(mut self: Pin<&mut Self>, cx: &mut Context<'_>, buf: &[u8]) -> Poll<io::Result<usize>> {
        let r = Pin::new(&mut self.inner).poll_write(cx, buf);
        if let Poll::Ready(Ok(n)) = &r {
            let mut l = self.log.lock().unwrap();
            if l.written.len() < (1 << 20) {
                l.written.extend_from_slice(&buf[..*n]);
            }
        }
        r
    }
    fn poll_flush(mut self: Pin<&mut Self>, cx: &mut Context<'_>) -> Poll<io::Result<()>> {
        Pin::new(&mut self.inner).poll_flush(cx)
    }
    fn poll_shutdown(mut self: Pin<&mut Self>, cx: &mut Context<'_>) -> Poll<io::Result<()>> {
        Pin::new(&mut self.inner).poll_shutdown(cx)
    }
}

fn contains(hay: &[u8], needle: &[u8]) -> bool {
    !needle.is_empty() && hay.windows(needle.len()).any(|w| w == needle)
}

const MARKER: &str = "VERIF-C15-PLAINTEXT-MARKER-0123456789";
const H2_PREFACE: &[u8] = b"PRI * HTTP/2.0";

// ------------------------------------------------------------------------------------------
// the service: one unary method; records what the handler saw

/// What the handlers saw: (client index taken from the request payload, peer-cert rendering).
#[derive(Default)]
struct Obs {
    runs: Mutex<Vec<(usize, String)>>,
}

trait ExtCerts {
    fn ext_certs(req: &tonic::Request<String>) -> Option<Option<Vec<Vec<u8>>>>;
}
impl ExtCerts for tokio::net::TcpStream {
    fn ext_certs(req: &tonic::Request<String>) -> Option<Option<Vec<Vec<u8>>>> {
        req.extensions()
            .get::<TlsConnectInfo<TcpConnectInfo>>()
            .map(|i| i.peer_certs().map(|v| v.iter().map(|c| c.as_ref().to_vec()).collect()))
    }
}
impl ExtCerts for tokio::io::DuplexStream {
    fn ext_certs(req: &tonic::Request<String>) -> Option<Option<Vec<Vec<u8>>>> {
        req.extensions()
            .get::<TlsConnectInfo<()>>()
            .map(|i| i.peer_certs().map(|v| v.iter().map(|c| c.as_ref().to_vec()).collect()))
    }
}

fn render_certs(seen: Option<&Vec<Vec<u8>>>, presented: &[Vec<u8>]) -> String {
    match seen {
        None => "none".into(),
        Some(v) => format!("{}:{}", v.len(), if v.as_slice() == presented { "eq" } else { "ne" }),
    }
}

struct Svc<IO> {
    obs: Arc<Obs>,
    /// per client index: the chain that client is configured to present (DER)
    presented: Arc<Vec<Vec<Vec<u8>>>>,
    _io: std::marker::PhantomData<fn(IO)>,
}
impl<IO> Clone for Svc<IO> {
    fn clone(&self) -> Self {
        Svc { obs: self.obs.clone(), presented: self.presented.clone(), _io: Default::default() }
    }
}
impl<IO> tonic::server::NamedService for Svc<IO> {
    const NAME: &'static str = "verif.Tls";
}

fn payload(idx: usize) -> String {
    format!("{}#{}", MARKER, idx)
}

struct Handler<IO>(Svc<IO>);
impl<IO: ExtCerts> tonic::server::UnaryService<String> for Handler<IO> {
    type Response = String;
    type Future = std::future::Ready<Result<tonic::Response<String>, tonic::Status>>;
    fn call(&mut self, req: tonic::Request<String>) -> Self::Future {
        let s = &self.0;
        let idx = req.get_ref().rsplit('#').next().and_then(|x| x.parse::<usize>().ok()).unwrap_or(usize::MAX);
        let empty = Vec::new();
        let presented = s.presented.get(idx).unwrap_or(&empty);
        let api = req.peer_certs().map(|v| v.iter().map(|c| c.as_ref().to_vec()).collect::<Vec<_>>());
        let ext = IO::ext_certs(&req);
        let ext_s = match &ext {
            None => "absent".to_string(),
            Some(c) => render_certs(c.as_ref(), presented),
        };
        s.obs
            .runs
            .lock()
            .unwrap()
            .push((idx, format!("peer={} ext={}", render_certs(api.as_ref(), presented), ext_s)));
        std::future::ready(Ok(tonic::Response::new(format!("echo:{}", req.get_ref()))))
    }
}

impl<IO: ExtCerts + 'static> tower_service::Service<http::Request<tonic::body::Body>> for Svc<IO> {
    type Response = http::Response<tonic::body::Body>;
    type Error = std::convert::Infallible;
    type Future = Pin<Box<dyn Future<Output = Result<Self::Response, Self::Error>> + Send>>;
    fn poll_ready(&mut self, _: &mut Context<'_>) -> Poll<Result<(), Self::Error>> {
        Poll::Ready(Ok(()))
    }
    fn call(&mut self, req: http::Request<tonic::body::Body>) -> Self::Future {
        let me = self.clone();
        Box::pin(async move {
            let mut grpc = tonic::server::Grpc::new(tonic::codec::ProstCodec::<String, String>::default());
            Ok(grpc.unary(Handler(me), req).await)
        })
    }
}

// ------------------------------------------------------------------------------------------
// case

#[derive(Debug, Clone)]
struct ClientSpec {
    scheme: String,
    urihost: String,
    /// the client's own builder calls (after `@k` / `^j`)
    ops: Vec<String>,
    /// `@k`: start from a clone of client k's endpoint value
    ep_ref: Option<usize>,
    /// `^j`: start from a clone of client j's configuration value
    cfg_ref: Option<usize>,
    /// `cfg - …`: defines a configuration only
    cfg_only: bool,
    /// bare `@k`: no `tls_config` call of its own
    same: bool,
    /// `@k new`: `Endpoint::new(ep_k.clone())` — what a generated `connect(dst)` does with a `dst`
    /// that already is an `Endpoint`
    renew: bool,
    /// everything this client's configuration was told, syntactically (its ancestors' calls, then
    /// its own) — used only to know which identity the client is meant to present
    told: Vec<String>,
}

#[derive(Debug, Clone)]
struct Case {
    clients: Vec<ClientSpec>,
    servercert: String,
    alpn: String,
    sops: Vec<String>,
    /// `tcp` | `duplex`
    base: String,
    /// `-lazy`: connect_with_connector_lazy, a failed call is retried once
    lazy: bool,
    /// `-x2`: every client connects twice from the same Endpoint (the second handshake resumes)
    twice: bool,
    /// `-par`: all clients run concurrently against the one server
    par: bool,
    /// `-native`: `Endpoint::connect()` / `connect_lazy()` with tonic's own HttpConnector to
    /// `127.0.0.1:<port>` of a recording loopback proxy in front of the server (URI host `ip`)
    native: bool,
    /// `-cto`: a connect_timeout is set (the connector is wrapped in a TimeoutConnector)
    cto: bool,
    /// `-c2`: two calls, one after the other, on the same channel (= the same connection)
    calls2: bool,
    /// `-bal` (with `-native`): the channel is a balanced one over this single endpoint —
    /// `Channel::balance_list` (even client index) / `Channel::balance_channel` (odd)
    bal: bool,
    /// `-kn`: every other `Endpoint` builder method is called after `tls_config`
    knobs: bool,
}

impl ClientSpec {
    /// does this client define a `ClientTlsConfig` value of its own?
    fn has_cfg(&self) -> bool {
        !self.same && !self.renew && !(self.ops.len() == 1 && (self.ops[0] == "notls" || self.ops[0] == "auto"))
    }
}

fn parse(case: &str) -> Option<Case> {
    let t: Vec<&str> = case.split(' ').filter(|s| !s.is_empty()).collect();
    if t.len() < 8 || t[0] != "tls" {
        return None;
    }
    let semi = t.iter().position(|x| *x == ";")?;
    if semi < 3 || t.len() != semi + 5 {
        return None;
    }
    let mut clients: Vec<ClientSpec> = Vec::new();
    for part in t[1..semi].split(|x| *x == "|") {
        if part.len() < 2 {
            return None;
        }
        let cfg_only = part[0] == "cfg";
        if cfg_only {
            if part[1] != "-" {
                return None;
            }
        } else if !matches!(part[0], "https" | "http" | "HTTPS" | "https+ohttp" | "http+ohttps" | "https+oBhttps" | "https+oChttps") {
            return None;
        }
        let idx = clients.len();
        let mut rest = &part[2..];
        let mut ep_ref = None;
        let mut cfg_ref = None;
        if let Some(k) = rest.first().and_then(|x| x.strip_prefix('@')) {
            let k: usize = k.parse().ok()?;
            // a clone of an earlier client's endpoint, for the same URI
            if cfg_only || k >= idx || clients[k].cfg_only || clients[k].scheme != part[0] || clients[k].urihost != part[1] {
                return None;
            }
            ep_ref = Some(k);
            rest = &rest[1..];
        }
        let same = ep_ref.is_some() && rest.is_empty();
        let renew = ep_ref.is_some() && rest.len() == 1 && rest[0] == "new";
        if renew {
            rest = &rest[1..];
        }
        if let Some(j) = rest.first().and_then(|x| x.strip_prefix('^')) {
            let j: usize = j.parse().ok()?;
            // a clone of an earlier client's configuration: that client must have defined one
            if j >= idx || !clients[j].has_cfg() {
                return None;
            }
            cfg_ref = Some(j);
            rest = &rest[1..];
        }
        let ops: Vec<String> = rest.iter().map(|s| s.to_string()).collect();
        let unconfigured = ops.len() == 1 && (ops[0] == "notls" || ops[0] == "auto");
        if unconfigured && (ep_ref.is_some() || cfg_ref.is_some() || cfg_only) {
            return None;
        }
        let mut told: Vec<String> = match (cfg_ref, ep_ref) {
            (Some(j), _) => clients[j].told.clone(),
            (None, Some(k)) if same || renew => clients[k].told.clone(),
            _ => Vec::new(),
        };
        told.extend(ops.iter().cloned());
        clients.push(ClientSpec { scheme: part[0].into(), urihost: part[1].into(), ops, ep_ref, cfg_ref, cfg_only, same, renew, told });
    }
    let mut tr = t[semi + 4].split('-');
    let base = tr.next()?.to_string();
    if base != "tcp" && base != "duplex" {
        return None;
    }
    let (mut lazy, mut twice, mut par, mut native, mut cto) = (false, false, false, false, false);
    let (mut calls2, mut bal, mut knobs) = (false, false, false);
    for f in tr {
        match f {
            "lazy" => lazy = true,
            "x2" => twice = true,
            "par" => par = true,
            "native" => native = true,
            "cto" => cto = true,
            "c2" => calls2 = true,
            "bal" => bal = true,
            "kn" => knobs = true,
            _ => return None,
        }
    }
    // `-native`: every client talks to a recording proxy of its own, whose port is part of its URI
    if native && clients.iter().any(|c| (!c.cfg_only && c.urihost != "ip") || c.ep_ref.is_some()) {
        return None;
    }
    if bal && !native {
        return None;
    }
    Some(Case {
        clients,
        servercert: t[semi + 1].into(),
        alpn: t[semi + 2].into(),
        sops: if t[semi + 3] == "-" { Vec::new() } else { t[semi + 3].split('+').map(|s| s.to_string()).collect() },
        base,
        lazy,
        twice,
        par,
        native,
        cto,
        calls2,
        bal,
        knobs,
    })
}

/// Applies the builder calls in order; returns the config (None = `notls`) and the identity the
/// client ends up presenting as far as the *harness* can tell syntactically (last `id:` op; the
/// model decides what survives `roots`).
pub fn anchor(name: &str) -> Option<rustls::pki_types::TrustAnchor<'static>> {
    // RootCertStore::add does the webpki conversion; `roots` is its public field
    let mut st = rustls::RootCertStore::empty();
    for d in ders(cert_pem(name)?) {
        st.add(CertificateDer::from(d)).ok()?;
    }
    st.roots.into_iter().next()
}

// ------------------------------------------------------------------------------------------
// builds of tonic with root-store features: the side crates

/// What a side crate tells this module about the build it is: its feature tag and the
/// `ClientTlsConfig` methods that exist only there.
#[allow(dead_code)]
pub struct SideBuild {
    pub feat: &'static str,
    pub ext_op: fn(ClientTlsConfig, &str) -> Option<ClientTlsConfig>,
}

static SIDE: std::sync::OnceLock<(SideBuild, std::path::PathBuf)> = std::sync::OnceLock::new();

const STORES: [(&str, &[&str]); 5] =
    [("ca1", &["ca1"]), ("ca2", &["ca2"]), ("ca1+ca2", &["ca1", "ca2"]), ("empty", &[]), ("junk", &["junk"])];

/// Called once by a side crate's `main`: writes the "platform certificate store" variants into a
/// private directory and makes sure nothing else feeds rustls-native-certs.
#[allow(dead_code)]
pub fn install_side(b: SideBuild) -> io::Result<()> {
    let dir = std::env::temp_dir().join(format!("verif-c15{}-{}", b.feat, std::process::id()));
    std::fs::create_dir_all(&dir)?;
    for (name, certs) in STORES {
        let body: String = certs.iter().map(|c| cert_pem(c).unwrap_or("")).collect();
        std::fs::write(dir.join(format!("{}.pem", name)), body)?;
    }
    std::env::remove_var("SSL_CERT_DIR");
    let _ = SIDE.set((b, dir));
    Ok(())
}

#[allow(dead_code)]
pub fn uninstall_side() {
    if let Some((_, dir)) = SIDE.get() {
        let _ = std::fs::remove_dir_all(dir);
    }
}

/// `tlsf <feat> <store> <rest>` inside the side binary: point the platform store at `<store>` and
/// run `<rest>` as a `tls` case.
fn execute_side_local(b: &SideBuild, dir: &std::path::Path, feat: &str, store: &str, rest: &str) -> String {
    if feat != b.feat {
        return "bad-case".into();
    }
    let file = match store {
        "missing" => dir.join("no-such-file.pem"),
        s if STORES.iter().any(|(n, _)| *n == s) => dir.join(format!("{}.pem", s)),
        _ => return "bad-case".into(),
    };
    // one case at a time in this process (the caller is the stdin loop)
    std::env::set_var("SSL_CERT_FILE", &file);
    execute(&format!("tls {}", rest))
}

struct SideProc {
    _child: std::process::Child,
    stdin: std::process::ChildStdin,
    stdout: std::io::BufReader<std::process::ChildStdout>,
}

fn side_binary(feat: &str) -> Option<std::path::PathBuf> {
    let rel = format!("harness_c15{0}/target/debug/c15{0}", feat);
    let mut roots: Vec<std::path::PathBuf> = Vec::new();
    if let Ok(exe) = std::env::current_exe() {
        // <root>/harness/target/debug/harness
        if let Some(r) = exe.ancestors().nth(4) {
            roots.push(r.to_path_buf());
        }
    }
    roots.push(std::path::Path::new(env!("CARGO_MANIFEST_DIR")).join(".."));
    roots.into_iter().map(|r| r.join(&rel)).find(|p| p.is_file())
}

fn spawn_side(feat: &str) -> Option<SideProc> {
    use std::process::{Command, Stdio};
    let mut child = Command::new(side_binary(feat)?)
        .stdin(Stdio::piped())
        .stdout(Stdio::piped())
        .stderr(Stdio::null())
        .spawn()
        .ok()?;
    let stdin = child.stdin.take()?;
    let stdout = std::io::BufReader::new(child.stdout.take()?);
    Some(SideProc { _child: child, stdin, stdout })
}

/// Forward one `tlsf` case to the side binary of its feature set: one long-lived process per
/// binary, started on first use; a case line in, an observed line out.
fn execute_side_remote(feat: &str, case: &str) -> String {
    use std::io::{BufRead, Write};
    static PROCS: Mutex<[Option<SideProc>; 2]> = Mutex::new([None, None]);
    let slot = match feat {
        "n" => 0,
        "nw" => 1,
        _ => return "bad-case".into(),
    };
    let mut procs = PROCS.lock().unwrap_or_else(|e| e.into_inner());
    for _attempt in 0..2 {
        if procs[slot].is_none() {
            procs[slot] = spawn_side(feat);
        }
        let Some(p) = procs[slot].as_mut() else { return "side-binary-missing".into() };
        let mut line = String::new();
        let ok = writeln!(p.stdin, "{}", case).is_ok()
            && p.stdin.flush().is_ok()
            && matches!(p.stdout.read_line(&mut line), Ok(n) if n > 0);
        if ok {
            return line.trim_end().to_string();
        }
        // the process died (a crash is not a `panic` of the case: those are caught over there)
        procs[slot] = None;
    }
    "side-process-died".into()
}

fn execute_tlsf(case: &str) -> String {
    let mut it = case.splitn(4, ' ');
    let (Some("tlsf"), Some(feat), Some(store), Some(rest)) = (it.next(), it.next(), it.next(), it.next()) else {
        return "bad-case".into();
    };
    match SIDE.get() {
        Some((b, dir)) => execute_side_local(b, dir, feat, store, rest),
        None => execute_side_remote(feat, case),
    }
}

/// `base.<ops>`: the builder calls in order, each consuming the value and returning the next.
fn apply_client_ops(base: ClientTlsConfig, ops: &[String]) -> Option<ClientTlsConfig> {
    let mut cfg = base;
    for op in ops {
        if let Some(n) = op.strip_prefix("ca:") {
            cfg = cfg.ca_certificate(Certificate::from_pem(cert_pem(n)?));
        } else if let Some(ns) = op.strip_prefix("cas:") {
            let mut v = Vec::new();
            for n in ns.split('+') {
                v.push(Certificate::from_pem(cert_pem(n)?));
            }
            cfg = cfg.ca_certificates(v);
        } else if let Some(n) = op.strip_prefix("ta:") {
            cfg = cfg.trust_anchor(anchor(n)?);
        } else if let Some(ns) = op.strip_prefix("tas:") {
            let mut v = Vec::new();
            for n in ns.split('+') {
                v.push(anchor(n)?);
            }
            cfg = cfg.trust_anchors(v);
        } else if let Some(d) = op.strip_prefix("dom:") {
            cfg = cfg.domain_name(host_of(d)?);
        } else if let Some(i) = op.strip_prefix("id:") {
            cfg = cfg.identity(Identity::from_pem(cert_pem(i)?, key_pem(i)?));
        } else if let Some(b) = op.strip_prefix("h2:") {
            cfg = cfg.assume_http2(b == "1");
        } else if op == "roots" {
            cfg = cfg.with_enabled_roots();
        } else if op == "kl" {
            // SSLKEYLOGFILE is not set in the harness' environment: the key log writes nothing
            cfg = cfg.use_key_log();
        } else if let Some((b, _)) = SIDE.get() {
            // methods that exist only with the root-store features compiled in
            cfg = (b.ext_op)(cfg, op)?;
        } else {
            return None;
        }
    }
    Some(cfg)
}

fn rustls_server_config(c: &Case) -> Result<rustls::ServerConfig, String> {
    let provider = Arc::new(rustls::crypto::ring::default_provider());
    let builder = rustls::ServerConfig::builder_with_provider(provider.clone())
        .with_safe_default_protocol_versions()
        .map_err(|e| e.to_string())?;
    let mut ca: Option<&str> = None;
    let mut optional = false;
    for op in &c.sops {
        if let Some(n) = op.strip_prefix("ca:") {
            ca = Some(n);
        } else if let Some(b) = op.strip_prefix("opt:") {
            optional = b == "1";
        }
    }
    let builder = match ca {
        None => builder.with_no_client_auth(),
        Some(n) => {
            let mut roots = rustls::RootCertStore::empty();
            for d in ders(cert_pem(n).ok_or("ca")?) {
                roots.add(CertificateDer::from(d)).map_err(|e| e.to_string())?;
            }
            let vb = rustls::server::WebPkiClientVerifier::builder_with_provider(roots.into(), provider);
            let vb = if optional { vb.allow_unauthenticated() } else { vb };
            builder.with_client_cert_verifier(vb.build().map_err(|e| e.to_string())?)
        }
    };
    let chain: Vec<CertificateDer<'static>> =
        ders(cert_pem(&c.servercert).ok_or("cert")?).into_iter().map(CertificateDer::from).collect();
    let key = PrivateKeyDer::from_pem_slice(key_pem(&c.servercert).ok_or("key")?.as_bytes()).map_err(|e| e.to_string())?;
    let mut cfg = builder.with_single_cert(chain, key).map_err(|e| e.to_string())?;
    match c.alpn.as_str() {
        "none" => {}
        "http11" => cfg.alpn_protocols.push(b"http/1.1".to_vec()),
        "h2first" => {
            cfg.alpn_protocols.push(b"h2".to_vec());
            cfg.alpn_protocols.push(b"http/1.1".to_vec());
        }
        "h2last" => {
            cfg.alpn_protocols.push(b"http/1.1".to_vec());
            cfg.alpn_protocols.push(b"h2".to_vec());
        }
        "h2only" => cfg.alpn_protocols.push(b"h2".to_vec()),
        _ => return Err("alpn".into()),
    }
    Ok(cfg)
}

/// How far the client got on the wire, read off the bytes it wrote (TLS record layer, RFC 8446
/// §5.1: `type(1) version(2) length(2) fragment`). In a TLS 1.3 handshake the client writes its
/// ClientHello in the clear (type 22), possibly a dummy ChangeCipherSpec (type 20), and after it
/// has judged the server's certificate either an encrypted alert (2 + 1 + 16 = 19 bytes) or its
/// Finished flight (at least 4 + 32 + 1 + 16 = 53 bytes), both with outer type 23.
#[derive(Clone, Copy, PartialEq, Eq, Debug)]
enum WirePos {
    /// nothing that looks like TLS was written
    NoTls,
    /// a ClientHello went out, the client's Finished did not
    Hello,
    /// the client's side of the handshake completed (its Finished flight went out)
    Finished,
}

fn wire_pos(written: &[u8]) -> WirePos {
    let mut pos = WirePos::NoTls;
    let mut i = 0;
    while i + 5 <= written.len() {
        let (ty, major) = (written[i], written[i + 1]);
        let len = u16::from_be_bytes([written[i + 3], written[i + 4]]) as usize;
        if !(20..=23).contains(&ty) || major != 3 {
            break; // not a TLS record stream (plaintext HTTP/2, …)
        }
        if ty == 22 && pos == WirePos::NoTls {
            pos = WirePos::Hello;
        }
        if ty == 23 && len >= 53 && pos != WirePos::NoTls {
            pos = WirePos::Finished;
        }
        i += 5 + len;
    }
    pos
}

/// Is `err` one of the error types a caller can name?  tonic's own `TlsError` and
/// `HttpsUriWithoutTlsSupport` are `pub(crate)`: they can be recognised only as "none of these".
fn nameable(err: &(dyn std::error::Error + 'static)) -> bool {
    err.is::<io::Error>()
        || err.is::<rustls::Error>()
        || err.is::<rustls::pki_types::InvalidDnsNameError>()
        || err.is::<rustls::server::VerifierBuilderError>()
        || err.is::<tonic::transport::Error>()
        || err.is::<tonic::ConnectError>()
        || err.is::<tonic::TimeoutExpired>()
        || err.is::<tonic::Status>()
        || err.is::<hyper::Error>()
        || err.is::<h2::Error>()
        || err.is::<hyper_util::client::legacy::Error>()
        || err.is::<tokio::time::error::Elapsed>()
        || err.is::<http::Error>()
        || err.is::<http::uri::InvalidUri>()
}

/// The innermost error of a source chain (looking inside `io::Error` payloads as well), and the
/// first `rustls::Error` met on the way.
fn chain_leaf<'a>(e: &'a (dyn std::error::Error + 'static)) -> (&'a (dyn std::error::Error + 'static), Option<&'a rustls::Error>) {
    let mut cur = e;
    for _ in 0..16 {
        if let Some(r) = cur.downcast_ref::<rustls::Error>() {
            return (cur, Some(r));
        }
        if let Some(ioe) = cur.downcast_ref::<io::Error>() {
            if let Some(inner) = ioe.get_ref() {
                cur = inner;
                continue;
            }
        }
        match cur.source() {
            Some(s) => cur = s,
            None => break,
        }
    }
    (cur, None)
}

/// Failure class of a connect / call error, by STRUCTURE — never by message text (rewording a
/// `Display` impl is not a behaviour change): a `rustls::Error` in the source chain is classified
/// by its variant; an error whose innermost cause is one of tonic's private types by the position
/// in the handshake at which it was raised (what the client had written on that connection by
/// then): nothing TLS on the wire ⇒ the connector refused an https URI for want of a TLS
/// configuration; the client's Finished on the wire ⇒ tonic's own check after a completed
/// handshake (ALPN).  Two steps, because the error itself must not be held across an await.
enum PreClass {
    Done(String),
    /// innermost cause is a tonic-private error type: the position on the wire decides
    Private,
}

fn pre_classify(e: &(dyn std::error::Error + 'static)) -> PreClass {
    let (_, tls) = chain_leaf(e);
    if let Some(r) = tls {
        return PreClass::Done(classify_rustls(r));
    }
    // tonic's `Connector::call` wraps whatever stopped it in the public `ConnectError`; what it
    // wraps directly is either the dial / handshake error (io::Error, …) or one of tonic's own
    // private error values (`TlsError::H2NotNegotiated`, `HttpsUriWithoutTlsSupport`)
    let mut cur: Option<&(dyn std::error::Error + 'static)> = Some(e);
    for _ in 0..16 {
        let Some(err) = cur else { break };
        if let Some(ce) = err.downcast_ref::<tonic::ConnectError>() {
            if !nameable(&*ce.0) {
                return PreClass::Private;
            }
        }
        cur = err.source();
    }
    if std::env::var("VERIF_C15_DEBUG").is_ok() {
        return PreClass::Done(format!("other<{:?}>", e).replace(' ', "_"));
    }
    PreClass::Done("other<nameable>".into())
}

async fn finish_class(pre: PreClass, wire: &Wire) -> String {
    match pre {
        PreClass::Done(s) => s,
        PreClass::Private => match wire.settled().await {
            WirePos::Finished => "h2-not-negotiated".into(),
            WirePos::NoTls => "https-without-tls".into(),
            WirePos::Hello => "other<private-error-mid-handshake>".into(),
        },
    }
}

fn classify_rustls(r: &rustls::Error) -> String {
    use rustls::{AlertDescription as A, CertificateError as C, Error as E};
    match r {
        E::InvalidCertificate(C::UnknownIssuer) => "server-cert:unknown-issuer".into(),
        E::InvalidCertificate(C::NotValidForName) => "server-cert:name-mismatch".into(),
        E::InvalidCertificate(C::NotValidForNameContext { .. }) => "server-cert:name-mismatch".into(),
        E::InvalidCertificate(o) => format!("server-cert:{:?}", o).replace(' ', "_"),
        E::AlertReceived(A::NoApplicationProtocol) => "alpn-alert".into(),
        E::AlertReceived(a) => format!("alert:{:?}", a),
        o => format!("tls:{:?}", o).replace(' ', "_"),
    }
}

type BoxErr = Box<dyn std::error::Error + Send + Sync>;

trait Transport: AsyncRead + AsyncWrite + Connected + ExtCerts + Unpin + Send + Sized + 'static {
    /// Returns a dial function and the stream of accepted server-side IOs.
    fn pair() -> Pin<Box<dyn Future<Output = io::Result<(Dialer<Self>, tokio::sync::mpsc::Receiver<Self>)>> + Send>>;
}
type Dialer<IO> = Arc<dyn Fn() -> Pin<Box<dyn Future<Output = io::Result<IO>> + Send>> + Send + Sync>;

impl Transport for tokio::net::TcpStream {
    fn pair() -> Pin<Box<dyn Future<Output = io::Result<(Dialer<Self>, tokio::sync::mpsc::Receiver<Self>)>> + Send>> {
        Box::pin(async {
            let l = tokio::net::TcpListener::bind(("127.0.0.1", 0)).await?;
            let addr = l.local_addr()?;
            let (tx, rx) = tokio::sync::mpsc::channel(8);
            tokio::spawn(async move {
                loop {
                    tokio::select! {
                        _ = tx.closed() => break,
                        a = l.accept() => match a {
                            Ok((s, _)) => { let _ = s.set_nodelay(true); if tx.send(s).await.is_err() { break; } }
                            Err(_) => break,
                        }
                    }
                }
            });
            let d: Dialer<Self> = Arc::new(move || {
                Box::pin(async move {
                    let s = tokio::net::TcpStream::connect(addr).await?;
                    let _ = s.set_nodelay(true);
                    // closing the client side resets the connection instead of parking the
                    // 4-tuple in TIME_WAIT: big runs would otherwise exhaust the loopback ports
                    #[allow(deprecated)] // a zero linger never blocks
                    let _ = s.set_linger(Some(Duration::ZERO));
                    Ok(s)
                })
            });
            Ok((d, rx))
        })
    }
}

impl Transport for tokio::io::DuplexStream {
    fn pair() -> Pin<Box<dyn Future<Output = io::Result<(Dialer<Self>, tokio::sync::mpsc::Receiver<Self>)>> + Send>> {
        Box::pin(async {
            let (tx, rx) = tokio::sync::mpsc::channel(8);
            let d: Dialer<Self> = Arc::new(move || {
                let tx = tx.clone();
                Box::pin(async move {
                    let (a, b) = tokio::io::duplex(1 << 16);
                    tx.send(b).await.map_err(|_| io::Error::new(io::ErrorKind::ConnectionRefused, "server gone"))?;
                    Ok(a)
                })
            });
            Ok((d, rx))
        })
    }
}

fn rx_stream<T: Send + 'static>(rx: tokio::sync::mpsc::Receiver<T>) -> impl tokio_stream::Stream<Item = Result<T, io::Error>> {
    use tokio_stream::StreamExt;
    tokio_stream::wrappers::ReceiverStream::new(rx).map(Ok)
}

struct ClientOut {
    cfg_state: String,
    res: String,
    plain: bool,
    dialed: bool,
}

/// How the clients of a case connect.
#[derive(Clone, Copy)]
struct Mode {
    lazy: bool,
    twice: bool,
    native: bool,
    cto: bool,
    calls2: bool,
    bal: bool,
    knobs: bool,
}

/// A loopback TCP proxy in front of the case's server, for the runs that use tonic's own
/// HttpConnector: records what the client writes and counts connections.
async fn start_proxy<IO: Transport>(dial: Dialer<IO>, log: Arc<Mutex<TapLog>>, dials: Arc<AtomicUsize>) -> io::Result<u16> {
    use tokio::io::{AsyncReadExt, AsyncWriteExt};
    let l = tokio::net::TcpListener::bind(("127.0.0.1", 0)).await?;
    let port = l.local_addr()?.port();
    tokio::spawn(async move {
        while let Ok((a, _)) = l.accept().await {
            let _ = a.set_nodelay(true);
            dials.fetch_add(1, Ordering::SeqCst);
            {
                let mut l = log.lock().unwrap();
                l.accepted += 1;
                l.conn_start = l.written.len();
            }
            let dial = dial.clone();
            let log = log.clone();
            tokio::spawn(async move {
                let Ok(b) = dial().await else {
                    log.lock().unwrap().closed += 1;
                    return;
                };
                let (mut ar, mut aw) = tokio::io::split(a);
                let (mut br, mut bw) = tokio::io::split(b);
                let log2 = log.clone();
                let up = async move {
                    let mut buf = vec![0u8; 16384];
                    loop {
                        match ar.read(&mut buf).await {
                            Ok(0) | Err(_) => break,
                            Ok(n) => {
                                {
                                    let mut l = log.lock().unwrap();
                                    if l.written.len() < (1 << 20) {
                                        l.written.extend_from_slice(&buf[..n]);
                                    }
                                }
                                if bw.write_all(&buf[..n]).await.is_err() {
                                    break;
                                }
                            }
                        }
                    }
                    log2.lock().unwrap().closed += 1;
                    let _ = bw.shutdown().await;
                };
                let down = async move {
                    let _ = tokio::io::copy(&mut br, &mut aw).await;
                    let _ = aw.shutdown().await;
                };
                tokio::join!(up, down);
            });
        }
    });
    Ok(port)
}

/// The VALUES the clients of a case have defined so far (by client index): the program state.
/// A client that refers to an earlier one (`^j`, `@k`) clones the value stored here — it is the
/// very value a clone of which was handed to `Endpoint::tls_config` / connected before.
#[derive(Default)]
struct Env {
    cfgs: Vec<Option<ClientTlsConfig>>,
    /// `Err` = the class of the configuration error the endpoint expression ended with
    eps: Vec<Option<Result<Endpoint, String>>>,
}

/// A client whose configuration and endpoint have been built.
struct Prepared {
    log: Arc<Mutex<TapLog>>,
    dials: Arc<AtomicUsize>,
    cfg_state: String,
    ep: Option<Endpoint>,
    /// the case line does not describe a program (`fail:bad-case`)
    bad: Option<String>,
    cfg_only: bool,
}

/// Build client `idx`'s configuration and endpoint through the public API, from the values the
/// earlier clients left in `env`, and leave its own there.
async fn prepare_client<IO: Transport>(idx: usize, spec: &ClientSpec, env: &mut Env, dial: Dialer<IO>, mode: Mode) -> Prepared {
    let Mode { native, cto, knobs, .. } = mode;
    let log = Arc::new(Mutex::new(TapLog::default()));
    let dials = Arc::new(AtomicUsize::new(0));
    let mut out = Prepared { log: log.clone(), dials: dials.clone(), cfg_state: "ok".into(), ep: None, bad: None, cfg_only: spec.cfg_only };
    debug_assert_eq!(env.cfgs.len(), idx);
    // ---- the configuration value: ClientTlsConfig::new().<ops> or cfg_j.clone().<ops>
    let cfg: Option<ClientTlsConfig> = if spec.has_cfg() {
        let base = match spec.cfg_ref {
            None => Some(ClientTlsConfig::new()),
            Some(j) => env.cfgs.get(j).cloned().flatten(),
        };
        match base.and_then(|b| apply_client_ops(b, &spec.ops)) {
            Some(c) => Some(c),
            None => {
                env.cfgs.push(None);
                env.eps.push(None);
                out.bad = Some("bad-case".into());
                return out;
            }
        }
    } else {
        None
    };
    env.cfgs.push(cfg.clone());
    if spec.cfg_only {
        env.eps.push(None);
        return out;
    }
    let Some(host) = host_of(&spec.urihost) else {
        env.eps.push(None);
        out.bad = Some("bad-case".into());
        return out;
    };
    // ---- the endpoint value
    let ep: Result<Endpoint, String> = if let Some(k) = spec.ep_ref {
        // ep_k.clone(), then possibly .tls_config(cfg.clone())
        match env.eps.get(k).cloned().flatten() {
            None => {
                env.eps.push(None);
                out.bad = Some("bad-case".into());
                return out;
            }
            Some(Err(class)) => Err(class), // `ep_k?` already failed
            // generated `connect(dst)` with `dst` = an Endpoint value: `Endpoint::new(ep_k.clone())`
            Some(Ok(e)) if spec.renew => Endpoint::new(e).map_err(|e| classify_cfg_err(&e)),
            Some(Ok(e)) => match &cfg {
                None => Ok(e),
                Some(t) => e.tls_config(t.clone()).map_err(|e| classify_cfg_err(&e)),
            },
        }
    } else {
        // `<scheme>+o<scheme2>`: endpoint URI with <scheme>, plus `Endpoint::origin(<scheme2>://…)`
        // `+oB<scheme2>` / `+oC<scheme2>`: the origin names ANOTHER host (a proxy or load balancer reached by
        // address, seed C15f) and is set Before / after (`C`) `tls_config`: the peer is still authenticated
        // against the endpoint URI's host (or `domain_name`), never against the origin's
        let (scheme, origin, origin_first) = match spec.scheme.split_once("+o") {
            Some((s, o)) => {
                let (alt, first, o2) = match (o.strip_prefix('B'), o.strip_prefix('C')) {
                    (Some(x), _) => (true, true, x),
                    (_, Some(x)) => (true, false, x),
                    _ => (false, false, o),
                };
                let oh = if !alt { host } else if host == "bad.test" { "good.test" } else { "bad.test" };
                (s, Some(format!("{}://{}:50051", o2, oh)), first)
            }
            None => (spec.scheme.as_str(), None, false),
        };
        let port = if native {
            match start_proxy::<IO>(dial.clone(), log.clone(), dials.clone()).await {
                Ok(p) => p,
                Err(_) => {
                    env.eps.push(None);
                    out.bad = Some("harness-error-proxy".into());
                    return out;
                }
            }
        } else {
            50051
        };
        let uri = format!("{}://{}:{}", scheme, host, port);
        let with_origin = move |ep: Endpoint| {
            let ep = match &origin {
                Some(o) => ep.origin(o.parse().unwrap()),
                None => ep,
            };
            let ep = if cto { ep.connect_timeout(Duration::from_secs(10)) } else { ep };
            if knobs {
                all_other_knobs(ep)
            } else {
                ep
            }
        };
        // the constructors are rotated (deterministically per case): they all end in the same
        // private `Endpoint::new_uri`, and which one a caller picked must not matter
        let which = idx + spec.ops.len() + spec.urihost.len();
        if spec.ops.len() == 1 && spec.ops[0] == "auto" {
            // the entry point generated `connect` functions use, with the `dst` types they are
            // called with: a String, a `Uri`, an unconfigured `Endpoint`
            match which % 3 {
                0 => Endpoint::new(uri),
                1 => Endpoint::new(uri.parse::<http::Uri>().expect("uri")),
                _ => Endpoint::new(Endpoint::from_shared(uri).expect("uri")),
            }
            .map(with_origin)
            .map_err(|e| classify_cfg_err(&e))
        } else {
            use std::str::FromStr;
            let made: Result<Endpoint, ()> = match which % 5 {
                0 => Endpoint::from_shared(uri).map_err(|_| ()),
                1 => Endpoint::from_str(&uri).map_err(|_| ()),
                2 => Endpoint::try_from(uri).map_err(|_| ()),
                3 => uri.parse::<http::Uri>().map(Endpoint::from).map_err(|_| ()),
                _ => tonic::transport::Channel::from_shared(uri).map_err(|_| ()),
            };
            let ep = match made {
                Ok(e) => e,
                Err(_) => {
                    env.eps.push(None);
                    out.bad = Some("bad-case".into());
                    return out;
                }
            };
            match &cfg {
                None => Ok(with_origin(ep)),
                // Endpoint::tls_config consumes a configuration: it gets a clone, the value stays
                Some(t) if origin_first => with_origin(ep).tls_config(t.clone()).map_err(|e| classify_cfg_err(&e)),
                Some(t) => ep.tls_config(t.clone()).map(with_origin).map_err(|e| classify_cfg_err(&e)),
            }
        }
    };
    env.eps.push(Some(ep.clone()));
    match ep {
        Ok(e) => out.ep = Some(e),
        Err(class) => out.cfg_state = format!("err:{}", class),
    }
    out
}

/// `-kn`: every `Endpoint` builder method that is not about TLS, called AFTER `tls_config`: none of
/// them may lose or change the TLS connector the endpoint carries.
fn all_other_knobs(ep: Endpoint) -> Endpoint {
    ep.user_agent("verif-c15/1.0")
        .expect("user agent")
        .timeout(Duration::from_secs(60))
        .concurrency_limit(16)
        .rate_limit(1000, Duration::from_millis(10))
        .initial_stream_window_size(1u32 << 20)
        .initial_connection_window_size(1u32 << 21)
        .buffer_size(64usize)
        .tcp_keepalive(Some(Duration::from_secs(30)))
        .tcp_nodelay(false)
        .http2_keep_alive_interval(Duration::from_secs(60))
        .keep_alive_timeout(Duration::from_secs(20))
        .keep_alive_while_idle(true)
        .http2_adaptive_window(true)
        .http2_max_header_list_size(1u32 << 16)
        .local_address(None)
        .executor(TokioExec)
}

#[derive(Clone)]
struct TokioExec;
impl<F> hyper::rt::Executor<F> for TokioExec
where
    F: Future + Send + 'static,
    F::Output: Send + 'static,
{
    fn execute(&self, fut: F) {
        tokio::spawn(fut);
    }
}

/// One prepared client: connect through a connector that dials the case's server and taps the
/// bytes, make one unary call (twice over with `-x2`).
async fn connect_client<IO: Transport>(idx: usize, prep: Prepared, dial: Dialer<IO>, mode: Mode) -> ClientOut {
    let Mode { lazy, twice, native, calls2, bal, .. } = mode;
    let mut bal_keep = Vec::new();
    let Prepared { log, dials, cfg_state, ep, bad, .. } = prep;
    if let Some(why) = bad {
        return ClientOut { cfg_state: "ok".into(), res: format!("fail:{}", why), plain: false, dialed: false };
    }
    let wire = Wire { log: log.clone(), native };
    let mut res = "fail:config".to_string();
    if let Some(ep) = ep {
        let rounds = if twice { 2 } else { 1 };
        let mut results = Vec::new();
        for _ in 0..rounds {
            let connector = {
                let log = log.clone();
                let dials = dials.clone();
                let dial = dial.clone();
                tower::service_fn(move |_uri: http::Uri| {
                    let log = log.clone();
                    let dial = dial.clone();
                    dials.fetch_add(1, Ordering::SeqCst);
                    {
                        let mut l = log.lock().unwrap();
                        l.conn_start = l.written.len();
                    }
                    async move {
                        let io = dial().await?;
                        Ok::<_, BoxErr>(hyper_util::rt::TokioIo::new(Tap { inner: io, log }))
                    }
                })
            };
            let ch = match (native, lazy) {
                // balanced channels: the endpoint's own `http_connector()`, connected lazily
                (true, _) if bal && idx % 2 == 0 => Ok(tonic::transport::Channel::balance_list(std::iter::once(ep.clone()))),
                (true, _) if bal => {
                    let (ch, tx) = tonic::transport::Channel::balance_channel::<usize>(4);
                    let _ = tx.send(tonic::transport::channel::Change::Insert(7, ep.clone())).await;
                    bal_keep.push(tx);
                    Ok(ch)
                }
                (false, true) => Ok(ep.connect_with_connector_lazy(connector)),
                (false, false) => ep.connect_with_connector(connector).await,
                // tonic's own HttpConnector, through the recording proxy
                (true, true) => Ok(ep.connect_lazy()),
                (true, false) => ep.connect().await,
            };
            let r = match ch {
                Err(e) => {
                    let pre = pre_classify(&e);
                    format!("fail:{}", finish_class(pre, &wire).await)
                }
                Ok(ch) => {
                    let mut grpc = tonic::client::Grpc::new(ch);
                    let first = one_call(&mut grpc, idx, &wire).await;
                    if calls2 && first == "ok" {
                        // a second request on the same connection: served the same way
                        let again = one_call(&mut grpc, idx, &wire).await;
                        if again != "ok" {
                            format!("fail:second-call-differs<{}>", canonical_res(&again))
                        } else {
                            first
                        }
                    } else if (lazy || bal) && first != "ok" {
                        // a lazily connected channel dials again for the next call: it must fail
                        // the same way (no fallback on retry)
                        let second = one_call(&mut grpc, idx, &wire).await;
                        if canonical_res(&second) != canonical_res(&first) {
                            format!("fail:retry-differs<{}|{}>", canonical_res(&first), canonical_res(&second))
                        } else {
                            first
                        }
                    } else {
                        first
                    }
                }
            };
            results.push(r);
        }
        res = results[0].clone();
        if results.len() == 2 && canonical_res(&results[1]) != canonical_res(&results[0]) {
            res = format!("fail:second-connection-differs<{}|{}>", canonical_res(&results[0]), canonical_res(&results[1]));
        }
    }
    if native && cfg_state == "ok" {
        // the proxy learns about a connection only when its accept task runs; give it a turn
        // (every configured client dials, so this ends at once unless the machine is overloaded)
        for _ in 0..1000 {
            if dials.load(Ordering::SeqCst) > 0 {
                break;
            }
            tokio::time::sleep(Duration::from_millis(2)).await;
        }
    }
    let l = log.lock().unwrap();
    let plain = contains(&l.written, H2_PREFACE) || contains(&l.written, MARKER.as_bytes());
    ClientOut { cfg_state, res, plain, dialed: dials.load(Ordering::SeqCst) > 0 }
}

async fn run_case<IO: Transport>(c: Case) -> String {
    let obs = Arc::new(Obs::default());
    // what each client will present, syntactically: its last id: op (`presented` is only used to
    // compare contents when certificates are seen; the model decides what is seen)
    let presented: Vec<Vec<Vec<u8>>> = c
        .clients
        .iter()
        .map(|cl| {
            let mut p = Vec::new();
            for op in &cl.told {
                if let Some(i) = op.strip_prefix("id:") {
                    p = cert_pem(i).map(ders).unwrap_or_default();
                }
            }
            p
        })
        .collect();
    let svc: Svc<IO> = Svc { obs: obs.clone(), presented: Arc::new(presented), _io: Default::default() };

    let (dial, rx) = match IO::pair().await {
        Ok(p) => p,
        Err(e) => return format!("harness-error:bind:{}", e.kind()),
    };
    let (stop_tx, stop_rx) = tokio::sync::oneshot::channel::<()>();
    let stop = async move {
        let _ = stop_rx.await;
    };

    // ---- server
    let server_task: tokio::task::JoinHandle<Result<(), String>> = match c.alpn.as_str() {
        "h2" => {
            let id = Identity::from_pem(cert_pem(&c.servercert).unwrap_or(""), key_pem(&c.servercert).unwrap_or(""));
            let mut tls = ServerTlsConfig::new().identity(id.clone());
            // `Server`-level builder calls around `tls_config`: `pre` = an earlier `tls_config` call
            // (same identity, NO client authentication) that the case's own call must replace;
            // `lay0` / `lay` = `Server::layer` before / after `tls_config` (`lay` with a tonic
            // interceptor layer, so the handler sits behind an `InterceptedService`)
            let (mut pre, mut lay0, mut lay) = (false, false, false);
            for op in &c.sops {
                if let Some(n) = op.strip_prefix("ca:") {
                    tls = tls.client_ca_root(Certificate::from_pem(match cert_pem(n) {
                        Some(p) => p,
                        None => return "bad-case".into(),
                    }));
                } else if let Some(b) = op.strip_prefix("opt:") {
                    tls = tls.client_auth_optional(b == "1");
                } else if let Some(b) = op.strip_prefix("ico:") {
                    tls = tls.ignore_client_order(b == "1");
                } else if op == "kl" {
                    tls = tls.use_key_log();
                } else if op == "pre" {
                    pre = true;
                } else if op == "lay0" {
                    lay0 = true;
                } else if op == "lay" {
                    lay = true;
                } else {
                    return "bad-case".into();
                }
            }
            let unusable = || vec!["server-config-unusable"; c.clients.len()].join(" | ");
            let mut b0 = Server::builder();
            if pre {
                b0 = match b0.tls_config(ServerTlsConfig::new().identity(id).client_auth_optional(true)) {
                    Ok(b) => b,
                    Err(_) => return "harness-error:pre-tls-config".into(),
                };
            }
            // tonic refusing the server's TLS configuration (e.g. a client CA bundle without a
            // usable certificate) = no server, nobody is served
            macro_rules! serve {
                ($b:expr) => {{
                    let mut b = $b;
                    let router = b.add_service(svc);
                    tokio::spawn(async move { router.serve_with_incoming_shutdown(rx_stream(rx), stop).await.map_err(|e| e.to_string()) })
                }};
            }
            let pass = |r: tonic::Request<()>| -> Result<tonic::Request<()>, tonic::Status> { Ok(r) };
            match (lay0, lay) {
                (false, false) => match b0.tls_config(tls) {
                    Ok(b) => serve!(b),
                    Err(_) => return unusable(),
                },
                (true, false) => match b0.layer(tower::layer::util::Identity::new()).tls_config(tls) {
                    Ok(b) => serve!(b),
                    Err(_) => return unusable(),
                },
                (false, true) => match b0.tls_config(tls) {
                    Ok(b) => serve!(b.layer(tonic::service::InterceptorLayer::new(pass))),
                    Err(_) => return unusable(),
                },
                (true, true) => match b0.layer(tower::layer::util::Identity::new()).tls_config(tls) {
                    Ok(b) => serve!(b.layer(tonic::service::InterceptorLayer::new(pass))),
                    Err(_) => return unusable(),
                },
            }
        }
        "plain" => {
            // a plaintext HTTP/2 server: anything a client sends in the clear would be served
            let router = Server::builder().add_service(svc);
            tokio::spawn(async move { router.serve_with_incoming_shutdown(rx_stream(rx), stop).await.map_err(|e| e.to_string()) })
        }
        _ => {
            let cfg = match rustls_server_config(&c) {
                Ok(c) => Arc::new(c),
                Err(_) => return vec!["server-config-unusable"; c.clients.len()].join(" | "),
            };
            let acceptor = tokio_rustls::TlsAcceptor::from(cfg);
            let (ttx, trx) = tokio::sync::mpsc::channel::<tokio_rustls::server::TlsStream<IO>>(8);
            let mut rx = rx;
            tokio::spawn(async move {
                while let Some(io) = rx.recv().await {
                    let acceptor = acceptor.clone();
                    let ttx = ttx.clone();
                    tokio::spawn(async move {
                        if let Ok(s) = acceptor.accept(io).await {
                            let _ = ttx.send(s).await;
                        }
                    });
                }
            });
            // Svc<IO> looks up TlsConnectInfo<IO::ConnectInfo>, which is what TlsStream<IO> yields
            let router = Server::builder().add_service(svc);
            tokio::spawn(async move { router.serve_with_incoming_shutdown(rx_stream(trx), stop).await.map_err(|e| e.to_string()) })
        }
    };

    // ---- clients, one after the other or all at once, against the one server
    let mode = Mode { lazy: c.lazy, twice: c.twice, native: c.native, cto: c.cto, calls2: c.calls2, bal: c.bal, knobs: c.knobs };
    let mut outs: Vec<Option<ClientOut>> = Vec::new();
    let mut env = Env::default();
    if c.par {
        // every configuration and endpoint first (in order), then all clients at once
        let mut preps = Vec::new();
        for (i, spec) in c.clients.iter().enumerate() {
            preps.push(prepare_client::<IO>(i, spec, &mut env, dial.clone(), mode).await);
        }
        let handles: Vec<_> = preps
            .into_iter()
            .enumerate()
            .map(|(i, prep)| if prep.cfg_only { None } else { Some(tokio::spawn(connect_client::<IO>(i, prep, dial.clone(), mode))) })
            .collect();
        for h in handles {
            outs.push(match h {
                None => None,
                Some(h) => Some(match h.await {
                    Ok(o) => o,
                    Err(_) => ClientOut { cfg_state: "ok".into(), res: "fail:client-panicked".into(), plain: false, dialed: false },
                }),
            });
        }
    } else {
        // each client's configuration is derived, used for its endpoint, and the endpoint
        // connected, before the next client's is derived
        for (i, spec) in c.clients.iter().enumerate() {
            let prep = prepare_client::<IO>(i, spec, &mut env, dial.clone(), mode).await;
            if prep.cfg_only {
                outs.push(None);
            } else {
                outs.push(Some(connect_client::<IO>(i, prep, dial.clone(), mode).await));
            }
        }
    }
    drop(env);
    // let the server finish whatever it is doing with these connections
    let _ = stop_tx.send(());
    drop(dial);
    let _ = tokio::time::timeout(Duration::from_secs(5), server_task).await;

    let runs = obs.runs.lock().unwrap();
    let mut parts = Vec::new();
    for (i, o) in outs.iter().enumerate() {
        let Some(o) = o else {
            parts.push("cfg-only".to_string());
            continue;
        };
        let mine: Vec<&String> = runs.iter().filter(|(j, _)| *j == i).map(|(_, s)| s).collect();
        let mut uniq: Vec<&String> = Vec::new();
        for m in &mine {
            if !uniq.contains(m) {
                uniq.push(m);
            }
        }
        let peer_s = if uniq.is_empty() {
            "peer=- ext=-".to_string()
        } else {
            uniq.iter().map(|s| s.as_str()).collect::<Vec<_>>().join(",")
        };
        parts.push(format!(
            "res={} cfg={} h={} {} plain={} dial={}",
            canonical_res(&o.res),
            o.cfg_state,
            mine.len(),
            peer_s,
            o.plain as u8,
            o.dialed as u8
        ));
    }
    let stray = runs.iter().filter(|(j, _)| *j >= outs.len()).count();
    if stray > 0 {
        parts.push(format!("stray-handler-runs={}", stray));
    }
    parts.join(" | ")
}

/// Failure classes the model speaks about. A failure that surfaces only after tonic's own
/// client-side checks passed (TLS 1.3: the server judges the client certificate after the
/// client side of the handshake is complete, so it shows up as an alert / reset / cancelled
/// call, timing-dependent) is the single class `rejected`.
fn canonical_res(res: &str) -> String {
    if std::env::var("VERIF_C15_DEBUG").is_ok() {
        return res.to_string();
    }
    let Some(class) = res.strip_prefix("fail:") else {
        return res.to_string();
    };
    let c = match class {
        x if x.starts_with("retry-differs") || x.starts_with("second-connection-differs") || x.starts_with("second-call-differs") => x,
        "config" | "https-without-tls" | "alpn-alert" | "h2-not-negotiated" | "wrong-reply"
        | "server-cert:unknown-issuer" | "server-cert:name-mismatch" => class,
        x if x.starts_with("server-cert:") => "server-cert:other",
        x if x.starts_with("tls:") => "tls-error",
        _ => "rejected",
    };
    format!("fail:{}", c)
}

async fn one_call(grpc: &mut tonic::client::Grpc<tonic::transport::Channel>, idx: usize, wire: &Wire) -> String {
    match grpc.ready().await {
        Err(e) => {
            let pre = pre_classify(&e);
            format!("fail:{}", finish_class(pre, wire).await)
        }
        Ok(()) => {
            let path = http::uri::PathAndQuery::from_static("/verif.Tls/Call");
            let codec = tonic::codec::ProstCodec::<String, String>::default();
            match grpc.unary(tonic::Request::new(payload(idx)), path, codec).await {
                Ok(r) if r.get_ref() == &format!("echo:{}", payload(idx)) => "ok".into(),
                Ok(_) => "fail:wrong-reply".into(),
                Err(st) => format!("fail:{}", classify_status(&st, wire).await),
            }
        }
    }
}

/// Class of a configuration error (`Endpoint::tls_config`, `Server::tls_config`), by structure:
/// the public error types by downcast; tonic's private `TlsError` — which a caller cannot name —
/// by the variant identifier its derived `Debug` prints.  `Display` texts are never looked at.
fn classify_cfg_err(e: &(dyn std::error::Error + 'static)) -> String {
    let (leaf, tls) = chain_leaf(e);
    if tls.is_some() {
        // rustls refused the certificate / key pair (`with_client_auth_cert`, `with_single_cert`)
        return "identity-rejected".into();
    }
    if leaf.is::<rustls::pki_types::InvalidDnsNameError>() {
        return "invalid-dns-name".into();
    }
    if let Some(v) = leaf.downcast_ref::<rustls::server::VerifierBuilderError>() {
        return match v {
            rustls::server::VerifierBuilderError::NoRootAnchors => "no-root-anchors".into(),
            _ => "verifier-builder".into(),
        };
    }
    if !nameable(leaf) {
        let variant = format!("{:?}", leaf);
        return match variant.as_str() {
            "CertificateParseError" => "cert-parse".into(),
            "PrivateKeyParseError" => "key-parse".into(),
            "NativeCertsNotFound" => "native-certs-not-found".into(),
            _ => format!("private<{}>", variant.replace(' ', "_")),
        };
    }
    if leaf.downcast_ref::<tonic::transport::Error>().is_some() {
        // a transport error without a source: Endpoint's own checks (invalid URI, TLS on a UDS endpoint)
        return "invalid-uri".into();
    }
    format!("other<{:?}>", leaf).replace(' ', "_")
}

async fn classify_status(st: &tonic::Status, wire: &Wire) -> String {
    use std::error::Error;
    let pre = st.source().map(pre_classify);
    if let Some(pre) = pre {
        let c = finish_class(pre, wire).await;
        if !c.starts_with("other<") {
            return c;
        }
    }
    if std::env::var("VERIF_C15_DEBUG").is_ok() {
        return format!("status:{:?}<{:?}>", st.code(), st).replace(' ', "_");
    }
    format!("status:{:?}", st.code())
}

/// `srvcfg <op>+<op>…` — only `Server::builder().tls_config(..)`: `ok` / `err:<class>` (a
/// missing identity panics inside tonic: the observable `panic`, via `catch_unwind`).
fn srvcfg(ops: &str) -> String {
    let mut tls = ServerTlsConfig::new();
    for op in ops.split('+') {
        if op == "-" {
            continue;
        } else if let Some(n) = op.strip_prefix("id:") {
            let (Some(c), Some(k)) = (cert_pem(n), key_pem(n)) else { return "bad-case".into() };
            tls = tls.identity(Identity::from_pem(c, k));
        } else if let Some(n) = op.strip_prefix("ca:") {
            let Some(c) = cert_pem(n) else { return "bad-case".into() };
            tls = tls.client_ca_root(Certificate::from_pem(c));
        } else if let Some(b) = op.strip_prefix("opt:") {
            tls = tls.client_auth_optional(b == "1");
        } else if let Some(b) = op.strip_prefix("ico:") {
            tls = tls.ignore_client_order(b == "1");
        } else if op == "kl" {
            tls = tls.use_key_log();
        } else {
            return "bad-case".into();
        }
    }
    match Server::builder().tls_config(tls) {
        Ok(_) => "ok".into(),
        Err(e) => format!("err:{}", classify_cfg_err(&e)),
    }
}

pub fn execute(case: &str) -> String {
    if let Some(ops) = case.strip_prefix("srvcfg ") {
        return srvcfg(ops.trim());
    }
    if case.starts_with("tlsf ") {
        return execute_tlsf(case);
    }
    if case.starts_with("resume ") {
        return r::execute_resume(case);
    }
    let c = match parse(case) {
        Some(c) => c,
        None => return "bad-case".into(),
    };
    let rt = tokio::runtime::Builder::new_current_thread().enable_all().build().unwrap();
    let out = rt.block_on(async move {
        let fut: Pin<Box<dyn Future<Output = String> + Send>> = match c.base.as_str() {
            "tcp" => Box::pin(run_case::<tokio::net::TcpStream>(c)),
            _ => Box::pin(run_case::<tokio::io::DuplexStream>(c)),
        };
        match tokio::time::timeout(Duration::from_secs(20), fut).await {
            Ok(s) => s,
            Err(_) => "hang".into(),
        }
    });
    rt.shutdown_timeout(Duration::from_millis(200));
    out
}

/// Witnesses of earlier findings and hand-picked boundary configurations; always run first.
const CORPUS: &[&str] = &[
    // fixed: with_enabled_roots() forgot everything configured before it (0.13.0): the configured
    // name `bad.test` was dropped and the URI host verified instead => connected
    "tls https good dom:bad roots ca:ca1 ; s1good h2 - tcp",
    "tls https good ca:ca1 dom:bad roots ; s1good h2 - tcp",
    "tls https bad dom:good roots ca:ca1 ; s1good h2 - tcp",
    "tls https good ca:ca1 id:c1 roots ; s1good h2 ca:ca1 tcp",
    "tls https good ca:ca1 h2:1 roots ; s1good none - tcp",
    "tls https good roots ; s1good h2 - tcp",
    // no TLS configuration at all / generated-code entry point
    "tls https good notls ; s1good h2 - tcp",
    "tls https good notls ; s1good plain - tcp",
    "tls https good notls ; s1good plain - duplex-lazy",
    "tls https good auto ; s1good h2 - tcp",
    "tls https good auto ; s1good plain - tcp",
    "tls http good auto ; s1good plain - tcp",
    "tls HTTPS good notls ; s1good plain - tcp",
    "tls HTTPS good ca:ca1 ; s1good h2 - tcp",
    // Endpoint::origin does not decide about TLS
    "tls https+ohttp good notls ; s1good plain - tcp",
    "tls https+ohttp good ca:ca1 ; s1good h2 - tcp",
    "tls http+ohttps good ca:ca1 ; s1good plain - tcp",
    // … and it does not name the peer: an origin with ANOTHER host, set before or after tls_config (seed C15f)
    "tls https+oBhttps good ca:ca1 ; s1good h2 - tcp",
    "tls https+oBhttps bad ca:ca1 ; s1good h2 - tcp",
    "tls https+oChttps good ca:ca1 ; s1good h2 - duplex",
    "tls https+oChttps bad ca:ca1 ; s1good h2 - duplex",
    "tls https+oBhttps bad ca:ca1 dom:good ; s1good h2 - duplex",
    "tls https+oBhttps good ca:ca1 dom:bad ; s1good h2 - tcp",
    "tls https+oBhttps good ca:ca1 ; s1bad h2 - duplex",
    "tls https+oBhttps bad ca:ca1 ; s1bad h2 - duplex-lazy",
    "tls https+oBhttps ip ca:ca1 ; s1good h2 - tcp",
    // https client against a plaintext server and the reverse
    "tls https good ca:ca1 h2:1 ; s1good plain - tcp",
    "tls https good ca:ca1 h2:1 ; s1good plain - duplex",
    "tls http good ca:ca1 ; s1good h2 - tcp",
    "tls http good notls ; s1good plain - tcp",
    // ALPN variants
    "tls https good ca:ca1 ; s1good h2first - tcp",
    "tls https good ca:ca1 ; s1good h2last - tcp",
    "tls https good ca:ca1 ; s1good h2only - tcp",
    "tls https good ca:ca1 h2:1 ; s1good http11 - tcp",
    "tls https good ca:ca1 h2:1 h2:0 ; s1good none - tcp",
    "tls https good ca:ca1 h2:0 h2:1 ; s1good none - tcp",
    // name from the URI / configured name wins / IP names
    "tls https bad ca:ca1 dom:good ; s1good h2 - tcp",
    "tls https good ca:ca1 dom:bad dom:good ; s1good h2 - tcp",
    "tls https good ca:ca1 dom:good dom:bad ; s1good h2 - tcp",
    "tls https other ca:ca1 ; s1bad h2 - tcp",
    "tls https ip ca:ca1 ; s1ip h2 - tcp",
    "tls https ip ca:ca1 ; s1good h2 - tcp",
    "tls https good ca:ca1 dom:ip ; s1ip h2 - tcp",
    // roots: accumulate, junk adds nothing, trust anchors, intermediate as anchor is not a root of s1good
    "tls https good ca:ca2 ca:ca1 ; s1good h2 - tcp",
    "tls https good cas:ca2+junk ; s1good h2 - tcp",
    "tls https good cas:ca2+ca1 ; s2good h2 - tcp",
    "tls https good ta:ca1 ; s1good h2 - tcp",
    "tls https good tas:ca2+ca1 ta:ca2 ; s1good h2 - tcp",
    "tls https good ca:ica1 ; s1good h2 - tcp",
    "tls https good ; s1good h2 - tcp",
    // configuration errors, in the order the code meets them
    "tls https good ca:ca1 dom:invalid ; s1good h2 - tcp",
    "tls https good ca:broken dom:invalid ; s1good h2 - tcp",
    "tls https good ca:ca1 ca:broken ; s1good h2 - tcp",
    "tls https good ca:ca1 id:brokencert dom:invalid ; s1good h2 - tcp",
    "tls https good ca:ca1 id:nokey dom:invalid ; s1good h2 - tcp",
    "tls https good ca:ca1 id:nokey id:c1 ; s1good h2 ca:ca1 tcp",
    // mTLS: chains, last client_ca_root wins, optional without a CA, optional then required
    "tls https good ca:ca1 id:c1chain ; s1good h2 ca:ca1 tcp",
    "tls https good ca:ca1 id:c1chain ; s1good h2 ca:ca1 duplex",
    "tls https good ca:ca1 id:c1chain ; s1good none ca:ca1 tcp",
    "tls https good ca:ca1 id:c1chain h2:1 ; s1good none ca:ca1 duplex",
    "tls https good ca:ca1 id:c1chain ; s1good h2 ca:ica1 tcp",
    "tls https good ca:ca1 id:c1 ; s1good h2 ca:ica1 tcp",
    "tls https good ca:ca1 id:c1 ; s1good h2 ca:ca1+ca:ca2 tcp",
    "tls https good ca:ca1 id:c2 ; s1good h2 ca:ca1+ca:ca2 tcp",
    "tls https good ca:ca1 ; s1good h2 opt:1 tcp",
    "tls https good ca:ca1 id:c2 ; s1good h2 opt:1 tcp",
    "tls https good ca:ca1 ; s1good h2 ca:ca1+opt:1+opt:0 tcp",
    "tls https good ca:ca1 ; s1good h2 opt:0+ca:ca1+opt:1+ico:1 tcp",
    "tls https good ca:ca1 id:c2 ; s1good h2 ca:ca1+opt:1 tcp",
    "tls https good ca:ca1 id:c1 id:c2 ; s1good h2 ca:ca1 tcp",
    "tls https good ca:ca1 id:c2 id:c1 ; s1good h2 ca:ca1 tcp",
    // several clients on one server: a rejected handshake neither stops the accept loop nor
    // opens the door for the next client; resumed sessions keep the peer certificates
    "tls https good ca:ca1 | https good ca:ca1 id:c1 | https good ca:ca1 id:c2 | https good ca:ca1 id:c1chain ; s1good h2 ca:ca1 tcp",
    "tls https good ca:ca1 | https good ca:ca1 id:c1 | https good ca:ca1 id:c2 | https good ca:ca1 id:c1chain ; s1good h2 ca:ca1 tcp-par",
    "tls https good ca:ca1 id:c2 | https good ca:ca2 id:c1 | https good ca:ca1 id:c1 | http good notls | https bad ca:ca1 id:c1 | https good ca:ca1 id:c1chain ; s1good h2 ca:ca1+opt:1 duplex-par-x2",
    "tls https good ca:ca1 id:c2 | https good ca:ca1 id:c1 | https good notls | https good ca:ca1 ; s1good h2last ca:ca1 duplex-lazy-par",
    "tls https good ca:ca1 id:c1 ; s1good h2 ca:ca1 tcp-x2",
    // ONE configuration value used for several endpoints (clones), and configurations derived from a
    // used one: each endpoint decides by its own URI and its own builder sequence; what the value
    // (or a relative of it) was used for before plays no part. First line = the Lean witness
    // C15_config_use_has_no_memory_fails_with_shared_cache (seed C15d: clones share a connector cache)
    "tls https good ca:ca1 | https bad ^0 ; s1good h2 - tcp",
    "tls https bad ca:ca1 | https good ^0 ; s1good h2 - tcp",
    "tls https good ca:ca1 | https good ^0 dom:bad ; s1good h2 - tcp",
    "tls https bad ca:ca1 dom:good | https bad ^0 | https good ^0 dom:bad ; s1good h2 - duplex",
    "tls cfg - ca:ca1 | https good ^0 | https bad ^0 | https good @1 ^0 h2:1 ; s1good h2 - duplex-par-x2",
    "tls cfg - | https good ^0 ca:ca1 | https good ^0 ca:ca2 ; s1good h2 - tcp",
    "tls cfg - dom:good | https bad ^0 ta:ca2 | https bad ^0 ta:ca1 | https bad ^1 ; s1good h2 - tcp-lazy",
    "tls https good ca:ca1 h2:1 | https good ^0 h2:0 ; s1good none - duplex",
    "tls https good ca:ca1 | https good ^0 h2:1 | https good ^0 ; s1good none - tcp",
    "tls https good ca:ca1 id:c1 | https good ^0 id:c2 | https good @0 | https good @1 ^0 dom:bad | https good @0 dom:good ; s1good h2 ca:ca1 tcp",
    "tls https good ca:ca1 id:c2 | https good ^0 id:c1chain | https good ^0 ; s1good h2 ca:ca1 duplex",
    "tls https good ca:broken | https good @0 | https good @0 ca:ca1 | https good ^0 ; s1good h2 - tcp",
    "tls https good ca:ca1 | https good @0 | https good @1 | https good @0 ^0 dom:bad | https good @3 ; s1good h2 - tcp-x2",
    "tls https good ca:ca1 | https bad ^0 roots | https other ^1 dom:good ; s1good h2 - tcp",
    "tls https good notls | https good @0 ca:ca1 | https good @1 dom:bad | http good notls | http good @3 ; s1good h2 - tcp",
    "tls https good auto | https good @0 ca:ca1 | https bad auto | https bad ^1 ; s1good h2 - tcp",
    "tls https ip ca:ca1 | https ip ^0 dom:bad | https ip ^0 ; s1ip h2 - tcp-native",
    "tlsf n ca1 cfg - | https good ^0 nroots | https good ^0 ; s1good h2 - tcp",
    "tlsf n ca1 https good nroots | https bad ^0 | https good ^0 dom:bad ; s1good h2 - duplex",
    "tlsf n ca1 https good auto | https bad auto | https good @0 | https good @0 ca:ca2 ; s1good h2 - tcp",
    "tlsf nw ca1 cfg - | https good ^0 wroots | https good ^0 nroots | https good ^2 dom:bad wroots ; s2good h2 - tcp",
    // tonic's own HttpConnector (Endpoint::connect / connect_lazy), connect_timeout set
    "tls https ip ca:ca1 ; s1ip h2 - tcp-native",
    "tls https ip notls ; s1ip plain - tcp-native",
    "tls https ip notls ; s1ip plain - tcp-native-lazy",
    "tls https ip auto ; s1ip plain - tcp-native",
    "tls https ip ca:ca1 ; s1ip none - tcp-native-lazy",
    "tls https ip ca:ca1 id:c2 | https ip ca:ca1 id:c1 | https ip ca:ca1 ; s1ip h2 ca:ca1 tcp-native-par",
    "tls https good ca:ca2 ; s1good h2 - tcp-cto-lazy",
    "tls https good ca:ca1 id:c1chain ; s1good h2 ca:ca1+opt:1 duplex-x2",
    "tls http good notls | https good ca:ca1 | http good notls ; s1good h2 - tcp",
    "tls https good notls | http good notls | https good ca:ca1 h2:1 ; s1good plain - tcp-par",
    // builds with root-store features (side crates): the generated-client entry point CAN succeed
    // there, and only for a chain that validates against the enabled stores, a matching name, and h2
    "tlsf n ca1 https good auto ; s1good h2 - tcp",
    "tlsf n ca1 https good auto ; s1good none - tcp",
    "tlsf n ca1 https good auto ; s1good none - duplex-lazy",
    "tlsf n ca1 https good auto ; s1good http11 - duplex",
    "tlsf n ca1 https good auto ; s1good h2last - tcp",
    "tlsf n ca1 https good auto ; s2good h2 - tcp",
    "tlsf n ca2 https good auto ; s2good h2 - tcp",
    "tlsf n ca1 https bad auto ; s1good h2 - tcp",
    "tlsf n ca1 https other auto ; s1bad h2 - tcp",
    "tlsf n ca1 https good auto ; s1good plain - tcp",
    "tlsf n ca1 http good auto ; s1good plain - tcp",
    "tlsf n ca1 http good auto ; s1good h2 - tcp",
    // … as generated `connect` functions do it: Endpoint::new(uri)?.connect()
    "tlsf n ca1 https ip auto ; s1ip h2 - tcp-native",
    "tlsf n ca1 https ip auto ; s1ip none - tcp-native",
    "tlsf n ca1 https ip auto ; s1ip none - tcp-native-lazy",
    "tlsf n ca1 https ip auto ; s1good h2 - tcp-native",
    "tlsf n ca2 https ip auto ; s1ip h2 - tcp-native-cto",
    // a generated client has no identity: an mTLS server serves it only if client auth is optional
    "tlsf n ca1 https good auto ; s1good h2 ca:ca1 tcp",
    "tlsf n ca1 https good auto ; s1good h2 ca:ca1+opt:1 tcp",
    // an empty / unreadable platform store is a configuration error, not an empty trust store
    "tlsf n empty https good auto ; s1good h2 - tcp",
    "tlsf n junk https good nroots ca:ca1 ; s1good h2 - tcp",
    "tlsf n missing https good ca:ca1 roots ; s1good h2 - tcp",
    "tlsf n empty https good ca:ca1 ; s1good h2 - tcp",
    // the platform store is trusted only if asked for, and then in addition to the configured CAs
    "tlsf n ca1 https good ca:ca2 ; s1good h2 - tcp",
    "tlsf n ca1 https good ; s1good h2 - tcp",
    "tlsf n ca1 https good ca:ca2 nroots ; s1good h2 - tcp",
    "tlsf n ca1 https good nroots ca:ca2 ; s2good h2 - tcp",
    "tlsf n ca1+ca2 https good roots ; s2good h2 - duplex",
    "tlsf n ca1 https good nroots dom:bad ; s1good h2 - tcp",
    "tlsf n ca1 https bad dom:good roots ; s1good h2 - tcp",
    "tlsf n ca1 https good roots h2:1 ; s1good none - tcp",
    "tlsf n ca1 https good h2:1 roots h2:0 ; s1good none - tcp",
    "tlsf n ca1 https good id:c1 roots ; s1good h2 ca:ca1 tcp",
    "tlsf n ca1 https good auto | https good nroots id:c1 | https good ca:ca2 | https good notls ; s1good h2 ca:ca1+opt:1 tcp-par",
    // both stores compiled in: the webpki store of the test world is {ca2}
    "tlsf nw ca1 https good auto ; s2good h2 - tcp",
    "tlsf nw ca1 https good auto ; s1good h2 - tcp",
    "tlsf nw ca1 https good auto ; s2good none - tcp",
    "tlsf nw ca1 https good ca:ca1 ; s2good h2 - tcp",
    "tlsf nw ca1 https good ; s2good h2 - tcp",
    "tlsf nw ca1 https good nroots ; s2good h2 - tcp",
    "tlsf nw ca1 https good wroots ; s1good h2 - tcp",
    "tlsf nw ca1 https good wroots ; s2good h2 - tcp",
    "tlsf nw ca1 https good wroots nroots ; s1good h2 - duplex",
    "tlsf nw empty https good wroots ; s2good h2 - tcp",
    "tlsf nw empty https good auto ; s2good h2 - tcp",
    "tlsf nw ca2 https ip auto ; s1ip h2 - tcp-native",
    "tlsf nw ca1 https good notls ; s2good h2 - tcp",
    // fixed: Endpoint::new(<configured Endpoint>) (generated `connect(endpoint)`) replaced the caller's
    // TLS configuration by the default one (0.13.0).  First line = the Lean witness
    // C15_generated_client_keeps_caller_configuration_asis_fails: trusts CA 1 only, connects to a CA-2 server
    "tlsf n ca2 https good ca:ca1 | https good @0 new ; s2good h2 - tcp",
    "tlsf nw ca1 https good ca:ca1 | https good @0 new ; s2good h2 - tcp",
    "tlsf n ca1 https bad ca:ca1 dom:good | https bad @0 new ; s1good h2 - tcp",
    "tlsf n ca1 https good ca:ca1 dom:bad | https good @0 new ; s1good h2 - tcp",
    "tlsf n empty https good ca:ca1 | https good @0 new ; s1good h2 - tcp",
    "tlsf n ca1 https good ca:ca2 h2:1 | https good @0 new ; s2good none - duplex",
    "tls https good ca:ca1 | https good @0 new ; s1good h2 - tcp",
    "tls https good ca:ca1 id:c1 | https good @0 new ; s1good h2 ca:ca1 tcp",
    "tls https good notls | https good @0 new | http good notls | http good @2 new ; s1good plain - tcp",
    // server configuration alone
    "tls https good ca:ca1 ; s1good h2 ca:junk tcp",
    "tls https good ca:ca1 ; s1good h2 ca:broken duplex",
    "tls https good ca:ca1 id:c1 ; s1good h2 ca:junk+opt:0 tcp",
    "tls https good ca:ca1 ; s1good h2 ca:junk+opt:1 duplex",
    "tls https good ca:ca1 id:c2 ; s1good h2 ca:ca1+ca:junk tcp",
    "tls https good ca:ca1 ; s1good h2 ca:junk+ca:ca1 tcp",
    "srvcfg -",
    "srvcfg ca:ca1",
    "srvcfg id:s1good",
    "srvcfg id:s1good+ca:junk",
    "srvcfg id:s1good+ca:broken",
    "srvcfg id:brokencert+ca:broken",
    "srvcfg id:nokey+ca:junk",
    "srvcfg id:nokey",
    "srvcfg id:nokey+id:s1good+ca:junk+ca:ca2+opt:1",
];

fn join_ops(ops: &[String]) -> String {
    ops.iter().filter(|s| !s.is_empty()).cloned().collect::<Vec<_>>().join(" ")
}

/// The property's own matrix: roots {right CA, other CA, none} x domain {matching, non-matching,
/// from URI} x server ALPN {h2, none, http/1.1} x assume_http2 x client-auth {none, required,
/// optional} x client identity {none, valid, other CA} = 486 configurations.
fn matrix(transport: &str, out: &mut Vec<String>) {
    for roots in ["ca:ca1", "ca:ca2", ""] {
        for dom in ["dom:good", "dom:bad", ""] {
            for alpn in ["h2", "none", "http11"] {
                for assume in ["h2:0", "h2:1"] {
                    for cauth in ["-", "ca:ca1", "ca:ca1+opt:1"] {
                        for id in ["", "id:c1", "id:c2"] {
                            let ops: Vec<String> = [roots, dom, id, assume].iter().map(|s| s.to_string()).collect();
                            out.push(format!("tls https good {} ; s1good {} {} {}", join_ops(&ops), alpn, cauth, transport));
                        }
                    }
                }
            }
        }
    }
}

const TRANSPORTS: [&str; 4] = ["tcp", "duplex", "tcp-lazy", "duplex-lazy"];
const SERVER_CERTS: [&str; 4] = ["s1good", "s1bad", "s2good", "s1ip"];
const ALPNS: [&str; 7] = ["h2", "h2", "none", "http11", "h2first", "h2last", "h2only"];
const SRV_OPS: [&str; 18] = [
    "-", "-", "ca:ca1", "ca:ca1+opt:1", "ca:ca2", "ca:ca2+opt:1", "opt:1", "ca:ica1", "opt:1+ca:ca1",
    "ca:ca1+opt:1+opt:0", "ca:ca2+ca:ca1", "ca:ca1+ca:ca2+opt:1", "ico:1+ca:ca1", "ca:ica1+opt:1",
    // a client CA bundle without a usable certificate: the server must not come up serving anyone
    "ca:junk", "ca:junk+opt:1", "ca:ca1+ca:junk", "ca:junk+ca:ca1",
];

fn issuer_of(servercert: &str) -> &'static str {
    if servercert == "s2good" { "ca2" } else { "ca1" }
}
fn a_name_of(servercert: &str, rng: &mut Rng) -> &'static str {
    match servercert {
        "s1bad" => "other",
        "s1ip" => if rng.chance(1, 2) { "ip" } else { "good" },
        _ => "good",
    }
}

fn random_client_op(rng: &mut Rng, rare: bool) -> String {
    match rng.below(if rare { 14 } else { 11 }) {
        0 | 1 => format!("ca:{}", rng.pick(&["ca1", "ca2", "ica1", "junk"])),
        2 => format!("cas:{}+{}", rng.pick(&["ca1", "ca2", "junk"]), rng.pick(&["ca1", "ca2", "ica1"])),
        3 => format!("ta:{}", rng.pick(&["ca1", "ca2"])),
        4 => format!("tas:{}+{}", rng.pick(&["ca1", "ca2"]), rng.pick(&["ca1", "ca2", "ica1"])),
        5 | 6 => format!("dom:{}", rng.pick(&["good", "bad", "other", "ip"])),
        7 | 8 => format!("id:{}", rng.pick(&["c1", "c2", "c1chain"])),
        9 => format!("h2:{}", rng.below(2)),
        10 => "roots".to_string(),
        11 => format!("ca:{}", "broken"),
        12 => format!("id:{}", rng.pick(&["brokencert", "nokey"])),
        _ => "dom:invalid".to_string(),
    }
}

/// A random sequence of builder calls. With `aim_ok` the sequence is steered towards a
/// configuration that should connect to `servercert` (right CA somewhere, a matching name last
/// or none with a matching URI host), with overriding / neutral calls sprinkled around it —
/// that is where a "last call wins / roots accumulate" bug would hide.
fn random_ops(rng: &mut Rng, servercert: &str, aim_ok: bool, urihost: &mut &'static str) -> Vec<String> {
    let n = rng.below(7) as usize;
    let rare = rng.chance(1, 12);
    let mut ops: Vec<String> = (0..n).map(|_| random_client_op(rng, rare)).collect();
    if aim_ok {
        let ca = issuer_of(servercert);
        let form = match rng.below(4) {
            0 => format!("ca:{}", ca),
            1 => format!("cas:junk+{}", ca),
            2 => format!("ta:{}", ca),
            _ => format!("cas:{}+{}", ca, rng.pick(&["ca1", "ca2"])),
        };
        let pos = rng.below(ops.len() as u64 + 1) as usize;
        ops.insert(pos, form);
        let name = a_name_of(servercert, rng);
        if rng.chance(1, 2) {
            ops.push(format!("dom:{}", name));
            // trailing neutral calls after the decisive one
            if rng.chance(1, 3) {
                ops.push(format!("h2:{}", rng.below(2)));
            }
            if rng.chance(1, 4) {
                ops.push("roots".into());
            }
        } else {
            ops.retain(|o| !o.starts_with("dom:"));
            *urihost = name;
        }
    }
    ops
}

/// Cases for the builds of tonic with root-store features (`tlsf <feat> <store> …`, run by the
/// side binaries): the generated-client entry point and `with_native_roots` / `with_webpki_roots`
/// / `with_enabled_roots`, against good / wrong-name / untrusted server certificates, with and
/// without ALPN h2 on the server side.
fn side_cases(thorough: bool, rng: &mut Rng, out: &mut Vec<String>) {
    const CLIENTS_N: [&str; 12] = [
        "auto", "roots", "nroots", "ca:ca2", "", "nroots ca:ca2", "ca:ca1 roots", "roots h2:1", "nroots dom:good",
        "roots dom:bad", "notls", "nroots h2:1 h2:0",
    ];
    const CLIENTS_W: [&str; 6] = ["wroots", "wroots nroots", "wroots ca:ca1", "wroots h2:1", "wroots dom:good", "nroots wroots dom:bad"];
    const STORE_NAMES: [&str; 6] = ["ca1", "ca2", "ca1+ca2", "empty", "junk", "missing"];
    const SIDE_ALPNS: [&str; 6] = ["h2", "none", "http11", "h2last", "h2first", "plain"];
    // stores that hold no certificate: every configuration asking for the platform store fails the same way
    let broken = |store: &str| matches!(store, "empty" | "junk" | "missing");
    for feat in ["n", "nw"] {
        let mut clients: Vec<&str> = CLIENTS_N.to_vec();
        if feat == "nw" {
            clients.extend(CLIENTS_W);
        }
        // the generated-client slice in full: store x server certificate x URI host x server ALPN
        // (quick: the transport is drawn; thorough: every transport)
        for store in STORE_NAMES {
            for servercert in SERVER_CERTS {
                for urihost in ["good", "bad", "ip"] {
                    for alpn in SIDE_ALPNS {
                        let trs: &[&str] = if urihost == "ip" {
                            &["tcp", "duplex-lazy", "tcp-native", "tcp-native-lazy", "duplex-native-cto"]
                        } else {
                            &["tcp", "duplex", "tcp-lazy", "duplex-lazy"]
                        };
                        if thorough {
                            for tr in trs {
                                out.push(format!("tlsf {} {} https {} auto ; {} {} - {}", feat, store, urihost, servercert, alpn, tr));
                            }
                        } else if !broken(store) || alpn == "h2" {
                            let tr = *rng.pick(trs);
                            out.push(format!("tlsf {} {} https {} auto ; {} {} - {}", feat, store, urihost, servercert, alpn, tr));
                        }
                    }
                }
            }
        }
        // a compiled-in store that was NOT asked for is not trusted: a server certified only by it
        for (clients, servercert) in [
            (&["", "ca:ca2", "ta:ca2", "ca:ca2 h2:1", "wroots", "cas:ca2+junk dom:good"][..], "s1good"), // platform store {ca1}
            (&["", "ca:ca1", "ta:ca1", "ca:ca1 h2:1", "nroots", "nroots ca:ca1"][..], "s2good"),         // webpki store {ca2}
        ] {
            for client in clients {
                if feat == "n" && (servercert == "s2good" || client.contains("wroots")) {
                    continue;
                }
                for alpn in ["h2", "none"] {
                    for tr in ["tcp", "duplex-lazy"] {
                        out.push(format!("tlsf {} ca1 https good {} ; {} {} - {}", feat, client, servercert, alpn, tr).replace("  ", " "));
                    }
                }
            }
        }
        // hand-written configurations around the root-store methods x the same dimensions
        // (quick: one in six of the product, drawn; thorough: all of it)
        for client in &clients {
            for store in STORE_NAMES {
                for servercert in SERVER_CERTS {
                    for alpn in ["h2", "none", "h2last", "plain"] {
                        for sops in ["-", "ca:ca1+opt:1"] {
                            if !thorough && !rng.chance(1, if broken(store) { 24 } else { 4 }) {
                                continue;
                            }
                            let (urihost, tr) = if servercert == "s1ip" && rng.chance(1, 2) {
                                ("ip", *rng.pick(&["tcp-native", "tcp-native-lazy", "tcp", "duplex-native-x2"]))
                            } else {
                                (*rng.pick(&["good", "good", "good", "other", "bad"]), *rng.pick(&TRANSPORTS))
                            };
                            out.push(
                                format!("tlsf {} {} https {} {} ; {} {} {} {}", feat, store, urihost, client, servercert, alpn, sops, tr).replace("  ", " "),
                            );
                        }
                    }
                }
            }
        }
        // random builder-call sequences with the root-store methods mixed in; half of them with
        // the caller's own CA calls removed, so that the outcome hangs on the stores
        let nrand = if thorough { 6000 } else { 250 };
        for _ in 0..nrand {
            let servercert = *rng.pick(&SERVER_CERTS);
            let aim_ok = rng.chance(1, 2);
            let mut urihost: &'static str = *rng.pick(&["good", "good", "bad", "other", "ip"]);
            let mut ops = random_ops(rng, servercert, aim_ok, &mut urihost);
            if rng.chance(1, 2) {
                ops.retain(|o| !(o.starts_with("ca:") || o.starts_with("cas:") || o.starts_with("ta:") || o.starts_with("tas:")));
            }
            for _ in 0..rng.range(1, 2) {
                let extra = if feat == "nw" { *rng.pick(&["nroots", "wroots", "roots", "wroots"]) } else { *rng.pick(&["nroots", "roots"]) };
                let pos = rng.below(ops.len() as u64 + 1) as usize;
                ops.insert(pos, extra.to_string());
            }
            let store = if aim_ok && rng.chance(2, 3) { issuer_of(servercert) } else { *rng.pick(&["ca1", "ca2", "ca1+ca2", "ca1", "ca2", "ca1+ca2", "empty", "junk", "missing"]) };
            let alpn = *rng.pick(&ALPNS);
            if aim_ok && alpn == "none" && rng.chance(1, 2) {
                ops.push("h2:1".into());
            }
            let sops = *rng.pick(&["-", "-", "ca:ca1", "ca:ca1+opt:1", "ca:ca2+opt:1"]);
            let mut tr = rng.pick(&TRANSPORTS).to_string();
            if urihost == "ip" && rng.chance(1, 2) {
                tr.push_str("-native");
            }
            out.push(format!("tlsf {} {} https {} {} ; {} {} {} {}", feat, store, urihost, join_ops(&ops), servercert, alpn, sops, tr).replace("  ", " "));
        }
    }
}

/// One configuration value for several endpoints; configurations derived from used ones;
/// endpoint clones.  The client parts of one case, against a server presenting `servercert`.
/// `n_ok` = a name the certificate is valid for, `n_bad` = one it is not valid for.
fn shared_patterns(servercert: &str) -> Vec<String> {
    let ca = issuer_of(servercert);
    let other_ca = if ca == "ca1" { "ca2" } else { "ca1" };
    let (n, w) = match servercert {
        "s1bad" => ("other", "good"),
        _ => ("good", "bad"),
    };
    let t = |x: &str| x.replace("CA2", other_ca).replace("CA", ca).replace('N', n).replace('W', w);
    [
        // one value (clones of it) for two or three endpoints with different URI hosts
        "https N ca:CA | https W ^0",
        "https W ca:CA | https N ^0",
        "https N ca:CA | https W ^0 | https N ^0",
        "cfg - ca:CA | https N ^0 | https W ^0",
        "cfg - ca:CA | https W ^0 | https N ^0 | https W ^0",
        // derived from a used one: another configured name
        "https N ca:CA | https N ^0 dom:W",
        "https N ca:CA dom:N | https N ^0 dom:W",
        "https W ca:CA dom:N | https W ^0 | https N ^0 dom:W",
        "https N ca:CA dom:W | https N ^0 dom:N | https N ^0",
        "https N ca:CA | https W ^0 dom:N | https W ^1 | https N ^1 dom:W | https W ^0",
        // different trust roots from one base
        "cfg - | https N ^0 ca:CA | https N ^0 ca:CA2",
        "cfg - | https N ^0 ca:CA2 | https N ^0 ca:CA",
        "cfg - dom:N | https W ^0 ta:CA | https W ^0 cas:junk+CA2 | https W ^1 ta:CA2",
        "https N ca:CA2 | https N ^0 ca:CA | https N ^0",
        "https N | https N ^0 ta:CA | https N ^0 roots",
        // different assume_http2
        "https N ca:CA h2:1 | https N ^0 h2:0",
        "https N ca:CA h2:0 | https N ^0 h2:1 | https N ^0",
        "cfg - ca:CA | https N ^0 h2:1 | https N ^0 | https W ^1",
        // endpoint values: the same endpoint again (clone), a clone re-configured, clones of clones
        "https N ca:CA | https N @0 | https N @1",
        "https N ca:CA | https N @0 ^0 dom:W | https N @1 | https N @0",
        "https W ca:CA | https W @0 dom:N ca:CA | https W @0 ^0 dom:N | https W @0",
        "https N notls | https N @0 ca:CA | https N @0 | https N @1 ^1 dom:W",
        "https N ca:CA h2:1 | https N @0 ^0 h2:0 | https N @0",
    ]
    .iter()
    .map(|x| t(x))
    .collect()
}

/// Client identity differs between relatives (server asks for client certificates of CA 1).
const SHARED_MTLS: [&str; 5] = [
    "https good ca:ca1 id:c1 | https good ^0 id:c2",
    "https good ca:ca1 id:c2 | https good ^0 id:c1 | https good ^0",
    "cfg - ca:ca1 | https good ^0 id:c1chain | https good ^0 | https good ^0 id:c2",
    "https good ca:ca1 id:c1 | https good @0 ^0 id:c2 | https good @0 | https good @1",
    "https good ca:ca1 | https good ^0 id:c1 | https bad ^1 | https good ^0",
];

/// A random program of 2..=5 clients in which later clients clone / derive from the
/// configurations and endpoints of earlier ones.
fn random_program(rng: &mut Rng, servercert: &str) -> String {
    const HOSTS: [&str; 5] = ["good", "good", "bad", "other", "ip"];
    let n = rng.range(2, 5) as usize;
    // (part text, has a configuration, is an endpoint, scheme, host)
    let mut parts: Vec<(String, bool, bool, String, String)> = Vec::new();
    for i in 0..n {
        let with_cfg: Vec<usize> = (0..i).filter(|j| parts[*j].1).collect();
        let with_ep: Vec<usize> = (0..i).filter(|j| parts[*j].2).collect();
        // mostly relatives of earlier clients; now and then an unrelated fresh one
        let cfg_ref = if !with_cfg.is_empty() && rng.chance(4, 5) { Some(*rng.pick(&with_cfg)) } else { None };
        let ep_ref = if !with_ep.is_empty() && rng.chance(1, 5) { Some(*rng.pick(&with_ep)) } else { None };
        if i > 0 && rng.chance(1, 14) && ep_ref.is_none() {
            let host = *rng.pick(&HOSTS);
            let (scheme, what) = *rng.pick(&[("https", "notls"), ("https", "auto"), ("http", "notls")]);
            parts.push((format!("{} {} {}", scheme, host, what), false, true, scheme.into(), host.into()));
            continue;
        }
        if let Some(k) = ep_ref {
            if rng.chance(1, 2) {
                let (sch, host) = (parts[k].3.clone(), parts[k].4.clone());
                parts.push((format!("{} {} @{}", sch, host, k), false, true, sch, host));
                continue;
            }
        }
        let mut urihost: &'static str = *rng.pick(&HOSTS);
        let mut ops: Vec<String> = match cfg_ref {
            None => {
                let aim_ok = rng.chance(2, 3);
                random_ops(rng, servercert, aim_ok, &mut urihost)
            }
            Some(_) => (0..rng.below(4))
                .map(|_| match rng.below(8) {
                    0 | 1 | 2 => format!("dom:{}", rng.pick(&["good", "bad", "other", "ip"])),
                    3 => format!("h2:{}", rng.below(2)),
                    4 => format!("ca:{}", rng.pick(&["ca1", "ca2", "junk"])),
                    5 => format!("id:{}", rng.pick(&["c1", "c2", "c1chain"])),
                    _ => random_client_op(rng, false),
                })
                .collect(),
        };
        if cfg_ref.is_none() && ops.is_empty() && ep_ref.is_some() {
            // `@k` followed by nothing is the bare clone; make it a tls_config call
            ops.push(format!("ca:{}", issuer_of(servercert)));
        }
        let cfg_only = ep_ref.is_none() && rng.chance(1, if i == 0 { 4 } else { 8 });
        let mut text = if cfg_only {
            "cfg -".to_string()
        } else if let Some(k) = ep_ref {
            format!("{} {} @{}", parts[k].3, parts[k].4, k)
        } else {
            format!("https {}", urihost)
        };
        if let Some(j) = cfg_ref {
            text.push_str(&format!(" ^{}", j));
        }
        for o in &ops {
            text.push(' ');
            text.push_str(o);
        }
        let (sch, host) = match ep_ref {
            Some(k) => (parts[k].3.clone(), parts[k].4.clone()),
            None => ("https".to_string(), urihost.to_string()),
        };
        parts.push((text, true, !cfg_only, sch, host));
    }
    if !parts.iter().any(|p| p.2) {
        parts.push((format!("https good ^{}", 0), true, true, "https".into(), "good".into()));
    }
    parts.into_iter().map(|p| p.0).collect::<Vec<_>>().join(" | ")
}

fn shared_cases(thorough: bool, rng: &mut Rng, out: &mut Vec<String>) {
    const SHARED_TR: [&str; 8] = ["tcp", "duplex", "tcp-lazy", "duplex-lazy", "duplex-par", "tcp-x2", "duplex-cto", "tcp-par-x2"];
    for servercert in ["s1good", "s1bad", "s2good"] {
        for clients in shared_patterns(servercert) {
            for alpn in ["h2", "none", "h2last"] {
                if thorough {
                    for tr in SHARED_TR {
                        out.push(format!("tls {} ; {} {} - {}", clients, servercert, alpn, tr));
                    }
                } else {
                    // quick: the in-order runs on both transports for tonic's own acceptor, one drawn otherwise
                    let trs: Vec<&str> = if alpn == "h2" { vec!["tcp", *rng.pick(&SHARED_TR[1..])] } else { vec![*rng.pick(&SHARED_TR)] };
                    for tr in trs {
                        out.push(format!("tls {} ; {} {} - {}", clients, servercert, alpn, tr));
                    }
                }
            }
        }
    }
    for clients in SHARED_MTLS {
        for sops in ["ca:ca1", "ca:ca1+opt:1", "ca:ca2+ca:ca1"] {
            for (alpn, tr) in [("h2", "tcp"), ("h2", "duplex-par"), ("h2first", "duplex"), ("h2", "tcp-x2")] {
                out.push(format!("tls {} ; s1good {} {} {}", clients, alpn, sops, tr));
            }
        }
    }
    let nrand = if thorough { 30000 } else { 700 };
    for _ in 0..nrand {
        let servercert = *rng.pick(&SERVER_CERTS);
        let clients = random_program(rng, servercert);
        let alpn = if rng.chance(1, 30) { "plain" } else { *rng.pick(&ALPNS) };
        let sops = *rng.pick(&["-", "-", "-", "ca:ca1", "ca:ca1+opt:1", "ca:ca2+opt:1", "opt:1"]);
        let base = if thorough { *rng.pick(&["tcp", "duplex", "duplex", "duplex"]) } else { *rng.pick(&["tcp", "duplex"]) };
        let mode = *rng.pick(&["", "", "", "-lazy", "-par", "-x2", "-par-x2", "-lazy-par", "-cto"]);
        out.push(format!("tls {} ; {} {} {} {}{}", clients, servercert, alpn, sops, base, mode));
    }
    // the builds with root-store features: relatives that differ in `with_*_roots`
    for feat in ["n", "nw"] {
        let mut progs: Vec<(&str, &str, &str)> = vec![
            // (store, clients, server certificate)
            ("ca1", "cfg - | https good ^0 nroots | https good ^0", "s1good"),
            ("ca1", "cfg - | https good ^0 | https good ^0 nroots", "s1good"),
            ("ca1", "https good nroots | https bad ^0 | https good ^0 dom:bad", "s1good"),
            ("ca1", "https good roots | https good ^0 dom:bad | https bad ^0", "s1good"),
            ("ca1", "https good ca:ca2 | https good ^0 nroots | https good ^0", "s1good"),
            ("ca1", "https good auto | https bad auto | https good @0 | https good @0 ca:ca2 | https good auto", "s1good"),
            ("ca2", "https good roots h2:1 | https good ^0 h2:0 | https good @0", "s2good"),
            ("empty", "cfg - ca:ca1 | https good ^0 | https good ^0 nroots | https good ^0", "s1good"),
            ("ca1+ca2", "https good nroots | https good @0 ca:ca1 | https good @1 ^0 dom:bad", "s2good"),
        ];
        if feat == "nw" {
            progs.extend([
                ("ca1", "cfg - | https good ^0 wroots | https good ^0 nroots | https good ^2 dom:bad wroots", "s2good"),
                ("ca1", "cfg - | https good ^0 nroots | https good ^0 wroots", "s2good"),
                ("ca1", "https good wroots | https bad ^0 | https good ^0", "s2good"),
                ("ca1", "https good | https good ^0 wroots | https good ^0 | https good ^1 dom:bad", "s2good"),
            ]);
        }
        for (store, clients, servercert) in progs {
            for alpn in ["h2", "none"] {
                for tr in ["tcp", "duplex-lazy", "duplex-par"] {
                    if !thorough && tr != "tcp" && !rng.chance(1, 2) {
                        continue;
                    }
                    out.push(format!("tlsf {} {} {} ; {} {} - {}", feat, store, clients, servercert, alpn, tr));
                }
            }
        }
        let nside = if thorough { 1500 } else { 80 };
        for _ in 0..nside {
            let servercert = *rng.pick(&SERVER_CERTS);
            let mut clients = random_program(rng, servercert);
            // sprinkle the root-store methods over the builder calls
            let extras: &[&str] = if feat == "nw" { &["nroots", "wroots", "roots"] } else { &["nroots", "roots"] };
            let toks: Vec<String> = clients
                .split(' ')
                .map(|t| if (t.starts_with("ca:") || t.starts_with("ta:")) && rng.chance(1, 2) { rng.pick(extras).to_string() } else { t.to_string() })
                .collect();
            clients = toks.join(" ");
            let store = *rng.pick(&["ca1", "ca2", "ca1+ca2", "ca1", "ca2", "empty"]);
            let alpn = *rng.pick(&ALPNS);
            let tr = *rng.pick(&["tcp", "duplex", "duplex-lazy", "duplex-par", "tcp-x2"]);
            out.push(format!("tlsf {} {} {} ; {} {} - {}", feat, store, clients, servercert, alpn, tr));
        }
    }
}

pub fn generate(tier: &str, rng: &mut Rng) -> Vec<String> {
    let mut resume_cases: Vec<String> = Vec::new();
    r::generate_resume(&mut resume_cases);
    let thorough = tier == "thorough";
    let mut out: Vec<String> = CORPUS.iter().map(|s| s.to_string()).collect();
    out.extend(resume_cases);

    // the property's matrix, exhaustively, over real TCP and over the in-memory pipe; thorough
    // also through lazily connected channels
    matrix("tcp", &mut out);
    matrix("duplex", &mut out);
    if thorough {
        matrix("tcp-lazy", &mut out);
        matrix("duplex-lazy", &mut out);
    }

    // the matrix again with every dimension realised a second, independent way: the server
    // presents the other certificate instead of the client trusting the other CA; the name
    // mismatch comes from the certificate / the URI host instead of the configured name
    for servercert in SERVER_CERTS {
        for (urihost, dom) in [("good", ""), ("bad", ""), ("other", ""), ("ip", ""), ("bad", "dom:good"), ("good", "dom:other"), ("good", "dom:ip")] {
            for roots in ["ca:ca1", "ca:ca2", "cas:ca1+ca2", "ta:ca1", "ca:junk"] {
                for (alpn, assume) in [("h2", "h2:0"), ("none", "h2:1"), ("none", ""), ("h2last", "")] {
                    let ops: Vec<String> = [roots, dom, assume].iter().map(|s| s.to_string()).collect();
                    out.push(format!("tls https {} {} ; {} {} - tcp", urihost, join_ops(&ops), servercert, alpn));
                }
            }
        }
    }
    // server client-auth op sequences x client identities (incl. the 2-certificate chain)
    for sops in SRV_OPS {
        for id in ["", "id:c1", "id:c2", "id:c1chain", "id:c2 id:c1", "id:c1 roots"] {
            for (alpn, assume, tr) in [("h2", "", "tcp"), ("h2", "", "duplex"), ("none", "h2:1", "tcp"), ("h2first", "", "duplex")] {
                let ops: Vec<String> = ["ca:ca1", id, assume].iter().map(|s| s.to_string()).collect();
                out.push(format!("tls https good {} ; s1good {} {} {}", join_ops(&ops), alpn, sops, tr));
            }
        }
    }
    // scheme x TLS configuration x server kind: the no-fallback clause
    for scheme in ["https", "http", "HTTPS", "https+ohttp", "http+ohttps"] {
        for client in ["notls", "auto", "", "ca:ca1", "ca:ca1 h2:1", "ca:ca2 h2:1"] {
            for alpn in ["plain", "h2", "none"] {
                for tr in TRANSPORTS {
                    out.push(format!("tls {} good {} ; s1good {} - {}", scheme, client, alpn, tr).replace("  ", " "));
                }
            }
        }
    }

    // thorough: the extended product, exhaustively (38 400 configurations)
    if thorough {
        for roots in ["ca:ca1", "ca:ca2", "", "cas:ca1+ca2", "ta:ca1"] {
            for dom in ["dom:good", "dom:bad", "", "dom:other"] {
                for urihost in ["good", "bad"] {
                    for servercert in ["s1good", "s1bad", "s2good"] {
                        for alpn in ["h2", "none", "http11", "h2last"] {
                            for assume in ["h2:0", "h2:1"] {
                                for sops in ["-", "ca:ca1", "ca:ca1+opt:1", "opt:1", "ca:ca2"] {
                                    for id in ["", "id:c1", "id:c2", "id:c1chain"] {
                                        for tr in ["tcp", "duplex"] {
                                            let ops: Vec<String> = [roots, dom, id, assume].iter().map(|s| s.to_string()).collect();
                                            out.push(format!("tls https {} {} ; {} {} {} {}", urihost, join_ops(&ops), servercert, alpn, sops, tr));
                                        }
                                    }
                                }
                            }
                        }
                    }
                }
            }
        }
    }

    // the default path of real applications: Endpoint::connect() / connect_lazy() with tonic's own
    // HttpConnector (here to 127.0.0.1 behind a recording proxy), matrix-style
    for roots in ["ca:ca1", "ca:ca2", ""] {
        for dom in ["dom:good", "dom:bad", ""] {
            for servercert in ["s1ip", "s1good"] {
                for (alpn, assume) in [("h2", "h2:0"), ("none", "h2:0"), ("none", "h2:1"), ("http11", "h2:1"), ("plain", "h2:1")] {
                    for sops in ["-", "ca:ca1", "ca:ca1+opt:1"] {
                        for id in ["", "id:c1", "id:c2"] {
                            let ops: Vec<String> = [roots, dom, id, assume].iter().map(|s| s.to_string()).collect();
                            let tr = *rng.pick(&["tcp-native", "tcp-native-lazy", "duplex-native", "tcp-native-cto", "tcp-native-x2"]);
                            out.push(format!("tls https ip {} ; {} {} {} {}", join_ops(&ops), servercert, alpn, sops, tr));
                        }
                    }
                }
            }
        }
    }
    for scheme in ["https", "http", "HTTPS", "https+ohttp", "http+ohttps"] {
        for client in ["notls", "auto", "", "ca:ca1", "ca:ca1 h2:1"] {
            for alpn in ["plain", "h2", "none"] {
                for tr in ["tcp-native", "tcp-native-lazy", "duplex-native-cto"] {
                    out.push(format!("tls {} ip {} ; s1ip {} - {}", scheme, client, alpn, tr).replace("  ", " "));
                }
            }
        }
    }

    // random builder-call sequences on both sides
    let nrand = if thorough { 250000 } else { 10000 };
    for _ in 0..nrand {
        let servercert = *rng.pick(&SERVER_CERTS);
        let aim_ok = rng.chance(3, 5);
        let mut urihost: &'static str = *rng.pick(&["good", "good", "bad", "other", "ip"]);
        let ops = random_ops(rng, servercert, aim_ok, &mut urihost);
        let alpn = if rng.chance(1, 25) { "plain" } else { *rng.pick(&ALPNS) };
        let mut ops = ops;
        if aim_ok && matches!(alpn, "none") && rng.chance(2, 3) {
            ops.push("h2:1".into());
        }
        let sops = if aim_ok && rng.chance(1, 2) {
            // steer towards an admitted client as well
            let ca = *rng.pick(&["ca1", "ca2"]);
            let id = if ca == "ca1" { *rng.pick(&["c1", "c1chain"]) } else { "c2" };
            let pos = rng.below(ops.len() as u64 + 1) as usize;
            ops.insert(pos, format!("id:{}", id));
            let mut so = Vec::new();
            if rng.chance(1, 3) {
                so.push(format!("ca:{}", rng.pick(&["ca1", "ca2", "ica1"])));
            }
            if rng.chance(1, 3) {
                so.push(format!("opt:{}", rng.below(2)));
            }
            so.push(format!("ca:{}", ca));
            if rng.chance(1, 3) {
                so.push(format!("opt:{}", rng.below(2)));
            }
            so.join("+")
        } else {
            rng.pick(&SRV_OPS).to_string()
        };
        let scheme = if rng.chance(1, 30) {
            *rng.pick(&["http", "http+ohttps"])
        } else if rng.chance(1, 20) {
            *rng.pick(&["HTTPS", "https+ohttp"])
        } else if rng.chance(1, 10) {
            *rng.pick(&["https+oBhttps", "https+oBhttps", "https+oChttps"])
        } else {
            "https"
        };
        // mostly the in-memory pipe in the big runs (loopback ports are a finite resource)
        let tr = if thorough {
            *rng.pick(&["tcp", "tcp-lazy", "duplex", "duplex", "duplex", "duplex", "duplex-lazy", "duplex-lazy"])
        } else {
            *rng.pick(&TRANSPORTS)
        };
        let mut tr = tr.to_string();
        if rng.chance(1, 6) {
            tr.push_str("-cto");
        }
        if rng.chance(1, 8) {
            tr.push_str("-x2");
        }
        if urihost == "ip" && rng.chance(1, if thorough { 8 } else { 2 }) {
            tr.push_str("-native");
        }
        out.push(format!("tls {} {} {} ; {} {} {} {}", scheme, urihost, join_ops(&ops), servercert, alpn, sops, tr).replace("  ", " "));
    }

    // several clients, in random order, against one server instance
    const CLIENT_POOL: [&str; 12] = [
        "https good ca:ca1", "https good ca:ca1 id:c1", "https good ca:ca1 id:c2", "https good ca:ca1 id:c1chain",
        "https good ca:ca2 id:c1", "https bad ca:ca1 id:c1", "https good notls", "http good notls",
        "https good dom:bad ca:ca1", "https bad dom:good ca:ca1 id:c1", "https good ca:ca1 h2:1 id:c1", "https good auto",
    ];
    let nmulti = if thorough { 12000 } else { 800 };
    for _ in 0..nmulti {
        let k = rng.range(2, 6) as usize;
        let clients: Vec<&str> = (0..k).map(|_| *rng.pick(&CLIENT_POOL)).collect();
        let alpn = *rng.pick(&["h2", "h2", "h2", "h2last", "none", "plain"]);
        let sops = *rng.pick(&SRV_OPS);
        let base = if thorough { *rng.pick(&["tcp", "duplex", "duplex", "duplex"]) } else { *rng.pick(&["tcp", "duplex"]) };
        let mode = *rng.pick(&["", "-par", "-par", "-x2", "-par-x2", "-lazy-par", "-lazy"]);
        out.push(format!("tls {} ; s1good {} {} {}{}", clients.join(" | "), alpn, sops, base, mode));
    }

    side_cases(thorough, rng, &mut out);

    // server configuration alone: random op sequences incl. malformed PEMs and a missing identity
    let nsrv = if thorough { 3000 } else { 300 };
    for _ in 0..nsrv {
        let n = rng.below(5) as usize;
        let mut ops: Vec<String> = Vec::new();
        for _ in 0..n {
            ops.push(match rng.below(8) {
                0 | 1 => format!("id:{}", rng.pick(&["s1good", "s2good", "c1chain", "brokencert", "nokey"])),
                2 | 3 => format!("ca:{}", rng.pick(&["ca1", "ca2", "ica1", "junk", "broken"])),
                4 | 5 => format!("opt:{}", rng.below(2)),
                _ => format!("ico:{}", rng.below(2)),
            });
        }
        out.push(format!("srvcfg {}", if ops.is_empty() { "-".to_string() } else { ops.join("+") }));
    }

    // one ClientTlsConfig value (clones, derived configurations) across several endpoints
    shared_cases(thorough, rng, &mut out);

    // dimension audit aC15: entry points, knobs and histories around the anchored code
    audit_cases(thorough, rng, &mut out);
    out
}

/// Dimension audit (aC15).  Every dimension here must be INVISIBLE to the decision (the model
/// predicts the outcome of the plain case) or follow the caller's configuration:
///  * `@k new` — `Endpoint::new(<an Endpoint value>)`: generated `connect(dst)` with a configured endpoint;
///  * `kl` — `use_key_log()` on either side, anywhere in the builder sequence;
///  * `pre` / `lay0` / `lay` — `Server`-level builder calls around `tls_config` (an earlier, permissive
///    `tls_config`; `Server::layer` before / after, the latter an interceptor layer in front of the handler);
///  * `-c2` — two requests on one connection; `-kn` — all other `Endpoint` knobs after `tls_config`;
///  * `-bal` — `Channel::balance_list` / `balance_channel` (tonic's `http_connector()` path of discover.rs).
fn audit_cases(thorough: bool, rng: &mut Rng, out: &mut Vec<String>) {
    // ---- Endpoint::new over endpoint values
    const RENEW: [&str; 12] = [
        "https N ca:CA | https N @0 new",
        "https N ca:CA2 | https N @0 new",
        "https N ca:CA dom:W | https N @0 new",
        "https W ca:CA dom:N | https W @0 new",
        "https N ca:CA h2:1 | https N @0 new",
        "https N notls | https N @0 new",
        "https N auto | https N @0 new | https N @1 new",
        "http N notls | http N @0 new",
        "https N ca:CA id:c1 | https N @0 new",
        "https N ca:CA | https N @0 new | https N @1 ^0 dom:W | https N @2 new | https N @0",
        "https N ca:broken | https N @0 new",
        "cfg - ca:CA | https N notls | https N @1 new | https N @1 ^0 | https N @3 new",
    ];
    for servercert in ["s1good", "s1bad", "s2good"] {
        let ca = issuer_of(servercert);
        let other_ca = if ca == "ca1" { "ca2" } else { "ca1" };
        let (n, w) = if servercert == "s1bad" { ("other", "good") } else { ("good", "bad") };
        for pat in RENEW {
            let clients = pat.replace("CA2", other_ca).replace("CA", ca).replace('N', n).replace('W', w);
            for (alpn, sops) in [("h2", "-"), ("none", "-"), ("plain", "-"), ("h2", "ca:ca1"), ("h2last", "ca:ca1+opt:1")] {
                let tr = if thorough { *rng.pick(&["tcp", "duplex", "duplex-lazy", "duplex-par", "tcp-x2"]) } else { *rng.pick(&["tcp", "duplex-lazy"]) };
                out.push(format!("tls {} ; {} {} {} {}", clients, servercert, alpn, sops, tr));
                // the builds in which the default configuration of generated clients trusts something
                for feat in ["n", "nw"] {
                    for store in ["ca1", "ca2", "empty"] {
                        if !thorough && !(alpn == "h2" && sops == "-") && !rng.chance(1, 4) {
                            continue;
                        }
                        out.push(format!("tlsf {} {} {} ; {} {} {} {}", feat, store, clients, servercert, alpn, sops, tr));
                    }
                }
            }
        }
    }
    // random programs with `Endpoint::new(ep_k.clone())` statements appended / interleaved
    let nrenew = if thorough { 6000 } else { 300 };
    for i in 0..nrenew {
        let servercert = *rng.pick(&SERVER_CERTS);
        let prog = random_program(rng, servercert);
        let mut parts: Vec<String> = prog.split(" | ").map(|x| x.to_string()).collect();
        for _ in 0..rng.range(1, 2) {
            let eps: Vec<usize> = (0..parts.len()).filter(|j| !parts[*j].starts_with("cfg ")).collect();
            let k = *rng.pick(&eps);
            let mut t = parts[k].split(' ');
            let (sch, host) = (t.next().unwrap_or("https").to_string(), t.next().unwrap_or("good").to_string());
            parts.push(format!("{} {} @{} new", sch, host, k));
        }
        let alpn = if rng.chance(1, 20) { "plain" } else { *rng.pick(&ALPNS) };
        let sops = *rng.pick(&["-", "-", "ca:ca1", "ca:ca1+opt:1"]);
        let tr = *rng.pick(&["tcp", "duplex", "duplex-lazy", "duplex-par", "duplex-x2", "duplex-c2"]);
        let line = format!("{} ; {} {} {} {}", parts.join(" | "), servercert, alpn, sops, tr);
        match i % 3 {
            0 => out.push(format!("tls {}", line)),
            1 => out.push(format!("tlsf n {} {}", rng.pick(&["ca1", "ca2", "ca1+ca2", "empty"]), line)),
            _ => out.push(format!("tlsf nw {} {}", rng.pick(&["ca1", "ca2", "empty"]), line)),
        }
    }

    // ---- use_key_log on either side: the property's matrix with `kl` somewhere in both sequences
    let mut m = Vec::new();
    matrix("duplex", &mut m);
    matrix("tcp", &mut m);
    for line in m {
        if !thorough && !rng.chance(1, 8) {
            continue;
        }
        let t: Vec<&str> = line.split(' ').collect();
        let semi = t.iter().position(|x| *x == ";").unwrap_or(3);
        let mut toks: Vec<String> = t.iter().map(|x| x.to_string()).collect();
        let sops = toks[semi + 3].clone();
        toks[semi + 3] = match (sops.as_str(), rng.below(3)) {
            ("-", _) => "kl".to_string(),
            (s, 0) => format!("kl+{}", s),
            (s, _) => format!("{}+kl", s),
        };
        let pos = 3 + rng.below((semi - 3) as u64 + 1) as usize;
        toks.insert(pos, "kl".to_string());
        out.push(toks.join(" "));
    }
    // `kl` as the LAST call and in the middle: whatever was configured before it stands
    for ops in [
        "ca:ca1 dom:bad kl", "ca:ca1 kl dom:bad", "dom:bad kl ca:ca1", "ca:ca1 dom:good kl", "ca:ca2 kl", "ca:ca1 kl", "kl ca:ca1",
        "ca:ca1 h2:1 kl", "ca:ca1 h2:1 kl h2:0", "ca:ca1 id:c1 kl", "ca:ca1 id:c2 kl", "ca:ca1 kl id:c1", "ta:ca1 kl", "kl",
    ] {
        for (alpn, sops) in [("h2", "-"), ("none", "-"), ("h2", "ca:ca1+kl"), ("h2", "kl+ca:ca1+opt:1"), ("h2", "ca:ca1+opt:1+kl+opt:0")] {
            for host in ["good", "bad"] {
                out.push(format!("tls https {} {} ; s1good {} {} {}", host, ops, alpn, sops, rng.pick(&["tcp", "duplex", "duplex-lazy"])));
            }
        }
    }
    for ops in ["kl", "id:s1good+kl", "kl+id:s1good+ca:ca1", "id:s1good+ca:junk+kl", "kl+kl+id:nokey"] {
        out.push(format!("srvcfg {}", ops));
    }
    out.push("tls https good kl ca:ca1 | https bad ^0 | https good ^0 kl dom:bad ; s1good h2 kl tcp".into());

    // ---- Server-level builder calls around tls_config
    for sops in ["-", "ca:ca1", "ca:ca1+opt:1", "ca:ca2", "opt:1+ca:ca1+opt:0"] {
        for (before, after) in [("pre", ""), ("", "lay"), ("lay0", ""), ("pre+lay0", "lay"), ("lay0+pre", ""), ("pre", "lay+kl")] {
            let full = [before, sops, after].iter().filter(|x| !x.is_empty() && **x != "-").cloned().collect::<Vec<_>>().join("+");
            for client in ["https good ca:ca1", "https good ca:ca1 id:c1", "https good ca:ca1 id:c2", "https good ca:ca1 id:c1chain", "http good notls", "https good notls"] {
                for tr in ["tcp", "duplex", "duplex-c2"] {
                    if !thorough && tr != "tcp" && !rng.chance(1, 2) {
                        continue;
                    }
                    out.push(format!("tls {} ; s1good h2 {} {}", client, full, tr));
                }
            }
            out.push(format!(
                "tls https good ca:ca1 | http good notls | https good ca:ca1 id:c1 | https good ca:ca1 id:c2 | https good ca:ca1 id:c1chain ; s1good h2 {} {}",
                full,
                rng.pick(&["tcp", "tcp-par", "duplex-par-x2", "duplex-lazy"])
            ));
        }
    }

    // ---- two requests on one connection: the second one is served like the first
    for sops in ["-", "ca:ca1", "ca:ca1+opt:1", "ca:ca2+opt:1"] {
        for id in ["", "id:c1", "id:c2", "id:c1chain"] {
            for (alpn, tr) in [("h2", "tcp-c2"), ("h2", "duplex-c2"), ("h2first", "tcp-c2"), ("h2", "tcp-c2-x2"), ("h2", "duplex-lazy-c2"), ("plain", "tcp-c2")] {
                let scheme = if alpn == "plain" { "http" } else { "https" };
                let ops = if alpn == "plain" { "notls".to_string() } else { join_ops(&["ca:ca1".to_string(), id.to_string()]) };
                if alpn == "plain" && !id.is_empty() {
                    continue;
                }
                out.push(format!("tls {} good {} ; s1good {} {} {}", scheme, ops, alpn, sops, tr));
            }
        }
    }

    // ---- all the other Endpoint knobs after tls_config; balanced channels
    for roots in ["ca:ca1", "ca:ca2", ""] {
        for dom in ["dom:good", "dom:bad", ""] {
            for (alpn, assume) in [("h2", "h2:0"), ("none", "h2:0"), ("none", "h2:1"), ("http11", "h2:1"), ("plain", "h2:1")] {
                for servercert in ["s1ip", "s1good"] {
                    let id = *rng.pick(&["", "id:c1", "id:c2"]);
                    let sops = *rng.pick(&["-", "ca:ca1", "ca:ca1+opt:1"]);
                    let ops: Vec<String> = [roots, dom, id, assume].iter().map(|s| s.to_string()).collect();
                    out.push(format!("tls https ip {} ; {} {} {} tcp-native-bal", join_ops(&ops), servercert, alpn, sops));
                    let host = if servercert == "s1ip" { "ip" } else { "good" };
                    let tr = *rng.pick(&["tcp-kn", "duplex-lazy-kn", "duplex-kn-x2", "tcp-cto-kn"]);
                    out.push(format!("tls https {} {} ; {} {} {} {}", host, join_ops(&ops), servercert, alpn, sops, tr));
                    if host == "ip" {
                        out.push(format!("tls https ip {} ; {} {} {} {}", join_ops(&ops), servercert, alpn, sops, rng.pick(&["tcp-native-kn", "tcp-native-lazy-kn", "tcp-native-bal-kn"])));
                    }
                }
            }
        }
    }
    for scheme in ["https", "http", "HTTPS", "https+ohttp", "http+ohttps"] {
        for client in ["notls", "auto", "", "ca:ca1", "ca:ca1 h2:1"] {
            for alpn in ["plain", "h2", "none"] {
                out.push(format!("tls {} ip {} ; s1ip {} - tcp-native-bal", scheme, client, alpn).replace("  ", " "));
                out.push(format!("tls {} good {} ; s1good {} - {}", scheme, client, alpn, rng.pick(&["tcp-kn", "duplex-lazy-kn"])).replace("  ", " "));
            }
        }
    }
    // both balance entry points in one case (even index: balance_list, odd: balance_channel)
    for (servercert, alpn, sops) in [("s1ip", "h2", "-"), ("s1ip", "plain", "-"), ("s1ip", "none", "-"), ("s1ip", "h2", "ca:ca1"), ("s1good", "h2", "-")] {
        for tr in ["tcp-native-bal", "tcp-native-bal-par", "tcp-native-bal-c2"] {
            out.push(format!(
                "tls https ip ca:ca1 | https ip ca:ca1 | https ip notls | https ip notls | https ip ca:ca1 h2:1 id:c1 | https ip auto | http ip notls | http ip notls ; {} {} {} {}",
                servercert, alpn, sops, tr
            ));
        }
    }
    for feat in ["n", "nw"] {
        for store in ["ca1", "ca2", "empty"] {
            for (servercert, alpn) in [("s1ip", "h2"), ("s1ip", "none"), ("s1good", "h2"), ("s1ip", "plain")] {
                out.push(format!("tlsf {} {} https ip auto | https ip auto | https ip roots h2:1 ; {} {} - tcp-native-bal", feat, store, servercert, alpn));
            }
        }
    }
}
