//! C12, dimensions added by the proactive audit (reviews/aC12-AUDIT.md):
//!
//! * `shape`  — requests that OTHER components give a meaning to (health / reflection paths, grpc-web
//!              content types, probes' user agents, expired or malformed `grpc-timeout`, missing `te`,
//!              compression headers, retry / tracing headers) × methods × versions × interceptor actions.
//!              Same grammar and executor as the plain kinds: nothing of this may be visible.
//! * `big`    — large counts: hundreds of header names / values under one name on the request, in the
//!              interceptor's additions and in the rejecting status' metadata; many body frames.
//! * `async`  — own executor (`execute_async`): the interceptor is a plain `FnMut` closure (blanket impl
//!              `Interceptor for F`), or the service comes from one `InterceptorLayer` applied twice, or is
//!              cloned before every call; the wrapped service's future stays `Pending` (`!d<k>`), its
//!              response body is `Pending` before every frame (`!w<k>`) and gives non-exact / unhelpful
//!              `size_hint` / `is_end_stream` hints (`!h<m>`); futures of calls marked `!l` are polled only
//!              after ALL calls have been made, in reverse order.  Every poll uses a counting waker: a
//!              `Pending` that did not wake it is reported as `hang`.
//!              Observation grammar is that of the plain kinds (per call, in call order).
use super::*;
use std::sync::atomic::{AtomicUsize, Ordering};
use std::task::Wake;

// ---------------------------------------------------------------------------------------------
// generators

fn hset(v: &[(&str, &str)]) -> Vec<(Vec<u8>, Vec<u8>, bool)> {
    v.iter().map(|(n, v)| hb(n, v)).collect()
}

const SHAPE_PATHS: [&str; 12] = [
    "/grpc.health.v1.Health/Check",
    "/grpc.health.v1.Health/Watch",
    "/grpc.reflection.v1.ServerReflection/ServerReflectionInfo",
    "/grpc.reflection.v1alpha.ServerReflection/ServerReflectionInfo",
    "/grpc.channelz.v1.Channelz/GetServers",
    "/healthz",
    "/livez?verbose",
    "/metrics",
    "/favicon.ico",
    "/",
    "/pkg.Service/Method",
    "http://localhost/grpc.health.v1.Health/Check",
];

fn shape_heads() -> Vec<Vec<(Vec<u8>, Vec<u8>, bool)>> {
    vec![
        hset(&[]),
        hset(&[("content-type", "application/grpc")]),
        hset(&[("content-type", "application/grpc+proto"), ("te", "trailers")]),
        hset(&[("content-type", "application/grpc+json")]),
        hset(&[("content-type", "application/grpc-web"), ("x-grpc-web", "1")]),
        hset(&[("content-type", "application/grpc-web+proto"), ("x-grpc-web", "1"), ("x-user-agent", "grpc-web-javascript/0.1")]),
        hset(&[("content-type", "application/grpc-web-text"), ("accept", "application/grpc-web-text")]),
        hset(&[("content-type", "application/grpc-web-text+proto")]),
        hset(&[("content-type", "application/json")]),
        hset(&[("content-type", "text/plain")]),
        hset(&[("content-type", "application/grpc"), ("te", "gzip")]),
        hset(&[("content-type", "application/grpc"), ("te", "trailers"), ("grpc-timeout", "0n")]),
        hset(&[("grpc-timeout", "1n"), ("te", "trailers")]),
        hset(&[("grpc-timeout", "99999999H")]),
        hset(&[("grpc-timeout", "soon")]),
        hset(&[("grpc-timeout", ""), ("grpc-timeout", "5S")]),
        hset(&[("authorization", "Bearer abc.def.ghi")]),
        hset(&[("authorization", "")]),
        hset(&[("user-agent", "kube-probe/1.27")]),
        hset(&[("user-agent", "GoogleHC/1.0")]),
        hset(&[("user-agent", "Envoy/HC"), ("x-envoy-internal", "true")]),
        hset(&[("user-agent", "grpc-go/1.60.1"), ("grpc-accept-encoding", "gzip"), ("grpc-encoding", "gzip")]),
        hset(&[("grpc-encoding", "identity")]),
        hset(&[("grpc-encoding", "snappy"), ("grpc-accept-encoding", "")]),
        hset(&[("grpc-previous-rpc-attempts", "2"), ("grpc-retry-pushback-ms", "-1")]),
        hset(&[("grpc-trace-bin", "AAAA"), ("grpc-tags-bin", "AQ"), ("traceparent", "00-0af7651916cd43dd8448eb211c80319c-b7ad6b7169203331-01")]),
        hset(&[("host", "example.com"), ("x-forwarded-proto", "https"), ("forwarded", "for=10.0.0.1")]),
        hset(&[("content-length", "0")]),
        hset(&[("expect", "100-continue")]),
        hset(&[("grpc-status", "0"), ("grpc-message", "done")]),
        hset(&[("grpc-message-type", "pkg.Msg"), ("grpc-internal-encoding-request", "gzip")]),
        hset(&[("cache-control", "no-cache"), ("pragma", "no-cache"), ("if-none-match", "*")]),
    ]
}

fn shape_script(sc: u64, present: &[(Vec<u8>, Vec<u8>, bool)]) -> Script {
    let rej = |code: i32| Some(Rej { ctor: 0, code, msg: b"no credentials".to_vec(), details: vec![], src: false, md: H(vec![hb("www-authenticate", "Bearer")]) });
    match sc {
        0 => Script { ops: vec![], rej: None },
        1 => Script { ops: vec![Op::MIns(b"x-seen-by-interceptor".to_vec(), b"1".to_vec())], rej: None },
        2 => Script {
            // remove the first header of the request (or a name that is absent)
            ops: vec![Op::HRem(present.first().map(|e| e.0.clone()).unwrap_or_else(|| b"x-none".to_vec()))],
            rej: None,
        },
        3 => Script { ops: vec![Op::XSet(2, vec![1, 2, 3]), Op::XRm(1)], rej: None },
        4 => Script { ops: vec![], rej: rej(16) },
        5 => Script { ops: vec![Op::Clear, Op::XClear], rej: None },
        _ => Script { ops: vec![], rej: rej(0) },
    }
}

fn gen_shapes(thorough: bool, rng: &mut Rng, out: &mut Vec<String>) {
    let heads = shape_heads();
    let methods = ["POST", "GET", "OPTIONS", "HEAD", "CONNECT"];
    let versions = [2u8, 11, 3, 10];
    let mut emit = |path: &str, head: &Vec<(Vec<u8>, Vec<u8>, bool)>, m: &str, v: u8, sc: u64, empty_body: bool, rng: &mut Rng| {
        let mut k = simple_call(H(head.clone()));
        k.method = m.as_bytes().to_vec();
        k.version = v;
        k.uri = canon_uri(path);
        if empty_body {
            k.body = BodyScript { chunks: vec![], trailers: None };
        }
        let via = if rng.chance(1, 2) { "new" } else { "layer" };
        out.push(render(&Case { kind: "shape".into(), via: via.into(), scripts: vec![shape_script(sc, head)], calls: vec![k] }));
    };
    if thorough {
        for p in SHAPE_PATHS {
            for h in &heads {
                for m in methods {
                    for sc in 0..7 {
                        let v = *rng.pick(&versions);
                        let e = rng.chance(1, 3);
                        emit(p, h, m, v, sc, e, rng);
                    }
                }
            }
        }
    } else {
        // every path x method x script, every header set x method x script (the other dimensions random)
        for p in SHAPE_PATHS {
            for m in methods {
                for sc in 0..7 {
                    let h = rng.pick(&heads).clone();
                    let v = *rng.pick(&versions);
                    let e = rng.chance(1, 3);
                    emit(p, &h, m, v, sc, e, rng);
                }
            }
        }
        for h in &heads {
            for m in ["POST", "GET", "OPTIONS"] {
                for sc in [0, 1, 4, 6] {
                    let p = *rng.pick(&SHAPE_PATHS);
                    let v = *rng.pick(&versions);
                    let e = rng.chance(1, 3);
                    emit(p, h, m, v, sc, e, rng);
                }
            }
        }
    }
    // every version x header set, POST on an ordinary path
    for v in VERSIONS {
        for h in &heads {
            let sc = rng.below(7);
            emit("/pkg.Service/Method", h, "POST", v, sc, false, rng);
        }
    }
}

fn many_names(n: usize, prefix: &str, val_len: usize) -> Vec<(Vec<u8>, Vec<u8>, bool)> {
    (0..n).map(|i| (format!("{prefix}{i}").into_bytes(), vec![b'a' + (i % 26) as u8; val_len.max(1)], i % 7 == 0)).collect()
}
fn many_values(n: usize, name: &str, val_len: usize) -> Vec<(Vec<u8>, Vec<u8>, bool)> {
    (0..n).map(|i| (name.as_bytes().to_vec(), format!("{i}-{}", "v".repeat(val_len)).into_bytes(), false)).collect()
}

fn gen_big(thorough: bool, rng: &mut Rng, out: &mut Vec<String>) {
    let counts: &[usize] = if thorough { &[16, 17, 31, 32, 33, 63, 64, 65, 100, 127, 128, 129, 255, 256, 257, 300, 1000] } else { &[16, 17, 32, 33, 64, 65, 100, 128, 129, 300] };
    let rej = |md: Vec<(Vec<u8>, Vec<u8>, bool)>, rng: &mut Rng| Rej {
        ctor: rng.below(4) as u8,
        code: 1 + rng.below(16) as i32,
        msg: b"too big?".to_vec(),
        details: vec![1, 2, 3],
        src: false,
        md: H(md),
    };
    for &n in counts {
        for val_len in [1usize, 200] {
            if val_len == 200 && n > 300 {
                continue;
            }
            // (1) the request carries the many entries; identity / insert / reject
            for (which, hdrs) in [many_names(n, "x-n", val_len), many_values(n, "x-many", val_len), many_values(n, "te", val_len)].into_iter().enumerate() {
                for sc in 0..3 {
                    let script = match sc {
                        0 => Script { ops: vec![], rej: None },
                        1 => Script { ops: vec![Op::HApp(hdrs[n / 2].0.clone(), b"extra".to_vec(), false), Op::MRem(b"x-absent".to_vec())], rej: None },
                        _ => Script { ops: vec![], rej: Some(rej(vec![hb("x-a", "1")], rng)) },
                    };
                    if which == 2 && sc == 2 {
                        continue;
                    }
                    out.push(render(&Case { kind: "big".into(), via: via(rng), scripts: vec![script], calls: vec![simple_call(H(hdrs.clone()))] }));
                }
            }
            // (2) the rejecting status carries the many entries
            for md in [many_names(n, "x-m", val_len), many_values(n, "x-many", val_len), many_values(n, "x-bin", 2)] {
                out.push(render(&Case {
                    kind: "big".into(),
                    via: via(rng),
                    scripts: vec![Script { ops: vec![], rej: Some(rej(md, rng)) }],
                    calls: vec![simple_call(H(vec![hb("x-a", "1")]))],
                }));
            }
        }
        // (3) the interceptor adds the many entries
        let ops: Vec<Op> = (0..n)
            .map(|i| if i % 2 == 0 { Op::HApp(b"x-added".to_vec(), format!("{i}").into_bytes(), false) } else { Op::MIns(format!("x-i{i}").into_bytes(), b"v".to_vec()) })
            .collect();
        out.push(render(&Case { kind: "big".into(), via: via(rng), scripts: vec![Script { ops, rej: None }], calls: vec![simple_call(H(vec![hb("x-added", "first")]))] }));
        // (4) many body frames / a large frame pass through untouched
        let mut k = simple_call(H(vec![hb("te", "trailers")]));
        k.body = BodyScript { chunks: (0..n.min(300)).map(|i| vec![i as u8; 1 + i % 3]).collect(), trailers: Some(H(many_names(n.min(64), "x-t", 1))) };
        out.push(render(&Case { kind: "big".into(), via: via(rng), scripts: vec![Script { ops: vec![Op::XSet(0, vec![0u8; n])], rej: None }], calls: vec![k] }));
    }
    let mut k = simple_call(H(vec![]));
    k.body = BodyScript { chunks: vec![rng.bytes(70_000), vec![], rng.bytes(1)], trailers: None };
    out.push(render(&Case { kind: "big".into(), via: "new".into(), scripts: vec![], calls: vec![k] }));
}

pub fn gen_extra(tier: &str, rng: &mut Rng, out: &mut Vec<String>) {
    let thorough = tier == "thorough";
    gen_shapes(thorough, rng, out);
    gen_big(thorough, rng, out);
    gen_async(thorough, rng, out);
    gen_generated(thorough, rng, out);
}

// ---------------------------------------------------------------------------------------------
// async kind

const ASYNC_VIAS: [&str; 5] = ["fn", "new", "layer", "layer2", "clone"];

fn gen_async(thorough: bool, rng: &mut Rng, out: &mut Vec<String>) {
    // systematic: every via x delay x body-wait x hint mode x decision, one call
    for via in ASYNC_VIAS {
        for delay in [0u32, 1, 3] {
            for bwait in [0u32, 2] {
                for hint in 0..=4u8 {
                    for sc in [0u64, 1, 4] {
                        let mut k = simple_call(H(vec![hb("te", "trailers"), hb("x-a", "1")]));
                        k.delay = delay;
                        k.bwait = bwait;
                        k.hint = hint;
                        if hint % 2 == 1 {
                            if let Resp::R { body, .. } = &mut k.resp {
                                *body = BodyScript { chunks: vec![], trailers: None };
                            }
                        }
                        out.push(render(&Case { kind: "async".into(), via: via.into(), scripts: vec![shape_script(sc, &k.hdrs.0.clone())], calls: vec![k] }));
                    }
                }
            }
        }
    }
    // random sequences with late-polled futures
    let n = if thorough { 12_000 } else { 700 };
    for _ in 0..n {
        let ncalls = rng.range(1, 6);
        let calls: Vec<Call> = (0..ncalls)
            .map(|_| {
                let mut k = gen_call(rng);
                k.delay = *rng.pick(&[0u32, 0, 1, 2, 5]);
                k.bwait = *rng.pick(&[0u32, 0, 1, 3]);
                k.hint = rng.below(5) as u8;
                k.late = rng.chance(2, 5);
                if rng.chance(1, 8) {
                    k.ready = 1 + rng.below(3) as u32;
                }
                k
            })
            .collect();
        let mut present: Vec<Vec<u8>> = calls.iter().flat_map(|c| present_names(&c.hdrs)).collect();
        present.sort();
        present.dedup();
        let nscripts = rng.range(0, 3);
        let scripts: Vec<Script> = (0..nscripts).map(|_| gen_script(rng, &present, 40)).collect();
        out.push(render(&Case { kind: "async".into(), via: rng.pick(&ASYNC_VIAS).to_string(), scripts, calls }));
    }
}

struct CountWaker(AtomicUsize);
impl Wake for CountWaker {
    fn wake(self: Arc<Self>) {
        self.0.fetch_add(1, Ordering::SeqCst);
    }
    fn wake_by_ref(self: &Arc<Self>) {
        self.0.fetch_add(1, Ordering::SeqCst);
    }
}

/// The wrapped service's response body: scripted frames, `Pending` (with a wake-up) `wait` times before
/// every frame and before the end, hints according to `hint`.
struct HintBody {
    inner: ScriptBody,
    wait: u32,
    left: u32,
    hint: u8,
}
impl Body for HintBody {
    type Data = Bytes;
    type Error = std::convert::Infallible;
    fn poll_frame(mut self: Pin<&mut Self>, cx: &mut Context<'_>) -> Poll<Option<Result<Frame<Bytes>, Self::Error>>> {
        if self.left > 0 {
            self.left -= 1;
            cx.waker().wake_by_ref();
            return Poll::Pending;
        }
        self.left = self.wait;
        Pin::new(&mut self.inner).poll_frame(cx)
    }
    fn is_end_stream(&self) -> bool {
        match self.hint {
            2 | 4 => false,
            _ => self.inner.is_end_stream(),
        }
    }
    fn size_hint(&self) -> SizeHint {
        let rem = self.inner.remaining_data;
        match self.hint {
            1 => {
                let mut h = SizeHint::new();
                h.set_lower(rem);
                h
            }
            2 => SizeHint::new(),
            3 => {
                let mut h = SizeHint::new();
                h.set_upper(rem + 7);
                h
            }
            _ => SizeHint::with_exact(rem),
        }
    }
}

/// The wrapped service's future: `Pending` (waking the task) `left` times, then the scripted result.
struct DelayFut {
    left: u32,
    res: Option<Result<http::Response<HintBody>, InnerErr>>,
}
impl std::future::Future for DelayFut {
    type Output = Result<http::Response<HintBody>, InnerErr>;
    fn poll(mut self: Pin<&mut Self>, cx: &mut Context<'_>) -> Poll<Self::Output> {
        if self.left > 0 {
            self.left -= 1;
            cx.waker().wake_by_ref();
            return Poll::Pending;
        }
        Poll::Ready(self.res.take().expect("inner future polled after completion"))
    }
}

#[derive(Default, Clone)]
struct Slot {
    notready: Option<String>,
    isaw: Vec<String>,
    inner: Vec<String>,
    out: Option<String>,
}

struct AShared {
    slots: Vec<Slot>,
    cur: usize,
    calls: usize,
}

#[derive(Clone)]
struct AInner {
    sh: Arc<Mutex<AShared>>,
    plan: Arc<Vec<Call>>,
}
impl Service<http::Request<ScriptBody>> for AInner {
    type Response = http::Response<HintBody>;
    type Error = InnerErr;
    type Future = DelayFut;
    fn poll_ready(&mut self, _cx: &mut Context<'_>) -> Poll<Result<(), Self::Error>> {
        let cur = self.sh.lock().unwrap().cur;
        match self.plan[cur].ready {
            0 => Poll::Ready(Ok(())),
            1 => Poll::Pending,
            n => Poll::Ready(Err(InnerErr(n - 2))),
        }
    }
    fn call(&mut self, req: http::Request<ScriptBody>) -> Self::Future {
        let (parts, body) = req.into_parts();
        let line = format!(
            "inner {} {} {} {} {} {}",
            hex(parts.method.as_str().as_bytes()),
            version_tok(parts.version),
            hex(parts.uri.to_string().as_bytes()),
            show_headers(&parts.headers),
            show_ext(&parts.extensions),
            drain(body)
        );
        let cur = {
            let mut sh = self.sh.lock().unwrap();
            sh.calls += 1;
            let cur = sh.cur;
            sh.slots[cur].inner.push(line);
            cur
        };
        let k = &self.plan[cur];
        let res = match &k.resp {
            Resp::E(n) => Err(InnerErr(*n)),
            Resp::R { status, version, hdrs, ext, body } => {
                let b = HintBody { inner: ScriptBody::new(body).expect("resp body"), wait: k.bwait, left: k.bwait, hint: k.hint };
                let mut res = http::Response::new(b);
                *res.status_mut() = http::StatusCode::from_u16(*status).expect("status");
                *res.version_mut() = version_of(*version).expect("version");
                *res.headers_mut() = mk_headers(hdrs).expect("resp headers");
                *res.extensions_mut() = mk_ext(ext);
                Ok(res)
            }
        };
        DelayFut { left: k.delay, res: Some(res) }
    }
}

/// what the scripted interceptor does for call number `mine` (shared by the closure and `SharedIcpt` forms)
fn icpt_step(scripts: &[Script], sh: &Arc<Mutex<AShared>>, mine: usize, req: tonic::Request<()>) -> Result<tonic::Request<()>, Status> {
    let push = |s: String| {
        let mut g = sh.lock().unwrap();
        let cur = g.cur;
        g.slots[cur].isaw.push(s);
    };
    push(format!("isaw {} {}", show_headers(&req.metadata().clone().into_headers()), show_ext(req.extensions())));
    let mut req = req;
    let mut rej = None;
    if !scripts.is_empty() {
        let sc = &scripts[mine % scripts.len()];
        for op in &sc.ops {
            req = apply_op(op, mine, req);
        }
        rej = sc.rej.clone();
    }
    match rej {
        None => {
            push(format!("iret {} {}", show_headers(&req.metadata().clone().into_headers()), show_ext(req.extensions())));
            Ok(req)
        }
        Some(r) => {
            let st = mk_status(&r);
            push(format!("irej {}", show_status_fields(&st)));
            Err(st)
        }
    }
}

/// poll to completion with a counting waker; `Err(token)` for a `Pending` without wake-up / no end
fn poll_counted<F: std::future::Future + Unpin>(f: &mut F, max: usize) -> Result<(F::Output, usize), &'static str> {
    let cw = Arc::new(CountWaker(AtomicUsize::new(0)));
    let waker = Waker::from(cw.clone());
    let mut cx = Context::from_waker(&waker);
    let mut pendings = 0usize;
    loop {
        let before = cw.0.load(Ordering::SeqCst);
        match Pin::new(&mut *f).poll(&mut cx) {
            Poll::Ready(v) => return Ok((v, pendings)),
            Poll::Pending => {
                pendings += 1;
                if cw.0.load(Ordering::SeqCst) == before {
                    return Err("hang");
                }
                if pendings > max {
                    return Err("busy-loop");
                }
            }
        }
    }
}

fn drain_counted<B: Body<Data = Bytes> + Unpin>(b: B) -> String
where
    B::Error: std::fmt::Debug,
{
    // collect the frames through a future so that the same counting waker logic applies
    struct Collect<B> {
        b: B,
        frames: Vec<Frame<Bytes>>,
        err: bool,
    }
    impl<B: Body<Data = Bytes> + Unpin> std::future::Future for Collect<B> {
        type Output = ();
        fn poll(mut self: Pin<&mut Self>, cx: &mut Context<'_>) -> Poll<()> {
            loop {
                let this = &mut *self;
                match Pin::new(&mut this.b).poll_frame(cx) {
                    Poll::Pending => return Poll::Pending,
                    Poll::Ready(None) => return Poll::Ready(()),
                    Poll::Ready(Some(Err(_))) => {
                        this.err = true;
                        return Poll::Ready(());
                    }
                    Poll::Ready(Some(Ok(f))) => this.frames.push(f),
                }
            }
        }
    }
    let mut c = Collect { b, frames: Vec::new(), err: false };
    let odd = match poll_counted(&mut c, 100_000) {
        Ok(_) => {
            if c.err {
                " bodyerr"
            } else {
                ""
            }
        }
        Err(t) => {
            if t == "hang" {
                " body-hang"
            } else {
                " body-busy-loop"
            }
        }
    };
    // replay the collected frames through the plain renderer
    let frames: VecDeque<Frame<Bytes>> = c.frames.into();
    let n: u64 = frames.iter().filter_map(|f| f.data_ref().map(|d| d.len() as u64)).sum();
    let mut s = drain(ScriptBody { frames, remaining_data: n });
    s.push_str(odd);
    s
}

type AFut = Pin<Box<tonic::service::interceptor::ResponseFuture<DelayFut>>>;

fn finish(idx: usize, k: &Call, rejected: bool, fut: &mut AFut, sh: &Arc<Mutex<AShared>>) {
    let line = match poll_counted(fut, 1000) {
        Err(t) => format!("out-{t}"),
        Ok((res, pendings)) => {
            // `ResponseFuture` adds no suspension of its own: exactly the wrapped future's on accept, none on reject
            let expect = if rejected { 0 } else { k.delay as usize };
            let extra = if pendings != expect { format!("pendings {pendings} ") } else { String::new() };
            match res {
                Err(InnerErr(n)) => format!("{extra}outerr {n}"),
                Ok(res) => {
                    let (parts, body) = res.into_parts();
                    let eos = body.is_end_stream();
                    let hint = body.size_hint();
                    format!(
                        "{extra}out {} {} {} {} {} {} {} {}",
                        parts.status.as_u16(),
                        version_tok(parts.version),
                        show_headers(&parts.headers),
                        show_ext(&parts.extensions),
                        if eos { 1 } else { 0 },
                        hint.lower(),
                        opt_tok(hint.upper().map(|x| x as u128)),
                        drain_counted(Box::pin(body))
                    )
                }
            }
        }
    };
    sh.lock().unwrap().slots[idx].out = Some(line);
}

fn drive<I: tonic::service::Interceptor + Clone>(c: &Case, icpt: I, sh: Arc<Mutex<AShared>>) {
    let plan = Arc::new(c.calls.clone());
    let inner = AInner { sh: sh.clone(), plan: plan.clone() };
    let mut svcs: Vec<InterceptedService<AInner, I>> = match c.via.as_str() {
        "layer" => vec![InterceptorLayer::new(icpt).layer(inner)],
        "layer2" => {
            let l = InterceptorLayer::new(icpt);
            let l2 = l.clone();
            vec![l.layer(inner.clone()), l2.layer(inner)]
        }
        _ => vec![InterceptedService::new(inner, icpt)],
    };
    let mut late: Vec<(usize, bool, AFut)> = Vec::new();
    for (idx, k) in c.calls.iter().enumerate() {
        sh.lock().unwrap().cur = idx;
        let which = match c.via.as_str() {
            "layer2" => idx % 2,
            "clone" => {
                // every call is made on a fresh clone of the previously used value
                let next = svcs.last().unwrap().clone();
                svcs.push(next);
                svcs.len() - 1
            }
            _ => 0,
        };
        let svc = &mut svcs[which];
        let body = ScriptBody::new(&k.body).expect("checked by the caller");
        let mut req = http::Request::new(body);
        *req.method_mut() = http::Method::from_bytes(&k.method).unwrap();
        *req.version_mut() = version_of(k.version).unwrap();
        *req.uri_mut() = std::str::from_utf8(&k.uri).unwrap().parse::<http::Uri>().unwrap();
        *req.headers_mut() = mk_headers(&k.hdrs).unwrap();
        *req.extensions_mut() = mk_ext(&k.ext);
        let mut cx = Context::from_waker(Waker::noop());
        match svc.poll_ready(&mut cx) {
            Poll::Ready(Ok(())) => {}
            Poll::Pending => {
                sh.lock().unwrap().slots[idx].notready = Some("notready pending".into());
                continue;
            }
            Poll::Ready(Err(InnerErr(n))) => {
                sh.lock().unwrap().slots[idx].notready = Some(format!("notready err {n}"));
                continue;
            }
        }
        let mut fut: AFut = Box::pin(svc.call(req));
        let rejected = sh.lock().unwrap().slots[idx].isaw.iter().any(|l| l.starts_with("irej"));
        if k.late {
            late.push((idx, rejected, fut));
        } else {
            finish(idx, k, rejected, &mut fut, &sh);
        }
    }
    // the held futures, most recent first; the service values are gone by then
    drop(svcs);
    while let Some((idx, rejected, mut fut)) = late.pop() {
        // `cur` stays where it is: nothing may be attributed to a call at poll time
        finish(idx, &c.calls[idx], rejected, &mut fut, &sh);
    }
}

pub fn execute_async(c: &Case) -> String {
    for k in &c.calls {
        let ok = ScriptBody::new(&k.body).is_some()
            && http::Method::from_bytes(&k.method).is_ok()
            && version_of(k.version).is_some()
            && std::str::from_utf8(&k.uri).ok().and_then(|s| s.parse::<http::Uri>().ok()).is_some()
            && mk_headers(&k.hdrs).is_some();
        if !ok {
            return "bad-case".into();
        }
    }
    if !ASYNC_VIAS.contains(&c.via.as_str()) {
        return "bad-case".into();
    }
    // one extra slot: anything attributed after the last call would land there and be reported
    let sh = Arc::new(Mutex::new(AShared { slots: vec![Slot::default(); c.calls.len()], cur: 0, calls: 0 }));
    let scripts = c.scripts.clone();
    if c.via == "fn" {
        // a plain closure with its own (by-value) state: `impl<F: FnMut(..)> Interceptor for F`
        let sh2 = sh.clone();
        let mut count = 0usize;
        let f = move |req: tonic::Request<()>| -> Result<tonic::Request<()>, Status> {
            let mine = count;
            count += 1;
            icpt_step(&scripts, &sh2, mine, req)
        };
        drive(c, f, sh.clone());
    } else {
        let sh2 = sh.clone();
        let mut count = 0usize;
        let boxed: Box<dyn FnMut(tonic::Request<()>) -> Result<tonic::Request<()>, Status> + Send> = Box::new(move |req| {
            let mine = count;
            count += 1;
            icpt_step(&scripts, &sh2, mine, req)
        });
        drive(c, SharedIcpt(Arc::new(Mutex::new(boxed))), sh.clone());
    }
    let g = sh.lock().unwrap();
    let mut parts: Vec<String> = Vec::new();
    for s in &g.slots {
        if let Some(n) = &s.notready {
            parts.push(n.clone());
            continue;
        }
        parts.extend(s.isaw.iter().cloned());
        match s.inner.len() {
            0 => parts.push("noinner".into()),
            1 => parts.push(s.inner[0].clone()),
            n => {
                parts.push(s.inner[0].clone());
                parts.push(format!("inner-calls {n}"));
            }
        }
        parts.push(s.out.clone().unwrap_or_else(|| "out-missing".into()));
    }
    parts.push(format!("calls {}", g.calls));
    parts.join(" ")
}

// ---------------------------------------------------------------------------------------------
// generated entry points (tonic-build's `with_interceptor`, here the checked-in tonic-health code):
//
// * `gsrv`   — `HealthServer::with_interceptor(handler, f)`: what the HANDLER is given (`tonic::Request`
//              metadata / extensions / message after `server::Grpc::unary`) or that it is not run at all.
//              Grammar of the plain kinds; every call is `POST /grpc.health.v1.Health/Check` with a body that is
//              one length-prefixed `HealthCheckRequest` (in any chunking).  Observed per call:
//              `isaw.. (iret..|irej..) (handler hdrs xext 1 <frame> notr gaccepted | nohandler out..)`.
//              `resp`: `e n` = the handler answers `Err(code n % 17)`, `r ..` = `Ok(SERVING)`.
// * `client gen ..` (executor in c12.rs) — `HealthClient::with_interceptor(transport, f).watch(req)`.

use tonic_health::pb::health_server::{Health, HealthServer};
use tonic_health::pb::{HealthCheckRequest, HealthCheckResponse};

pub fn health_request_bytes(service: &str) -> Vec<u8> {
    use prost::Message;
    HealthCheckRequest { service: service.to_string() }.encode_to_vec()
}

fn grpc_frame(m: &[u8]) -> Vec<u8> {
    let mut v = vec![0u8];
    v.extend_from_slice(&(m.len() as u32).to_be_bytes());
    v.extend_from_slice(m);
    v
}

const HEALTH_SERVICES: [&str; 6] = ["", "pkg.Svc", "grpc.health.v1.Health", "h\u{e9}llo", "a", "x.y.z/w"];

fn gen_generated(thorough: bool, rng: &mut Rng, out: &mut Vec<String>) {
    let n = if thorough { 6_000 } else { 500 };
    for i in 0..n {
        let ncalls = rng.range(1, 4);
        let calls: Vec<Call> = (0..ncalls)
            .map(|_| {
                let mut k = gen_call(rng);
                k.method = b"POST".to_vec();
                k.uri = canon_uri(*rng.pick(&["/grpc.health.v1.Health/Check", "/grpc.health.v1.Health/Check", "http://h:1/grpc.health.v1.Health/Check", "/grpc.health.v1.Health/Check?x=1"]));
                // tonic decides about compression / timeouts / content from these: keep them off this tie
                k.hdrs.0.retain(|e| {
                    let n = e.0.to_ascii_lowercase();
                    n != b"grpc-encoding" && n != b"grpc-timeout" && n != b"grpc-accept-encoding"
                });
                let frame = grpc_frame(&health_request_bytes(*rng.pick(&HEALTH_SERVICES)));
                // any chunking of the one frame
                let mut chunks: Vec<Vec<u8>> = Vec::new();
                let mut rest = &frame[..];
                while !rest.is_empty() {
                    let take = if rng.chance(1, 2) { rest.len() } else { 1 + rng.below(rest.len() as u64) as usize };
                    chunks.push(rest[..take].to_vec());
                    rest = &rest[take..];
                    if rng.chance(1, 6) {
                        chunks.push(vec![]);
                    }
                }
                k.body = BodyScript { chunks, trailers: None };
                k
            })
            .collect();
        let mut present: Vec<Vec<u8>> = calls.iter().flat_map(|c| present_names(&c.hdrs)).collect();
        present.sort();
        present.dedup();
        let nscripts = rng.range(0, 3);
        let mut scripts: Vec<Script> = (0..nscripts).map(|_| gen_script(rng, &present, 35)).collect();
        for sc in &mut scripts {
            sc.ops.retain(|op| {
                let name = match op {
                    Op::HIns(n, ..) | Op::HApp(n, ..) | Op::MIns(n, ..) | Op::MApp(n, ..) | Op::Cnt(n) => n.to_ascii_lowercase(),
                    _ => Vec::new(),
                };
                name != b"grpc-encoding" && name != b"grpc-timeout" && name != b"grpc-accept-encoding"
            });
        }
        let via = if i % 2 == 0 { "gen" } else { "new" };
        out.push(render(&Case { kind: "gsrv".into(), via: via.into(), scripts, calls }));
    }
    // client side: HealthClient::with_interceptor(..).watch(..)
    let n = if thorough { 6_000 } else { 500 };
    for _ in 0..n {
        let mut c = gen_client_case(rng);
        c.via = "gen".into();
        for k in &mut c.calls {
            k.prefix = Vec::new();
            k.opath = b"/".to_vec();
            k.oquery = false;
            k.path = b"/grpc.health.v1.Health/Watch".to_vec();
            k.msg = health_request_bytes(*rng.pick(&HEALTH_SERVICES));
        }
        out.push(render_client(&c));
    }
}

struct GShared {
    lines: Vec<Vec<String>>,
    cur: usize,
    handler_calls: usize,
    plan: Vec<Resp>,
}
struct GHandler(Arc<Mutex<GShared>>);

#[tonic::async_trait]
impl Health for GHandler {
    async fn check(&self, request: tonic::Request<HealthCheckRequest>) -> Result<tonic::Response<HealthCheckResponse>, Status> {
        use prost::Message;
        let (md, ext, msg) = request.into_parts();
        let mut g = self.0.lock().unwrap();
        g.handler_calls += 1;
        let cur = g.cur;
        g.lines[cur].push(format!(
            "handler {} {} 1 {} notr",
            show_headers(&md.into_headers()),
            show_ext(&ext),
            hex(&grpc_frame(&msg.encode_to_vec()))
        ));
        match &g.plan[cur] {
            Resp::E(n) => Err(Status::new(Code::from_i32((*n % 17) as i32), "handler says no")),
            Resp::R { .. } => Ok(tonic::Response::new(HealthCheckResponse { status: 1 })),
        }
    }
    type WatchStream = tokio_stream::Empty<Result<HealthCheckResponse, Status>>;
    async fn watch(&self, _request: tonic::Request<HealthCheckRequest>) -> Result<tonic::Response<Self::WatchStream>, Status> {
        Err(Status::unimplemented("watch is not part of this tie"))
    }
}

pub fn execute_gsrv(c: &Case) -> String {
    use prost::Message;
    for k in &c.calls {
        let whole: Vec<u8> = k.body.chunks.concat();
        let ok = k.method == b"POST"
            && k.body.trailers.is_none()
            && whole.len() >= 5
            && whole[0] == 0
            && u32::from_be_bytes([whole[1], whole[2], whole[3], whole[4]]) as usize == whole.len() - 5
            && HealthCheckRequest::decode(&whole[5..]).map(|m| m.encode_to_vec() == whole[5..]).unwrap_or(false)
            && std::str::from_utf8(&k.uri).ok().and_then(|s| s.parse::<http::Uri>().ok()).map(|u| u.path() == "/grpc.health.v1.Health/Check").unwrap_or(false)
            && version_of(k.version).is_some()
            && mk_headers(&k.hdrs).is_some()
            && k.ready == 0;
        if !ok {
            return "bad-case".into();
        }
    }
    let sh = Arc::new(Mutex::new(GShared { lines: vec![Vec::new(); c.calls.len()], cur: 0, handler_calls: 0, plan: c.calls.iter().map(|k| k.resp.clone()).collect() }));
    let scripts = c.scripts.clone();
    let sh2 = sh.clone();
    let mut count = 0usize;
    let icpt = move |req: tonic::Request<()>| -> Result<tonic::Request<()>, Status> {
        let mine = count;
        count += 1;
        let push = |s: String| {
            let mut g = sh2.lock().unwrap();
            let cur = g.cur;
            g.lines[cur].push(s);
        };
        push(format!("isaw {} {}", show_headers(&req.metadata().clone().into_headers()), show_ext(req.extensions())));
        let mut req = req;
        let mut rej = None;
        if !scripts.is_empty() {
            let sc = &scripts[mine % scripts.len()];
            for op in &sc.ops {
                req = apply_op(op, mine, req);
            }
            rej = sc.rej.clone();
        }
        match rej {
            None => {
                push(format!("iret {} {}", show_headers(&req.metadata().clone().into_headers()), show_ext(req.extensions())));
                Ok(req)
            }
            Some(r) => {
                let st = mk_status(&r);
                push(format!("irej {}", show_status_fields(&st)));
                Err(st)
            }
        }
    };
    // the generated constructor, or (control) the same composition spelled out
    let mut svc = match c.via.as_str() {
        "gen" => HealthServer::with_interceptor(GHandler(sh.clone()), icpt),
        _ => InterceptedService::new(HealthServer::new(GHandler(sh.clone())), icpt),
    };
    for (idx, k) in c.calls.iter().enumerate() {
        sh.lock().unwrap().cur = idx;
        let before = sh.lock().unwrap().handler_calls;
        let mut req = http::Request::new(ScriptBody::new(&k.body).unwrap());
        *req.method_mut() = http::Method::POST;
        *req.version_mut() = version_of(k.version).unwrap();
        *req.uri_mut() = std::str::from_utf8(&k.uri).unwrap().parse::<http::Uri>().unwrap();
        *req.headers_mut() = mk_headers(&k.hdrs).unwrap();
        *req.extensions_mut() = mk_ext(&k.ext);
        let mut cx = Context::from_waker(Waker::noop());
        if !matches!(Service::<http::Request<ScriptBody>>::poll_ready(&mut svc, &mut cx), Poll::Ready(Ok(()))) {
            sh.lock().unwrap().lines[idx].push("notready pending".into());
            continue;
        }
        let mut fut = Box::pin(svc.call(req));
        let res = poll_counted(&mut fut, 10_000);
        let after = sh.lock().unwrap().handler_calls;
        let rejected = sh.lock().unwrap().lines[idx].iter().any(|l| l.starts_with("irej"));
        let line = match res {
            Err(t) => format!("out-{t}"),
            Ok((Err(e), _)) => match e {},
            Ok((Ok(res), _)) => {
                let mut pre = String::new();
                if after == before {
                    pre.push_str("nohandler ");
                } else if after != before + 1 {
                    pre.push_str(&format!("handler-calls {} ", after - before));
                }
                if !rejected && after == before + 1 {
                    // the handler's answer (encoded by the generated server) is not part of this tie
                    "gaccepted".to_string()
                } else {
                    let (parts, body) = res.into_parts();
                    let eos = body.is_end_stream();
                    let hint = body.size_hint();
                    format!(
                        "{pre}out {} {} {} {} {} {} {} {}",
                        parts.status.as_u16(),
                        version_tok(parts.version),
                        show_headers(&parts.headers),
                        show_ext(&parts.extensions),
                        if eos { 1 } else { 0 },
                        hint.lower(),
                        opt_tok(hint.upper().map(|x| x as u128)),
                        drain_counted(Box::pin(body))
                    )
                }
            }
        };
        sh.lock().unwrap().lines[idx].push(line);
    }
    let g = sh.lock().unwrap();
    let mut parts: Vec<String> = g.lines.iter().flatten().cloned().collect();
    parts.push(format!("calls {}", g.handler_calls));
    parts.join(" ")
}
