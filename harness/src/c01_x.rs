//! C01 audit (aC01): dimensions of the round-trip property that the `enc` / `dec` cases of
//! framing.rs did not drive (audit table: reviews/aC01-AUDIT.md).
//!
//! Case kinds (all wrap an ordinary `enc` / `penc` / `dec` / `pdec` case of framing.rs; the wrapped
//! case's prediction must be UNCHANGED — every dimension here has to be invisible):
//!
//!   xenc <X[.w<k>][.b][.v|.u]> <enc|penc case>
//!       w<k>  the message encoder writes its bytes through another part of the public `EncodeBuf`
//!             API (codec/buffer.rs): 0 put_slice, 1 `put(Buf)` of a NON-CONTIGUOUS buf, 2 put_u8
//!             byte by byte, 3 chunk_mut + advance_mut in pieces, 4 reserve(len) then put_slice,
//!             5 put_bytes for runs, 6 `put(Bytes)` (what prost does for `bytes` fields), 7 reserve(0)
//!             + remaining_mut consulted + put_slice in pieces
//!       b     the body is polled through `tonic::body::Body::new(..)` (what hyper gets)
//!       v     the body is built by tonic's own layer from the message source:
//!             `client::Grpc::streaming` (role c: the request body the transport service receives) /
//!             `server::Grpc::streaming` (role s: the body of the `http::Response`), configured
//!             through `send_compressed` / `max_encoding_message_size` + `grpc-accept-encoding`,
//!             the encoder coming from `Codec::encoder()`; the server is willing to send all three
//!             encodings (the negotiated one is the request's choice); the client value is, depending
//!             on the case (npolls mod 4), a CLONE of the configured one and / or has already made
//!             another call
//!       u     as v through `Grpc::unary` (either side; the schedule is one ready item; with the
//!             per-response opt-out `d` the handler calls `Response::disable_compression`)
//!   rdec <R<k>> <dec case>
//!       the message decoder reads its `DecodeBuf` (codec/buffer.rs) through another part of the
//!       `Buf` API: 0 copy_to_bytes(remaining), 1 chunk/advance loop, 2 get_u8 loop, 3 copy_to_slice,
//!       4 copy_to_bytes in pieces, 5 `take(n)` + chunk walk, 6 trusts `chunk()` (legal: `chunk().len()
//!       <= remaining()` is the `Buf` contract), 7 `Buf::copy_to_bytes` of a `&mut dyn Buf`
//!   xdec <F…> <O…> <dec|pdec case>   — the executor of the C07 audit (c07_x.rs: truthful
//!       is_end_stream/size_hint of the inner body, DATA as a non-contiguous `Buf`, `message()` /
//!       `trailers()` consumers, `client::Grpc` / `server::Grpc` building the `Streaming`) on VALID
//!       streams, judged by C01's clauses
//!   rt <c|s> <enc> <i|d> <yieldThr> <bufSizeEnc> <bufSizeDec> <cutSeed> Z <k> (<raw> <comp>)*k EV <ev>*
//!       the property's own composition: the real `EncodeBody` is drained, its bytes are re-cut at
//!       positions drawn from <cutSeed> (inside prefixes and payloads, empty chunks, Pendings) and fed
//!       to the real `Streaming`; observed: W<hex of all emitted bytes> then the decoder tokens.
use crate::common::*;
use crate::framing::*;
use bytes::{Buf, BufMut, Bytes};
use http_body::Body;
use std::collections::VecDeque;
use std::future::Future;
use std::pin::Pin;
use std::sync::{Arc, Mutex};
use std::task::{Context, Poll};
use tokio_stream::Stream;
use tonic::codec::{BufferSettings, Codec, CompressionEncoding, DecodeBuf, Decoder, EncodeBody, EncodeBuf, Encoder};
use tonic::{Status, Streaming};

#[path = "c07_x.rs"]
#[allow(dead_code)]
pub mod dx;

// ---------- encoder / decoder doubles that use the whole EncodeBuf / DecodeBuf API ----------

pub const N_WSTYLES: u8 = 8;
pub const N_RSTYLES: u8 = 8;

type Item = (Vec<u8>, Option<usize>);

#[derive(Clone, Copy)]
pub struct StyleEnc {
    pub bs: BufferSettings,
    pub style: u8,
}

impl Encoder for StyleEnc {
    type Item = Item;
    type Error = Status;
    fn encode(&mut self, item: Item, dst: &mut EncodeBuf<'_>) -> Result<(), Status> {
        let v = item.0;
        match self.style {
            1 => dst.put(dx::SegBuf::new(v, 3)),
            2 => {
                for b in v {
                    dst.put_u8(b);
                }
            }
            3 => {
                let mut i = 0;
                while i < v.len() {
                    let c = dst.chunk_mut();
                    let n = c.len().min(v.len() - i).min(7);
                    c[..n].copy_from_slice(&v[i..i + n]);
                    unsafe { dst.advance_mut(n) };
                    i += n;
                }
            }
            4 => {
                dst.reserve(v.len());
                dst.put_slice(&v);
            }
            5 => {
                let mut i = 0;
                while i < v.len() {
                    let mut j = i + 1;
                    while j < v.len() && v[j] == v[i] {
                        j += 1;
                    }
                    dst.put_bytes(v[i], j - i);
                    i = j;
                }
            }
            6 => dst.put(Bytes::from(v)),
            7 => {
                dst.reserve(0);
                for piece in v.chunks(5) {
                    if dst.remaining_mut() < piece.len() {
                        return Err(Status::internal("EncodeBuf::remaining_mut too small"));
                    }
                    dst.put_slice(piece);
                }
            }
            _ => dst.put_slice(&v),
        }
        Ok(())
    }
    fn buffer_settings(&self) -> BufferSettings {
        self.bs
    }
}

#[derive(Clone, Copy)]
pub struct StyleDec {
    pub bs: BufferSettings,
    pub style: u8,
}

impl Decoder for StyleDec {
    type Item = Vec<u8>;
    type Error = Status;
    fn decode(&mut self, src: &mut DecodeBuf<'_>) -> Result<Option<Vec<u8>>, Status> {
        let n = src.remaining();
        let mut out = Vec::new();
        match self.style {
            1 => {
                while src.has_remaining() {
                    let c = src.chunk().to_vec();
                    if c.is_empty() {
                        return Err(Status::internal("codec"));
                    }
                    src.advance(c.len());
                    out.extend(c);
                }
            }
            2 => {
                while src.has_remaining() {
                    out.push(src.get_u8());
                }
            }
            3 => {
                out.resize(n, 0);
                src.copy_to_slice(&mut out);
            }
            4 => {
                while src.has_remaining() {
                    let k = src.remaining().min(3);
                    out.extend_from_slice(&src.copy_to_bytes(k));
                }
            }
            5 => {
                let half = n / 2;
                {
                    let mut t = (&mut *src).take(half);
                    while t.has_remaining() {
                        let c = t.chunk().to_vec();
                        t.advance(c.len());
                        out.extend(c);
                    }
                }
                let rest = src.remaining();
                out.extend_from_slice(&src.copy_to_bytes(rest));
            }
            6 => {
                // a decoder that trusts `chunk()`: legal, `chunk().len() <= remaining()` is the contract
                let c = src.chunk().to_vec();
                src.advance(c.len().min(n));
                out.extend(c);
                let rest = src.remaining();
                out.extend_from_slice(&src.copy_to_bytes(rest));
            }
            7 => {
                let d: &mut dyn Buf = src;
                let k = d.remaining();
                out.extend_from_slice(&d.copy_to_bytes(k));
            }
            _ => {
                out = src.copy_to_bytes(n).to_vec();
            }
        }
        if out.first() == Some(&0xFF) {
            return Err(Status::internal("codec"));
        }
        Ok(Some(out))
    }
    fn buffer_settings(&self) -> BufferSettings {
        self.bs
    }
}

#[derive(Clone, Copy)]
pub struct XCodec {
    pub bs: BufferSettings,
    pub style: u8,
}

impl Codec for XCodec {
    type Encode = Item;
    type Decode = Vec<u8>;
    type Encoder = StyleEnc;
    type Decoder = RawDec;
    fn encoder(&mut self) -> StyleEnc {
        StyleEnc { bs: self.bs, style: self.style }
    }
    fn decoder(&mut self) -> RawDec {
        RawDec(self.bs)
    }
}

// ---------- flavour of an `xenc` case ----------

#[derive(Clone, Copy, Default, PartialEq)]
pub struct EFlavour {
    pub wstyle: u8,
    pub boxed: bool,
    /// 0 = `EncodeBody::new_*` called by the harness, 1 = `Grpc::streaming`, 2 = `Grpc::unary`
    pub via: u8,
}

impl EFlavour {
    pub fn token(&self) -> String {
        let mut s = "X".to_string();
        if self.wstyle > 0 {
            s.push_str(&format!(".w{}", self.wstyle));
        }
        if self.boxed {
            s.push_str(".b");
        }
        match self.via {
            1 => s.push_str(".v"),
            2 => s.push_str(".u"),
            _ => {}
        }
        s
    }
    pub fn parse(s: &str) -> EFlavour {
        let mut f = EFlavour::default();
        for p in s.split('.').skip(1) {
            match p.as_bytes()[0] {
                b'w' => f.wstyle = p[1..].parse().unwrap(),
                b'b' => f.boxed = true,
                b'v' => f.via = 1,
                b'u' => f.via = 2,
                _ => panic!("flavour"),
            }
        }
        f
    }
}

// ---------- tonic's own layers around the encoder ----------

/// the message source as `client::Grpc` wants it (plain items; C01's schedules carry no errors)
struct PlainSource<S>(S);
impl<T, S: Stream<Item = Result<T, Status>> + Unpin> Stream for PlainSource<S> {
    type Item = T;
    fn poll_next(mut self: Pin<&mut Self>, cx: &mut Context<'_>) -> Poll<Option<T>> {
        match Pin::new(&mut self.0).poll_next(cx) {
            Poll::Pending => Poll::Pending,
            Poll::Ready(None) => Poll::Ready(None),
            Poll::Ready(Some(Ok(m))) => Poll::Ready(Some(m)),
            Poll::Ready(Some(Err(_))) => panic!("xenc .v client cases carry no source errors"),
        }
    }
}

/// the transport under `client::Grpc`: keeps the request (head and body) it is called with
#[derive(Clone)]
struct Capture(Arc<Mutex<Option<http::Request<tonic::body::Body>>>>);
impl tower_service::Service<http::Request<tonic::body::Body>> for Capture {
    type Response = http::Response<tonic::body::Body>;
    type Error = Box<dyn std::error::Error + Send + Sync>;
    type Future = std::future::Ready<Result<Self::Response, Self::Error>>;
    fn poll_ready(&mut self, _: &mut Context<'_>) -> Poll<Result<(), Self::Error>> {
        Poll::Ready(Ok(()))
    }
    fn call(&mut self, req: http::Request<tonic::body::Body>) -> Self::Future {
        *self.0.lock().unwrap() = Some(req);
        let resp = http::Response::builder()
            .status(200)
            .header("content-type", "application/grpc")
            .header("grpc-status", "0")
            .body(tonic::body::Body::empty())
            .unwrap();
        std::future::ready(Ok(resp))
    }
}

/// streaming handler: answers with the scripted source
struct Serve<S>(Option<S>);
impl<R, T, S> tonic::server::StreamingService<R> for Serve<S>
where
    S: Stream<Item = Result<T, Status>>,
{
    type Response = T;
    type ResponseStream = S;
    type Future = std::future::Ready<Result<tonic::Response<S>, Status>>;
    fn call(&mut self, _request: tonic::Request<Streaming<R>>) -> Self::Future {
        std::future::ready(Ok(tonic::Response::new(self.0.take().expect("one call per case"))))
    }
}

/// unary handler: answers with the one message, opting out of compression when the case says so
struct ServeOne<T>(Option<T>, bool);
impl<R, T> tonic::server::UnaryService<R> for ServeOne<T> {
    type Response = T;
    type Future = std::future::Ready<Result<tonic::Response<T>, Status>>;
    fn call(&mut self, _request: tonic::Request<R>) -> Self::Future {
        let mut r = tonic::Response::new(self.0.take().expect("one call per case"));
        if self.1 {
            r.disable_compression();
        }
        std::future::ready(Ok(r))
    }
}

/// a future of tonic's own layers over ready doubles: completes without a real executor
fn drive<F: Future>(fut: F) -> Result<F::Output, &'static str> {
    let (wakes, waker) = counting_waker(None);
    let mut cx = Context::from_waker(&waker);
    let mut fut = Box::pin(fut);
    for _ in 0..100_000 {
        let (woken_before, refs_before) = (wakes.count(), Arc::strong_count(&wakes));
        match fut.as_mut().poll(&mut cx) {
            Poll::Ready(v) => return Ok(v),
            Poll::Pending if no_wakeup(&wakes, woken_before, refs_before) => return Err("lost-wakeup"),
            Poll::Pending => {}
        }
    }
    Err("hang")
}

type DynBody = Pin<Box<dyn Body<Data = Bytes, Error = Status> + Send>>;

/// first (ready) item of a source, for the unary entry points
fn first_item<T, S: Stream<Item = Result<T, Status>> + Unpin>(src: &mut S) -> T {
    let w = noop_waker();
    let mut cx = Context::from_waker(&w);
    match Pin::new(src).poll_next(&mut cx) {
        Poll::Ready(Some(Ok(m))) => m,
        _ => panic!("xenc .u needs a schedule of one ready item"),
    }
}

#[allow(clippy::too_many_arguments)]
fn via_layers<C, S>(server: bool, unary: bool, comp: Option<CompressionEncoding>, disable: bool, max: Option<usize>, codec: C, mut src: S, history: u8) -> Result<DynBody, String>
where
    C: Codec + Clone + Send + Sync + 'static,
    C::Encode: Send + Sync + 'static,
    C::Decode: Send + Sync + Default + 'static,
    S: Stream<Item = Result<C::Encode, Status>> + Send + Unpin + 'static,
{
    if server {
        // the server is willing to send every encoding (the negotiated one is not its first choice);
        // which one is used is up to the request's `grpc-accept-encoding`
        let mut grpc = tonic::server::Grpc::new(codec);
        for e in [CompressionEncoding::Zstd, CompressionEncoding::Gzip, CompressionEncoding::Deflate] {
            grpc = grpc.send_compressed(e);
        }
        if let Some(m) = max {
            grpc = grpc.max_encoding_message_size(m);
        }
        let mut rb = http::Request::builder().method("POST").uri("http://h/s/m").header("content-type", "application/grpc").header("te", "trailers");
        if comp.is_some() {
            // what a tonic client that accepts the encoding sends
            rb = rb.header("grpc-accept-encoding", format!("{},identity", enc_name(comp)));
        }
        if unary {
            // the request: one empty message
            let req = rb.body(http_body_util::Full::new(Bytes::from(frame(0, &[])))).unwrap();
            let m = first_item(&mut src);
            let resp = drive(grpc.unary(ServeOne(Some(m), disable), req)).map_err(|e| e.to_string())?;
            Ok(Box::pin(resp.into_body()))
        } else {
            if disable {
                return Err("bad-case".into());
            }
            let req = rb.body(http_body_util::Empty::<Bytes>::new()).unwrap();
            let resp = drive(grpc.streaming(Serve(Some(src)), req)).map_err(|e| e.to_string())?;
            Ok(Box::pin(resp.into_body()))
        }
    } else {
        let slot = Arc::new(Mutex::new(None));
        let mut grpc = tonic::client::Grpc::new(Capture(slot.clone()));
        if let Some(e) = comp {
            grpc = grpc.send_compressed(e);
        }
        if let Some(m) = max {
            grpc = grpc.max_encoding_message_size(m);
        }
        let path = http::uri::PathAndQuery::from_static("/s/m");
        // histories: the configured client is cloned, and / or has already made another call
        if history & 1 == 1 {
            grpc = grpc.clone();
        }
        if history & 2 == 2 {
            let c2 = codec.clone();
            let _ = drive(grpc.streaming(tonic::Request::new(tokio_stream::empty::<C::Encode>()), http::uri::PathAndQuery::from_static("/s/other"), c2)).map_err(|e| e.to_string())?;
            let first: Option<http::Request<tonic::body::Body>> = slot.lock().unwrap().take();
            drop(first);
        }
        if unary {
            let m = first_item(&mut src);
            let _ = drive(grpc.unary(tonic::Request::new(m), path, codec)).map_err(|e| e.to_string())?;
        } else {
            let _ = drive(grpc.streaming(tonic::Request::new(PlainSource(src)), path, codec)).map_err(|e| e.to_string())?;
        }
        let req: Option<http::Request<tonic::body::Body>> = slot.lock().unwrap().take();
        match req {
            Some(r) => Ok(Box::pin(r.into_body())),
            None => Err("via-not-called".into()),
        }
    }
}

// ---------- executing an `xenc` case ----------

/// the poll loop of `framing::exec_enc_with` (same observation format)
fn poll_body(mut body: DynBody, npolls: usize) -> String {
    let (wakes, waker) = counting_waker(None);
    let mut cx = Context::from_waker(&waker);
    let mut out = Vec::new();
    let mut end_flags = String::new();
    let mut hints: Vec<(u64, Option<u64>)> = Vec::new();
    for i in 0..=npolls {
        end_flags.push(if body.is_end_stream() { '1' } else { '0' });
        let h = body.size_hint();
        hints.push((h.lower(), h.upper()));
        if i == npolls {
            break;
        }
        let (woken_before, refs_before) = (wakes.count(), Arc::strong_count(&wakes));
        match body.as_mut().poll_frame(&mut cx) {
            Poll::Pending if no_wakeup(&wakes, woken_before, refs_before) => {
                out.push("lost-wakeup".to_string());
                break;
            }
            Poll::Pending => out.push("p".to_string()),
            Poll::Ready(None) => out.push("n".to_string()),
            Poll::Ready(Some(Err(st))) => out.push(st_tok("e", &st)),
            Poll::Ready(Some(Ok(frame))) => {
                if frame.is_data() {
                    out.push(format!("d{}", hexr(&frame.into_data().unwrap())));
                } else {
                    let tr = frame.into_trailers().unwrap();
                    let st = Status::from_header_map(&tr).unwrap_or_else(|| Status::unknown("no grpc-status in trailers"));
                    out.push(st_tok("t", &st));
                }
            }
        }
    }
    out.push(format!("E{}", end_flags));
    if hints.iter().all(|h| *h == (0, None)) {
        out.push("Hd".to_string());
    } else {
        let l: Vec<String> = hints.iter().map(|(l, u)| format!("{}/{}", l, u.map(|u| u.to_string()).unwrap_or_else(|| "-".into()))).collect();
        out.push(format!("H{}", l.join(",")));
    }
    out.join(" ")
}

fn opt_usize(s: &str) -> Option<usize> {
    if s == "none" {
        None
    } else {
        Some(s.parse().unwrap())
    }
}

fn parse_src(t: &[&str]) -> VecDeque<SrcEv> {
    let ev0 = t.iter().position(|x| *x == "EV").expect("EV") + 1;
    t[ev0..]
        .iter()
        .map(|e| match e.as_bytes()[0] {
            b'i' => SrcEv::Item(unhexr(&e[1..])),
            b'e' => SrcEv::Err(e[1..].parse().unwrap()),
            _ => SrcEv::Pending,
        })
        .collect()
}

fn build_enc_body(flv: EFlavour, t: &[&str]) -> Result<DynBody, String> {
    let prost = t[0] == "penc";
    let server = t[1] == "s";
    let comp = parse_enc(t[2]);
    let disable = t[3] == "d";
    let yield_thr: usize = t[4].parse().unwrap();
    let buf_size: usize = t[5].parse().unwrap();
    let max = opt_usize(t[6]);
    let npolls: usize = t[7].parse().unwrap();
    let src = ScriptedSource { evs: parse_src(t), polls_after_end: 0 };
    let bs = BufferSettings::new(buf_size, yield_thr);
    let ovr = || if disable { tonic::codec::verif_disable_compression_override() } else { Default::default() };
    let body: DynBody = if prost {
        use tokio_stream::StreamExt;
        type PC = tonic::codec::ProstCodec<prost_types::Any, prost_types::Any>;
        let src = src.map(|r| r.map(|(v, _)| <prost_types::Any as prost::Message>::decode(&v[..]).expect("case items are valid Any")));
        let default_bs = buf_size == 8192 && yield_thr == 32 * 1024;
        if flv.via > 0 {
            if !default_bs {
                return Err("bad-case".into());
            }
            via_layers(server, flv.via == 2, comp, disable, max, PC::default(), src, (npolls % 4) as u8)?
        } else {
            // the three public ways to get the prost encoder
            let enc = if default_bs {
                PC::default().encoder()
            } else if buf_size % 2 == 0 {
                PC::raw_encoder(bs)
            } else {
                <PC as Codec>::Encoder::new(bs)
            };
            if server {
                Box::pin(EncodeBody::new_server(enc, src, comp, ovr(), max))
            } else {
                Box::pin(EncodeBody::new_client(enc, src, comp, max))
            }
        }
    } else if flv.via > 0 {
        via_layers(server, flv.via == 2, comp, disable, max, XCodec { bs, style: flv.wstyle }, src, (npolls % 4) as u8)?
    } else {
        let enc = StyleEnc { bs, style: flv.wstyle };
        if server {
            Box::pin(EncodeBody::new_server(enc, src, comp, ovr(), max))
        } else {
            Box::pin(EncodeBody::new_client(enc, src, comp, max))
        }
    };
    Ok(if flv.boxed { Box::pin(tonic::body::Body::new(body)) } else { body })
}

fn exec_xenc(all: &[&str]) -> String {
    if all.len() < 12 || !all[1].starts_with('X') || !(all[2] == "enc" || all[2] == "penc") {
        return "bad-case".into();
    }
    let flv = EFlavour::parse(all[1]);
    let t = &all[2..];
    let npolls: usize = t[7].parse().unwrap();
    match build_enc_body(flv, t) {
        Ok(body) => poll_body(body, npolls),
        Err(e) => e,
    }
}

// ---------- executing an `rdec` case ----------

fn parse_body(t: &[&str]) -> VecDeque<BodyEv> {
    let ev0 = t.iter().position(|x| *x == "EV").expect("EV") + 1;
    t[ev0..]
        .iter()
        .map(|e| match e.as_bytes()[0] {
            b'd' => BodyEv::Data(unhexr(&e[1..])),
            b't' => BodyEv::Trailers(if &e[1..] == "none" { None } else { Some(e[1..].parse().unwrap()) }),
            b'e' => BodyEv::Err(e[1..].parse().unwrap()),
            _ => BodyEv::Pending,
        })
        .collect()
}

fn poll_stream(mut s: Streaming<Vec<u8>>, npolls: usize, after: &Arc<std::sync::atomic::AtomicUsize>) -> Vec<String> {
    let (wakes, waker) = counting_waker(None);
    let mut cx = Context::from_waker(&waker);
    let mut out = Vec::new();
    for _ in 0..npolls {
        let (woken_before, refs_before) = (wakes.count(), Arc::strong_count(&wakes));
        match Pin::new(&mut s).poll_next(&mut cx) {
            Poll::Pending if no_wakeup(&wakes, woken_before, refs_before) => {
                out.push("lost-wakeup".to_string());
                break;
            }
            Poll::Pending => out.push("p".to_string()),
            Poll::Ready(None) => out.push("n".to_string()),
            Poll::Ready(Some(Err(st))) => out.push(st_tok("e", &st)),
            Poll::Ready(Some(Ok(m))) => out.push(format!("m{}", hexr(&m))),
        }
        if after.load(std::sync::atomic::Ordering::SeqCst) > 1000 {
            out.push("busy-loop".into());
            break;
        }
    }
    out
}

fn exec_rdec(all: &[&str]) -> String {
    if all.len() < 10 || !all[1].starts_with('R') || all[2] != "dec" {
        return "bad-case".into();
    }
    let style: u8 = all[1][1..].parse().unwrap();
    let t = &all[2..];
    let enc = parse_enc(t[2]);
    let max = opt_usize(t[3]);
    let buf_size: usize = t[4].parse().unwrap();
    let npolls: usize = t[5].parse().unwrap();
    let after = Arc::new(std::sync::atomic::AtomicUsize::new(0));
    let body = ScriptedBody { evs: parse_body(t), polls_after_end: after.clone() };
    let dec = StyleDec { bs: BufferSettings::new(buf_size, 32 * 1024), style };
    let stream = if t[1] == "req" {
        Streaming::new_request(dec, body, enc, max)
    } else if t[1] == "empty" {
        Streaming::new_empty(dec, body)
    } else {
        let code: u16 = t[1][4..].parse().unwrap();
        Streaming::new_response(dec, body, http::StatusCode::from_u16(code).unwrap(), enc, max)
    };
    let mut out = poll_stream(stream, npolls, &after);
    out.push("a0".to_string());
    out.join(" ")
}

// ---------- `rt`: the real encoder's output, re-cut, into the real decoder ----------

fn exec_rt(t: &[&str]) -> String {
    if t.len() < 10 {
        return "bad-case".into();
    }
    let server = t[1] == "s";
    let comp = parse_enc(t[2]);
    let disable = t[3] == "d";
    let yield_thr: usize = t[4].parse().unwrap();
    let buf_enc: usize = t[5].parse().unwrap();
    let buf_dec: usize = t[6].parse().unwrap();
    let cut_seed: u64 = t[7].parse().unwrap();
    let evs = parse_src(t);
    let nev = evs.len();
    let src = ScriptedSource { evs, polls_after_end: 0 };
    let enc = StyleEnc { bs: BufferSettings::new(buf_enc, yield_thr), style: (cut_seed % N_WSTYLES as u64) as u8 };
    let ovr = if disable { tonic::codec::verif_disable_compression_override() } else { Default::default() };
    let mut body: DynBody = if server { Box::pin(EncodeBody::new_server(enc, src, comp, ovr, None)) } else { Box::pin(EncodeBody::new_client(enc, src, comp, None)) };
    // drain the encoder the way hyper does (is_end_stream consulted before every poll)
    let (wakes, waker) = counting_waker(None);
    let mut cx = Context::from_waker(&waker);
    let mut wire = Vec::new();
    let mut ended = false;
    for _ in 0..(2 * nev + 8) {
        if body.is_end_stream() {
            ended = true;
            break;
        }
        let (woken_before, refs_before) = (wakes.count(), Arc::strong_count(&wakes));
        match body.as_mut().poll_frame(&mut cx) {
            Poll::Pending if no_wakeup(&wakes, woken_before, refs_before) => return "lost-wakeup".into(),
            Poll::Pending => {}
            Poll::Ready(None) => {
                ended = true;
                break;
            }
            Poll::Ready(Some(Err(st))) => return st_tok("e", &st),
            Poll::Ready(Some(Ok(f))) => {
                if f.is_data() {
                    wire.extend_from_slice(&f.into_data().unwrap());
                }
            }
        }
    }
    if !ended {
        return "hang".into();
    }
    // the transport: cuts anywhere (positions from the case's seed), Pendings in between
    let mut rng = Rng::new(cut_seed);
    let style = rng.below(4);
    let style = if wire.len() > 600 && style == 1 { 3 } else { style };
    let starts: Vec<usize> = {
        let mut s = Vec::new();
        let mut i = 0;
        while i + 5 <= wire.len() {
            s.push(i);
            i += 5 + u32::from_be_bytes([wire[i + 1], wire[i + 2], wire[i + 3], wire[i + 4]]) as usize;
        }
        s
    };
    let chunks = chunkings(&mut rng, &wire, &starts, style);
    let mut bevs: VecDeque<BodyEv> = VecDeque::new();
    for c in chunks {
        while rng.chance(1, 4) {
            bevs.push_back(BodyEv::Pending);
        }
        bevs.push_back(BodyEv::Data(c));
    }
    if server {
        bevs.push_back(BodyEv::Trailers(Some(0)));
    }
    let npolls = bevs.len() + starts.len() + 3;
    let after = Arc::new(std::sync::atomic::AtomicUsize::new(0));
    let rbody = ScriptedBody { evs: bevs, polls_after_end: after.clone() };
    let dec = StyleDec { bs: BufferSettings::new(buf_dec, 32 * 1024), style: ((cut_seed / 8) % N_RSTYLES as u64) as u8 };
    // the receiving side is told the negotiated encoding (the header of the message, not the opt-out)
    let stream = if server { Streaming::new_response(dec, rbody, http::StatusCode::OK, comp, None) } else { Streaming::new_request(dec, rbody, comp, None) };
    // canonical observation (the cut positions are the executor's own): the wire bytes, then what the
    // decoder yielded with the Pendings dropped and the trailing run of `None`s written once
    let mut out = vec![format!("W{}", hexr(&wire))];
    let mut toks: Vec<String> = poll_stream(stream, npolls, &after).into_iter().filter(|t| t != "p").collect();
    while toks.len() >= 2 && toks[toks.len() - 1] == "n" && toks[toks.len() - 2] == "n" {
        toks.pop();
    }
    out.extend(toks);
    out.join(" ")
}

pub fn execute(case: &str) -> String {
    let all: Vec<&str> = case.split(' ').collect();
    match all[0] {
        "xenc" => exec_xenc(&all),
        "rdec" => exec_rdec(&all),
        "xdec" => dx::execute(case),
        "rt" => exec_rt(&all),
        _ => "bad-case".into(),
    }
}

// ---------- generators ----------

fn npolls_of_dec(line: &str) -> usize {
    line.split(' ').nth(5).unwrap().parse().unwrap()
}

pub fn gen_eflavour(rng: &mut Rng, c: &EncCase, prost: bool) -> EFlavour {
    let single_ready = c.evs.len() == 1 && c.evs[0].starts_with('i');
    let default_bs = c.buf_size == 8192 && c.yield_thr == 32 * 1024;
    let via_ok = !prost || default_bs;
    let via = if !via_ok {
        0
    } else if single_ready && rng.chance(1, 2) {
        2
    } else if c.disable && c.server {
        // the opt-out exists on the unary / client-streaming entry points only
        0
    } else if rng.chance(1, 2) {
        1
    } else {
        0
    };
    EFlavour { wstyle: if prost { 0 } else { rng.below(N_WSTYLES as u64) as u8 }, boxed: rng.chance(1, 3), via }
}

/// a valid decoder case ending cleanly (as in c01.rs)
fn gen_clean_dec(rng: &mut Rng) -> DecCase {
    let mut c = gen_dec_valid(rng, false);
    if !(c.dir == "req" || c.dir == "resp200") {
        c.dir = if rng.chance(1, 2) { "req".into() } else { "resp200".into() };
    }
    if let Some(last) = c.evs.last_mut() {
        if last.starts_with('t') && last != "t0" && last != "tnone" {
            *last = "t0".into();
        }
    }
    c
}

/// consumer of an `xdec` case over a valid stream: `n` polls through `poll_next` / `message()`,
/// then possibly `trailers()` calls (after the end they find the cached trailers or nothing)
fn gen_clean_ops(rng: &mut Rng, n: usize) -> String {
    let mut s = String::from("O");
    let style = rng.below(3);
    for _ in 0..n {
        s.push(match style {
            0 => 'n',
            1 => 'm',
            _ => *rng.pick(&['n', 'm']),
        });
    }
    for _ in 0..rng.below(3) {
        s.push('t');
    }
    s
}

/// the `rt` case over an encoder case's configuration, table and schedule
fn rt_line(c: &EncCase, buf_dec: usize, seed: u64) -> String {
    let line = c.line();
    let t: Vec<&str> = line.split(' ').collect();
    let zpos = t.iter().position(|x| *x == "Z").unwrap();
    format!("rt {} {} {} {} {} {} {} {}", t[1], t[2], t[3], t[4], t[5], buf_dec, seed, t[zpos..].join(" "))
}

pub fn generate(tier: &str, rng: &mut Rng) -> Vec<String> {
    let thorough = tier == "thorough";
    let mut out = Vec::new();
    // ---- corpus ----
    // every write style on one schedule, each way of reaching the encoder
    let base = EncCase { server: true, comp: Some(CompressionEncoding::Gzip), disable: false, yield_thr: 0, buf_size: 4, max: None,
                         evs: vec!["i0102030405060708090a".into(), "p".into(), "i".into(), "i0909090909".into()],
                         items: vec![vec![1, 2, 3, 4, 5, 6, 7, 8, 9, 10], vec![], vec![9; 5]], extra_polls: 1 };
    for w in 0..N_WSTYLES {
        for (server, comp) in [(true, None), (false, None), (true, Some(CompressionEncoding::Gzip)), (false, Some(CompressionEncoding::Zstd))] {
            for via in [0u8, 1] {
                let c = EncCase { server, comp, evs: base.evs.clone(), items: base.items.clone(), ..base };
                out.push(format!("xenc {} {}", EFlavour { wstyle: w, boxed: w % 2 == 1, via }.token(), c.line()));
            }
        }
    }
    // unary entry points, with and without the opt-out
    for server in [true, false] {
        for disable in [false, true] {
            for comp in ENCS {
                let c = EncCase { server, comp, disable, yield_thr: 32 * 1024, buf_size: 8192, max: None, evs: vec!["i0a0b0c".into()], items: vec![vec![10, 11, 12]], extra_polls: 1 };
                out.push(format!("xenc {} {}", EFlavour { wstyle: 0, boxed: false, via: 2 }.token(), c.line()));
            }
        }
    }
    // every read style: two frames in one chunk (the DecodeBuf is a view of a longer buffer), cut mid-prefix
    for r in 0..N_RSTYLES {
        out.push(format!("rdec R{} dec req none none 8192 6 Z 0 EV d00000000030102030000000002 d0708", r));
        out.push(format!("rdec R{} dec resp200 none none 0 6 Z 0 EV d000000000109000000000000000000020304 t0", r));
    }
    for seed in 0..8u64 {
        out.push(rt_line(&base, 16, seed));
    }
    // ---- random ----
    let n = if thorough { 9000 } else { 700 };
    for i in 0..n {
        let prost = i % 4 == 3;
        let mut c = gen_enc_case(rng, false, false);
        if prost {
            let mut items = Vec::new();
            for ev in c.evs.iter_mut() {
                if ev.starts_with('i') {
                    let m = gen_any_msg(rng, 200);
                    *ev = format!("i{}", hexr(&m));
                    items.push(m);
                }
            }
            c.items = items;
            if rng.chance(1, 2) {
                c.buf_size = 8192;
                c.yield_thr = 32 * 1024;
            }
        }
        if rng.chance(1, 6) {
            // the unary shape: one ready item
            if let Some(m) = c.items.first().cloned() {
                c.evs = vec![format!("i{}", hexr(&m))];
                c.items = vec![m];
            }
        }
        let flv = gen_eflavour(rng, &c, prost);
        out.push(format!("xenc {} {}{}", flv.token(), if prost { "p" } else { "" }, c.line()));
    }
    for _ in 0..n {
        let c = gen_clean_dec(rng);
        out.push(format!("rdec R{} {}", rng.below(N_RSTYLES as u64), c.line()));
    }
    // frames that arrive together (the decoder's buffer holds more than the current message)
    for _ in 0..n / 2 {
        let enc = *rng.pick(&ENCS);
        let (bytes, _, _) = gen_valid_stream(rng, enc, 40);
        let evs = vec![format!("d{}", hexr(&bytes))];
        let c = DecCase { dir: "req".into(), enc, max: None, buf_size: *rng.pick(&BUF_SIZES), evs, stream: bytes, extra_polls: 1 };
        out.push(format!("rdec R{} {}", rng.below(N_RSTYLES as u64), c.line()));
    }
    for i in 0..n {
        let prost = i % 3 == 2;
        let line = if prost {
            let enc = *rng.pick(&ENCS);
            let (bytes, starts, _) = gen_valid_stream_with(rng, enc, 100, true);
            let style = rng.below(4);
            let style = if bytes.len() > 600 && style == 1 { 3 } else { style };
            let chunks = chunkings(rng, &bytes, &starts, style);
            let mut evs = events_from_chunks(rng, chunks, true);
            if rng.chance(1, 2) {
                evs.push("t0".into());
            }
            let dir = if rng.chance(1, 2) { "req" } else { "resp200" };
            DecCase { dir: dir.into(), enc, max: None, buf_size: *rng.pick(&[8192usize, 8192, 16, 0]), evs, stream: bytes, extra_polls: 2 }.pline()
        } else {
            gen_clean_dec(rng).line()
        };
        let flv = dx::Flavour { err: 0, ..dx::gen_flavour(rng) };
        let ops = gen_clean_ops(rng, npolls_of_dec(&line));
        out.push(dx::wrap(flv, &ops, &line));
    }
    // the whole call through `Grpc::unary` on either side: a stream of exactly one message
    for i in 0..n / 4 {
        let enc = *rng.pick(&ENCS);
        let prost = i % 2 == 1;
        let m = if prost { gen_any_msg(rng, 60) } else { gen_msg(rng, 300) };
        let bytes = match enc {
            Some(e) if rng.chance(3, 4) => frame(1, &oracle_compress(e, &m)),
            _ => frame(0, &m),
        };
        let style = rng.below(4);
        let chunks = chunkings(rng, &bytes, &[0], style);
        let mut evs = events_from_chunks(rng, chunks, true);
        let dir = if rng.chance(1, 2) { "req" } else { "resp200" };
        if dir == "resp200" {
            evs.push("t0".into());
        }
        let c = DecCase { dir: dir.into(), enc, max: None, buf_size: 8192, evs, stream: bytes, extra_polls: 2 };
        let line = if prost { c.pline() } else { c.line() };
        let flv = dx::Flavour { via: true, err: 0, ..dx::gen_flavour(rng) };
        out.push(dx::wrap(flv, "Ou", &line));
    }
    // the composition
    for _ in 0..n {
        let c = gen_enc_case(rng, false, false);
        let (b, seed) = (*rng.pick(&BUF_SIZES), rng.below(1 << 30));
        out.push(rt_line(&c, b, seed));
    }
    out
}
