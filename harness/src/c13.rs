//! C13 — graceful shutdown loses no accepted call.
//!
//! Drives the REAL `Server::builder().add_service(..).serve_with_incoming_shutdown(incoming, signal)`
//! (or `serve_with_incoming` in mode `n`) over in-memory `tokio::io::duplex` connections, with real
//! tonic clients (`Endpoint::connect_with_connector`), on a current-thread runtime with paused time.
//!
//! Mode `t` / `u` run the same scripts over LOOPBACK TCP through the TCP entry points
//! `Router::serve_with_shutdown(addr, signal)` / `Router::serve(addr)` (`TcpIncoming::bind` inside
//! tonic), with clients connecting real `tokio::net::TcpStream`s; see "TCP variant" below.
//!
//! Mode `gs` is mode `g` with a TLS acceptor on the server (`Server::tls_config`, test PKI of
//! harness/certs): every offered connection first goes through `ServerIoStream`'s handshake
//! `JoinSet` (io_stream.rs); clients are tonic channels with a `ClientTlsConfig` over the duplex
//! pipe, plus clients that connect without speaking (`H`, continued by `h<c>`) or that send
//! something that is not TLS (`Hb`).
//!
//! Case grammar (space separated):
//!   sc[:<generator stream label, not interpreted>] <g|n|t|u|gs> b<duplex buffer> p<payload bytes>
//!      a<0|1 max_connection_age configured> [t<secs>] [k<secs>] [l<n>] <step>*
//!      (optional server configuration, in this order:
//!       t<secs> = `Server::timeout(secs)`: every handler runs under `GrpcTimeout`; a call whose
//!                 handler has not returned its response (the response HEAD: one phase of this
//!                 harness's handlers) within <secs> of being invoked is answered CANCELLED
//!                 "Timeout expired" by the server (`s1T`); a call past its head is out of the
//!                 timeout's reach, however long its body streams, shutdown or not;
//!       k<secs> = `http2_keepalive_interval(secs)` + `http2_keepalive_timeout(20 s)` over duplex
//!                 pipes, `tcp_keepalive(secs)` + `tcp_nodelay` over TCP - the peers are alive,
//!                 so neither is expected to show;
//!       l<n>    = `concurrency_limit_per_connection(n)` + `max_concurrent_streams(n)`, n above
//!                 the number of calls a script puts on one connection - expected not to show)
//!      (g = serve_with_incoming_shutdown, n = serve_with_incoming, both over in-memory duplex pipes;
//!       t = serve_with_shutdown(addr, signal), u = serve(addr), both over loopback TCP;
//!       requests and response messages are p bytes; the duplex buffer size sets the transport
//!       fragmentation (ignored over TCP))
//!   step (optionally suffixed `~<k>`: only k scheduler yields follow instead of a full settle):
//!     C            offer a connection (index = order of offering) and connect a client over it
//!     K<n>[:<j>]   (g, n) a BURST: n connections (1 ≤ n ≤ 8) made ready in `incoming` at the same
//!                  instant - all n are queued before the server can run again - then a client is
//!                  connected over each.  With `:<j>` (1 ≤ j ≤ n, mode g only) the shutdown signal is
//!                  wired to the burst: the scripted `Incoming` stream resolves the signal's oneshot
//!                  inside `poll_next`, right after it has yielded the j-th connection of the burst -
//!                  the ACCEPT ITSELF triggers the signal, so the signal becomes ready between two
//!                  connections of one backlog with no quiescent point (not even a yield) between
//!                  them.  Connections 1..j of the burst were taken before the signal, j+1..n can
//!                  only be taken after it.
//!     H            (gs) offer a connection whose client does not say anything yet
//!     h<c>         (gs) the silent client of connection c starts its TLS handshake and connects
//!     Hb           (gs) offer a connection whose client sends a plain HTTP request instead of TLS
//!     U<c>:<s>     start a unary call on connection c; handler will answer status s (0 = OK + message)
//!     S<c>:<n>:<s> start a server-streaming call: headers, n messages, then status s
//!     Q<c>:<m>:<s> start a client-streaming call: the client will send m request messages (one per
//!                  `M` step, the last one half-closes; m = 0: half-closed at once); the handler reads
//!                  the request stream to its end, then (one phase) answers like a unary one
//!     B<c>:<m>:<n>:<s> start a bidi call: m request messages as for Q; the handler sends headers, n
//!                  messages (one phase each), then - last phase - reads the request stream to its
//!                  end and sends status s
//!     M<k>         the client of call k sends its next request message
//!     A<k>         let the handler of call k advance one phase
//!     G            fire the shutdown signal
//!     E            end the incoming stream
//!     Ir | Io      the incoming stream yields an accept error (recoverable kind / other kind)
//!     D<c>         the client drops connection c (and abandons its calls)
//!     X<k>         the client abandons call k
//!     W<secs>      virtual time passes: the script sleeps <secs> seconds of (paused) tokio time.
//!                  Usable anywhere, with or without max_connection_age configured: whatever in
//!                  the server depends on the clock gets its chance to fire
//!     T            = W3600 (virtual time passes max_connection_age)
//!   D, X, W and T must follow and be quiescent steps.
//!   After the script: every client completes its request stream and all handlers free-run (drain),
//!   quiescent point, then every client is dropped.
//!
//! Time = number of quiescent points passed (a quiescent point = the paused-clock runtime went idle:
//! `sleep(1ms)` only returns once no task is runnable).  Steps joined by `~k` share one instant.
//!
//! TCP variant.  The server binds 127.0.0.1:<free port> itself; nothing on the server side can be
//! wrapped, so a connection is observed from its client end: `accepted` = the client received bytes
//! from the server (the server's SETTINGS; a connection left in the listen backlog never gets any),
//! `closed` = the client read EOF / an error, or dropped its end.  The clock is still tokio's paused
//! clock (time steps work), but "the runtime went idle" is not by itself a quiescent point when the
//! kernel sits between the two ends.  So after every step the script driver waits for explicit
//! synchronisation points, all of them POSITIVE events that the step must cause if the server
//! behaves: the handler of a call issued on a live connection reported it started; the client
//! received the items a released handler phase produces; after the signal each live connection's
//! client read the final GOAWAY (the client end parses HTTP/2 frame headers for this), a connection
//! with no unfinished call read EOF, and with no connection left the serve future resolved.  A
//! wait that is not satisfied within a bound (only possible when the server misbehaves) is given
//! up and the observation is reported as it is.  Only quiescent steps, no `E`/`I` (a TcpIncoming
//! cannot be ended or made to fail from outside).  The open-connection count at the instant of
//! resolution is not observable from the client ends and reported as `*`.
//!
//! Observed (times; `-` = never):
//!   R<resolvedAt>:<open server IOs at that instant (`*` in mode n)>:<ok|err>
//!   c<i>:<accepted 0|1>:<server IO dropped at>
//!   k<j>:<handler started 0|1>:<headers 0|1|bad>:<good messages|bad>:<status s<code>|s<code>!|s1T|->:<client done at>
//!        (`s<code>!` = status text is not the handler's; `s1T` = CANCELLED "Timeout expired", the
//!         server's answer when `Server::timeout` ran out; message contents, the `x-k` response
//!         header and the status text are all checked per call)
//!   k<j>:0:0:0:ns:-   the server never saw the call (whatever local error the client got)
//!   hang              the virtual-time watchdog fired
use crate::common::*;
use bytes::{Buf, BufMut};
use std::future::Future;
use std::pin::Pin;
use std::sync::{Arc, Mutex};
use std::task::{Context, Poll};
use std::time::Duration;
use tokio::io::{AsyncRead, AsyncWrite, DuplexStream, ReadBuf};
use tokio::sync::{mpsc, oneshot, Semaphore};
use tonic::codec::{BufferSettings, Codec, DecodeBuf, Decoder, EncodeBuf, Encoder};
use tonic::transport::server::Connected;
use tonic::transport::{Endpoint, Server, Uri};
use tonic::{Request, Response, Status};

#[path = "c13_x.rs"]
mod x;
// `qlim`: calls queued behind concurrency_limit_per_connection at the signal (seed C13i)
#[path = "c13_q.rs"]
mod q;

// ---------------------------------------------------------------- script

#[derive(Clone, Debug, PartialEq)]
enum Op {
    Conn,
    /// n connections ready at once; the signal fires when the j-th is taken (0 = not wired)
    Burst(usize, usize),
    ConnStalled,
    ConnBad,
    Hello(usize),
    Unary(usize, i32),
    Stream(usize, usize, i32),
    CStream(usize, usize, i32),
    Bidi(usize, usize, usize, i32),
    ReqMsg(usize),
    Adv(usize),
    Sig,
    EndIncoming,
    AcceptErr(bool),
    DropConn(usize),
    Cancel(usize),
    Wait(u64),
}

#[derive(Clone, Debug)]
struct Step {
    op: Op,
    yields: Option<usize>,
}

#[derive(Clone, Copy, PartialEq, Debug)]
enum Transport {
    Duplex,
    Tcp,
}

struct Script {
    graceful: bool,
    transport: Transport,
    tls: bool,
    buf: usize,
    payload: usize,
    age: bool,
    /// `Server::timeout(d)`, seconds
    timeout: Option<u64>,
    /// `http2_keepalive_interval` (duplex) / `tcp_keepalive` (TCP), seconds
    keepalive: Option<u64>,
    /// `concurrency_limit_per_connection` and `max_concurrent_streams`
    limit: Option<usize>,
    /// `x<bits>`: further builder knobs expected not to show (see c13_x.rs)
    extra: u32,
    /// `z<1|2|3>`: a sibling server built from the same builder value (see c13_x.rs)
    sibling: u8,
    steps: Vec<Step>,
}

fn parse(case: &str) -> Option<Script> {
    let t: Vec<&str> = case.split(' ').collect();
    if t.len() < 5 || !t[0].starts_with("sc") {
        return None;
    }
    let (graceful, transport, tls) = match t[1] {
        "g" => (true, Transport::Duplex, false),
        "n" => (false, Transport::Duplex, false),
        "t" => (true, Transport::Tcp, false),
        "u" => (false, Transport::Tcp, false),
        "gs" => (true, Transport::Duplex, true),
        _ => return None,
    };
    let buf: usize = t[2].strip_prefix('b')?.parse().ok()?;
    let payload: usize = t[3].strip_prefix('p')?.parse().ok()?;
    let age = match t[4] {
        "a0" => false,
        "a1" => true,
        _ => return None,
    };
    // optional configuration tokens, in this order: t<secs> k<secs> l<n>
    let mut at = 5;
    let mut opt = |prefix: char, max: u64| -> Result<Option<u64>, ()> {
        match t.get(at).and_then(|x| x.strip_prefix(prefix)) {
            Some(d) if !d.is_empty() && d.bytes().all(|b| b.is_ascii_digit()) => {
                let v: u64 = d.parse().map_err(|_| ())?;
                if v == 0 || v > max {
                    return Err(());
                }
                at += 1;
                Ok(Some(v))
            }
            _ => Ok(None),
        }
    };
    let timeout = opt('t', 1_000_000).ok()?;
    let keepalive = opt('k', 1_000_000).ok()?;
    let limit = opt('l', 1000).ok()?.map(|v| v as usize);
    let extra = opt('x', x::X_MAX).ok()?.unwrap_or(0) as u32;
    let sibling = opt('z', 3).ok()?.unwrap_or(0) as u8;
    let mut steps = Vec::new();
    let (mut nconn, mut ncall) = (0usize, 0usize);
    for s in &t[at..] {
        let (body, yields) = match s.split_once('~') {
            Some((b, y)) => (b, Some(y.parse::<usize>().ok()?)),
            None => (*s, None),
        };
        let (head, rest) = body.split_at(1);
        let nums: Vec<&str> = if rest.is_empty() { vec![] } else { rest.split(':').collect() };
        let op = match (head, nums.as_slice()) {
            ("C", []) => {
                nconn += 1;
                Op::Conn
            }
            ("K", [n]) if !tls && transport == Transport::Duplex => {
                let n: usize = n.parse().ok()?;
                if n == 0 || n > 8 {
                    return None;
                }
                nconn += n;
                Op::Burst(n, 0)
            }
            ("K", [n, j]) if !tls && transport == Transport::Duplex && graceful => {
                let n: usize = n.parse().ok()?;
                let j: usize = j.parse().ok()?;
                if n == 0 || n > 8 || j == 0 || j > n {
                    return None;
                }
                nconn += n;
                Op::Burst(n, j)
            }
            ("H", []) if tls => {
                nconn += 1;
                Op::ConnStalled
            }
            ("H", ["b"]) if tls => {
                nconn += 1;
                Op::ConnBad
            }
            ("h", [c]) if tls => {
                let c: usize = c.parse().ok()?;
                if c >= nconn {
                    return None;
                }
                Op::Hello(c)
            }
            ("U", [c, s]) => {
                let c: usize = c.parse().ok()?;
                if c >= nconn {
                    return None;
                }
                ncall += 1;
                Op::Unary(c, s.parse().ok()?)
            }
            ("S", [c, n, s]) => {
                let c: usize = c.parse().ok()?;
                if c >= nconn {
                    return None;
                }
                ncall += 1;
                Op::Stream(c, n.parse().ok()?, s.parse().ok()?)
            }
            ("Q", [c, m, s]) => {
                let c: usize = c.parse().ok()?;
                let m: usize = m.parse().ok()?;
                if c >= nconn || m > 64 {
                    return None;
                }
                ncall += 1;
                Op::CStream(c, m, s.parse().ok()?)
            }
            ("B", [c, m, n, s]) => {
                let c: usize = c.parse().ok()?;
                let m: usize = m.parse().ok()?;
                if c >= nconn || m > 64 {
                    return None;
                }
                ncall += 1;
                Op::Bidi(c, m, n.parse().ok()?, s.parse().ok()?)
            }
            ("M", [k]) => {
                let k: usize = k.parse().ok()?;
                if k >= ncall {
                    return None;
                }
                Op::ReqMsg(k)
            }
            ("A", [k]) => {
                let k: usize = k.parse().ok()?;
                if k >= ncall {
                    return None;
                }
                Op::Adv(k)
            }
            ("G", []) => Op::Sig,
            ("E", []) => Op::EndIncoming,
            ("I", ["r"]) => Op::AcceptErr(true),
            ("I", ["o"]) => Op::AcceptErr(false),
            ("D", [c]) => {
                let c: usize = c.parse().ok()?;
                if c >= nconn {
                    return None;
                }
                Op::DropConn(c)
            }
            ("X", [k]) => {
                let k: usize = k.parse().ok()?;
                if k >= ncall {
                    return None;
                }
                Op::Cancel(k)
            }
            ("T", []) => Op::Wait(AGE.as_secs()),
            ("W", [d]) => {
                let d: u64 = d.parse().ok()?;
                if d > 100_000 {
                    return None;
                }
                Op::Wait(d)
            }
            _ => return None,
        };
        if matches!(op, Op::DropConn(_) | Op::Cancel(_) | Op::Wait(_)) {
            // these are only meaningful from a quiescent state
            if yields.is_some() || steps.last().map(|p: &Step| p.yields.is_some()).unwrap_or(false) {
                return None;
            }
        }
        if transport == Transport::Tcp && (yields.is_some() || matches!(op, Op::EndIncoming | Op::AcceptErr(_))) {
            return None;
        }
        steps.push(Step { op, yields });
    }
    Some(Script { graceful, transport, tls, buf, payload, age, timeout, keepalive, limit, extra, sibling, steps })
}

// ---------------------------------------------------------------- shared observation state

#[derive(Default)]
struct ConnRec {
    accepted: bool,
    closed_at: Option<usize>,
    /// (duplex variants) a server-side IO for this connection was put into the `incoming` stream
    offered: bool,
    /// TCP variant, seen by the client end: the server acknowledged the client's SETTINGS (its
    /// HTTP/2 handshake is complete); the server's final GOAWAY (last-stream-id < 2^31-1) arrived
    hs_ack: bool,
    final_goaway: bool,
}

#[derive(Clone, Copy, PartialEq, Debug)]
enum Kind {
    Unary,
    SStream,
    CStream,
    Bidi,
}

struct CallRec {
    n: usize, // messages the handler intends to send (unary: 1 if status 0 else 0)
    m: usize, // request messages the client is going to send (client-streaming and bidi)
    status: i32,
    kind: Kind,
    gate: Arc<Semaphore>,
    started: bool,
    hdr: Option<bool>, // Some(true) good, Some(false) bad
    msgs: usize,
    bad: bool,
    fin: Option<String>,
    done_at: Option<usize>,
}

#[derive(Default)]
struct Shared {
    step: usize,
    open: usize,
    conns: Vec<ConnRec>,
    calls: Vec<CallRec>,
    resolved: Option<(usize, usize, bool)>,
    payload: usize,
}

type Sh = Arc<Mutex<Shared>>;

/// j-th request message of a client-streaming / bidi call
fn req_message(k: usize, j: usize, len: usize) -> Vec<u8> {
    message(k + 7919, j + 3, len)
}

fn message(k: usize, j: usize, len: usize) -> Vec<u8> {
    (0..len).map(|i| (k.wrapping_mul(31) + j.wrapping_mul(7) + i.wrapping_mul(13) + 1) as u8).collect()
}

const AGE: Duration = Duration::from_secs(3600);
const KEEPALIVE_TIMEOUT: Duration = Duration::from_secs(20);
/// what `GrpcTimeout` + `RecoverError` answer when `Server::timeout` runs out: CANCELLED with this text
const TIMEOUT_TEXT: &str = "Timeout expired";

// ---------------------------------------------------------------- server-side IO wrapper

struct SrvIo {
    inner: DuplexStream,
    id: usize,
    sh: Sh,
}

impl Connected for SrvIo {
    type ConnectInfo = ();
    // called by tonic's MakeSvc exactly when the accept loop takes the connection
    fn connect_info(&self) {
        let mut g = self.sh.lock().unwrap();
        if !g.conns[self.id].accepted {
            g.conns[self.id].accepted = true;
            g.open += 1;
        }
    }
}

impl Drop for SrvIo {
    fn drop(&mut self) {
        let mut g = self.sh.lock().unwrap();
        let st = g.step;
        if g.conns[self.id].accepted {
            g.open -= 1;
        }
        g.conns[self.id].closed_at = Some(st);
    }
}

impl AsyncRead for SrvIo {
    fn poll_read(mut self: Pin<&mut Self>, cx: &mut Context<'_>, buf: &mut ReadBuf<'_>) -> Poll<std::io::Result<()>> {
        Pin::new(&mut self.inner).poll_read(cx, buf)
    }
}

impl AsyncWrite for SrvIo {
    fn poll_write(mut self: Pin<&mut Self>, cx: &mut Context<'_>, buf: &[u8]) -> Poll<std::io::Result<usize>> {
        Pin::new(&mut self.inner).poll_write(cx, buf)
    }
    fn poll_flush(mut self: Pin<&mut Self>, cx: &mut Context<'_>) -> Poll<std::io::Result<()>> {
        Pin::new(&mut self.inner).poll_flush(cx)
    }
    fn poll_shutdown(mut self: Pin<&mut Self>, cx: &mut Context<'_>) -> Poll<std::io::Result<()>> {
        Pin::new(&mut self.inner).poll_shutdown(cx)
    }
}

/// the sending half of the user's shutdown signal: the script's `G` step takes it - or the
/// scripted `Incoming` stream does, at the instant it hands over a connection a `K<n>:<j>` step
/// wired the signal to
type SigTx = Arc<Mutex<Option<oneshot::Sender<()>>>>;

fn fire_signal(sig: &SigTx) {
    if let Some(tx) = sig.lock().unwrap().take() {
        let _ = tx.send(());
    }
}

struct Incoming {
    rx: mpsc::UnboundedReceiver<Result<SrvIo, std::io::Error>>,
    /// connections (by index) whose hand-over to the accept loop fires the shutdown signal
    triggers: Arc<Mutex<Vec<usize>>>,
    sig: SigTx,
    /// the stream has yielded `None`; polling it again breaks the `Stream` contract (a stream
    /// built with `unfold` / `async_stream` panics then): reported as `repoll`
    ended: bool,
    repolled: Arc<std::sync::atomic::AtomicBool>,
}

impl futures_core::Stream for Incoming {
    type Item = Result<SrvIo, std::io::Error>;
    fn poll_next(mut self: Pin<&mut Self>, cx: &mut Context<'_>) -> Poll<Option<Self::Item>> {
        if self.ended {
            self.repolled.store(true, std::sync::atomic::Ordering::SeqCst);
            return Poll::Ready(None);
        }
        let r = self.rx.poll_recv(cx);
        if let Poll::Ready(None) = &r {
            self.ended = true;
        }
        if let Poll::Ready(Some(Ok(io))) = &r {
            let wired = {
                let mut t = self.triggers.lock().unwrap();
                let before = t.len();
                t.retain(|id| *id != io.id);
                t.len() != before
            };
            if wired {
                // the signal future becomes ready while the accept loop is still busy with this
                // very connection: the next thing the loop does decides whether it looks at the
                // signal before it takes the connection queued right behind
                fire_signal(&self.sig);
            }
        }
        r
    }
}

// ---------------------------------------------------------------- TCP variant: client-side IO wrapper

/// The client end of a loopback TCP connection.  It watches what the server sends (only HTTP/2
/// frame headers are looked at) and when the connection ends.
struct CliIo {
    inner: tokio::net::TcpStream,
    id: usize,
    sh: Sh,
    pending: Vec<u8>,
}

impl CliIo {
    fn ended(&self) {
        let mut g = self.sh.lock().unwrap();
        let st = g.step;
        if g.conns[self.id].closed_at.is_none() {
            g.conns[self.id].closed_at = Some(st);
        }
    }
    fn received(&mut self, bytes: &[u8]) {
        self.pending.extend_from_slice(bytes);
        let mut g = self.sh.lock().unwrap();
        g.conns[self.id].accepted = true;
        loop {
            if self.pending.len() < 9 {
                break;
            }
            let len = ((self.pending[0] as usize) << 16) | ((self.pending[1] as usize) << 8) | self.pending[2] as usize;
            if self.pending.len() < 9 + len {
                break;
            }
            let (ty, flags) = (self.pending[3], self.pending[4]);
            if ty == 4 && flags & 1 == 1 {
                g.conns[self.id].hs_ack = true;
            }
            if ty == 7 && len >= 8 {
                let last = u32::from_be_bytes([self.pending[9], self.pending[10], self.pending[11], self.pending[12]]) & 0x7fff_ffff;
                if last != 0x7fff_ffff {
                    g.conns[self.id].final_goaway = true;
                }
            }
            self.pending.drain(..9 + len);
        }
    }
}

impl Drop for CliIo {
    fn drop(&mut self) {
        self.ended();
    }
}

impl AsyncRead for CliIo {
    fn poll_read(mut self: Pin<&mut Self>, cx: &mut Context<'_>, buf: &mut ReadBuf<'_>) -> Poll<std::io::Result<()>> {
        let before = buf.filled().len();
        match Pin::new(&mut self.inner).poll_read(cx, buf) {
            Poll::Ready(Ok(())) => {
                if buf.filled().len() == before {
                    if buf.remaining() > 0 {
                        self.ended();
                    }
                } else {
                    let new = buf.filled()[before..].to_vec();
                    self.received(&new);
                }
                Poll::Ready(Ok(()))
            }
            Poll::Ready(Err(e)) => {
                self.ended();
                Poll::Ready(Err(e))
            }
            Poll::Pending => Poll::Pending,
        }
    }
}

impl AsyncWrite for CliIo {
    fn poll_write(mut self: Pin<&mut Self>, cx: &mut Context<'_>, buf: &[u8]) -> Poll<std::io::Result<usize>> {
        Pin::new(&mut self.inner).poll_write(cx, buf)
    }
    fn poll_flush(mut self: Pin<&mut Self>, cx: &mut Context<'_>) -> Poll<std::io::Result<()>> {
        Pin::new(&mut self.inner).poll_flush(cx)
    }
    fn poll_shutdown(mut self: Pin<&mut Self>, cx: &mut Context<'_>) -> Poll<std::io::Result<()>> {
        Pin::new(&mut self.inner).poll_shutdown(cx)
    }
}

// ---------------------------------------------------------------- TCP variant: what to wait for

/// What each script step must cause if the server behaves (TCP variant only).  This is NOT used to
/// produce the observation - only to know which events to wait for before the next step; a wait
/// that is not satisfied in time is abandoned and the observation reported as it stands.
#[derive(Default)]
struct Expect {
    graceful_mode: bool,
    age: bool,
    /// `Server::timeout`, seconds
    timeout: Option<u64>,
    sig: bool,
    now: u64,
    conns: Vec<ExpConn>,
    calls: Vec<ExpCall>,
    gave_up: bool,
}

struct ExpConn {
    /// offered while the accept loop was running: the server takes it
    accept: bool,
    acc_at: u64,
    aged: bool,
    dropped: bool,
}

struct ExpCall {
    conn: usize,
    /// issued on a live connection that had not been told to shut down: the handler starts
    start: bool,
    kind: Kind,
    n: usize,
    phases: usize,
    permits: usize,
    req_left: usize,
    cancelled: bool,
    /// when the call was issued (= when its handler is invoked, if it is)
    start_at: u64,
    /// `Server::timeout` ran out before the handler could produce the response head: the server
    /// answers the call itself, the handler is gone
    expired: bool,
}

impl Expect {
    fn conn_graceful(&self, c: usize) -> bool {
        (self.graceful_mode && self.sig) || self.conns[c].aged
    }
    fn live(&self, k: usize) -> bool {
        let c = &self.calls[k];
        c.start && !c.cancelled && !self.conns[c.conn].dropped
    }
    /// handler phases of call k that must have run by now
    fn produced(&self, k: usize) -> usize {
        let c = &self.calls[k];
        let p = c.permits.min(c.phases);
        if p == c.phases && c.req_left > 0 {
            c.phases - 1
        } else {
            p
        }
    }
    fn conn_closes(&self, c: usize) -> bool {
        self.conns[c].accept
            && !self.conns[c].dropped
            && self.conn_graceful(c)
            && (0..self.calls.len()).all(|k| self.calls[k].conn != c || !self.live(k) || self.calls[k].expired || self.produced(k) == self.calls[k].phases)
    }
    fn resolves(&self) -> bool {
        self.graceful_mode && self.sig && (0..self.conns.len()).all(|c| !self.conns[c].accept || self.conns[c].dropped || self.conn_closes(c))
    }
    fn wait_passes(&mut self, secs: u64) {
        self.now += secs;
        if self.age {
            for c in self.conns.iter_mut() {
                if c.accept && self.now - c.acc_at >= AGE.as_secs() {
                    c.aged = true;
                }
            }
        }
        if let Some(d) = self.timeout {
            for k in 0..self.calls.len() {
                if self.live(k) && !self.calls[k].expired && self.produced(k) == 0 && self.now - self.calls[k].start_at >= d {
                    self.calls[k].expired = true;
                }
            }
        }
    }
    fn satisfied(&self, g: &Shared) -> bool {
        for (c, e) in self.conns.iter().enumerate() {
            let r = &g.conns[c];
            if e.accept && !e.dropped {
                if r.closed_at.is_none() && !(r.accepted && r.hs_ack) {
                    return false;
                }
                if self.conn_graceful(c) && !(r.final_goaway || r.closed_at.is_some()) {
                    return false;
                }
                if self.conn_closes(c) && r.closed_at.is_none() {
                    return false;
                }
            }
        }
        for (k, e) in self.calls.iter().enumerate() {
            if !self.live(k) {
                continue;
            }
            let r = &g.calls[k];
            if !r.started {
                return false;
            }
            let p = self.produced(k);
            let done = r.done_at.is_some();
            if e.expired {
                // the server's "Timeout expired" reached the client
                if !done {
                    return false;
                }
                continue;
            }
            match e.kind {
                Kind::Unary | Kind::CStream => {
                    if p >= 1 && !done {
                        return false;
                    }
                }
                Kind::SStream | Kind::Bidi => {
                    if p >= 1 && r.hdr.is_none() && !done {
                        return false;
                    }
                    if p >= 1 && !done && !r.bad && r.msgs < (p - 1).min(e.n) {
                        return false;
                    }
                    if p == e.phases && !done {
                        return false;
                    }
                }
            }
        }
        if self.resolves() && g.resolved.is_none() {
            return false;
        }
        true
    }
}

/// TCP variant: the quiescent point after a step.  `settle()` lets every task in this runtime run
/// until none is runnable (which on loopback is normally all there is to wait for); then the
/// explicit synchronisation points; then once more to idle.
async fn tcp_sync(sh: &Sh, exp: &mut Expect) {
    let t0 = std::time::Instant::now();
    let mut rounds = 0u32;
    // once a wait has been given up the server is off the script anyway: later waits are short
    let (max_rounds, max_ms) = if exp.gave_up { (100, 30) } else { (2500, 1000) };
    loop {
        settle().await;
        if exp.satisfied(&sh.lock().unwrap()) {
            break;
        }
        rounds += 1;
        if rounds > max_rounds && t0.elapsed() > Duration::from_millis(max_ms) {
            if std::env::var_os("VERIF_C13_TRACE").is_some() {
                eprintln!("c13: tcp wait abandoned at step {}", sh.lock().unwrap().step);
            }
            exp.gave_up = true;
            break;
        }
        // give the kernel real time to move bytes between the two ends
        std::thread::sleep(Duration::from_micros(200));
    }
    settle().await;
}

/// Await something that completes by real IO under the paused clock.  tokio advances a paused
/// clock to the next timer whenever no task is runnable - also when the only thing everybody waits
/// for is the kernel - so without a near timer of our own the clock would leap to whatever timer is
/// next (a connection's max_connection_age, the watchdog).  A 1 ms tick keeps the leaps at 1 ms.
async fn with_ticks<F: Future>(fut: F) -> F::Output {
    let mut fut = std::pin::pin!(fut);
    loop {
        tokio::select! {
            biased;
            r = &mut fut => return r,
            _ = tokio::time::sleep(Duration::from_millis(1)) => {
                std::thread::sleep(Duration::from_micros(50));
            }
        }
    }
}

fn free_port() -> Option<u16> {
    let l = std::net::TcpListener::bind("127.0.0.1:0").ok()?;
    l.local_addr().ok().map(|a| a.port())
}

// ---------------------------------------------------------------- byte codec

#[derive(Clone, Copy, Default)]
struct RawCodec;
#[derive(Clone, Copy)]
struct RawEnc;
#[derive(Clone, Copy)]
struct RawDec;

impl Encoder for RawEnc {
    type Item = Vec<u8>;
    type Error = Status;
    fn encode(&mut self, item: Vec<u8>, dst: &mut EncodeBuf<'_>) -> Result<(), Status> {
        dst.put_slice(&item);
        Ok(())
    }
    fn buffer_settings(&self) -> BufferSettings {
        BufferSettings::default()
    }
}

impl Decoder for RawDec {
    type Item = Vec<u8>;
    type Error = Status;
    fn decode(&mut self, src: &mut DecodeBuf<'_>) -> Result<Option<Vec<u8>>, Status> {
        let n = src.remaining();
        Ok(Some(src.copy_to_bytes(n).to_vec()))
    }
    fn buffer_settings(&self) -> BufferSettings {
        BufferSettings::default()
    }
}

impl Codec for RawCodec {
    type Encode = Vec<u8>;
    type Decode = Vec<u8>;
    type Encoder = RawEnc;
    type Decoder = RawDec;
    fn encoder(&mut self) -> RawEnc {
        RawEnc
    }
    fn decoder(&mut self) -> RawDec {
        RawDec
    }
}

// ---------------------------------------------------------------- the gated service

#[derive(Clone)]
struct GateSvc {
    sh: Sh,
}

impl tonic::server::NamedService for GateSvc {
    const NAME: &'static str = "verif.Gate";
}

type BoxFut<T> = Pin<Box<dyn Future<Output = T> + Send + 'static>>;

/// the call index a unary / server-streaming request carries; `None` for a request that is not
/// one of this scenario's (over TCP a stray client of something else could reach the port)
fn call_id(sh: &Sh, req: &[u8]) -> Option<usize> {
    if req.len() < 4 {
        return None;
    }
    let mut b = [0u8; 4];
    b.copy_from_slice(&req[..4]);
    let k = u32::from_be_bytes(b) as usize;
    if k < sh.lock().unwrap().calls.len() {
        Some(k)
    } else {
        None
    }
}

fn status_of(k: usize, code: i32) -> Status {
    Status::new(tonic::Code::from_i32(code), format!("e{}", k))
}

struct UnarySvc(Sh);
impl tonic::server::UnaryService<Vec<u8>> for UnarySvc {
    type Response = Vec<u8>;
    type Future = BoxFut<Result<Response<Vec<u8>>, Status>>;
    fn call(&mut self, request: Request<Vec<u8>>) -> Self::Future {
        let sh = self.0.clone();
        Box::pin(async move {
            let k = match call_id(&sh, request.get_ref()) {
                Some(k) => k,
                None => return Err(Status::internal("nok")),
            };
            let (gate, status, payload) = {
                let mut g = sh.lock().unwrap();
                g.calls[k].started = true;
                (g.calls[k].gate.clone(), g.calls[k].status, g.payload)
            };
            gate.acquire().await.unwrap().forget();
            if status == 0 {
                let mut r = Response::new(message(k, 0, payload));
                r.metadata_mut().insert("x-k", k.to_string().parse().unwrap());
                Ok(r)
            } else {
                Err(status_of(k, status))
            }
        })
    }
}

struct GatedStream {
    k: usize,
    j: usize,
    n: usize,
    status: i32,
    payload: usize,
    done: bool,
    wait: Option<BoxFut<bool>>,
    gate: Arc<Semaphore>,
    /// bidi: the request stream (read to its end in the last phase) and the expected count
    req: Option<(tonic::Streaming<Vec<u8>>, usize)>,
}

fn meta_k<T>(req: &Request<T>) -> Option<usize> {
    req.metadata().get("x-k")?.to_str().ok()?.parse().ok()
}

/// read a request stream to its end; true iff exactly the m expected messages came, in order
async fn drain_requests(mut s: tonic::Streaming<Vec<u8>>, k: usize, m: usize, payload: usize) -> bool {
    let mut count = 0usize;
    let mut good = true;
    loop {
        match s.message().await {
            Ok(Some(b)) => {
                if b != req_message(k, count, payload) {
                    good = false;
                }
                count += 1;
            }
            Ok(None) => break,
            Err(_) => return false,
        }
    }
    good && count == m
}

impl futures_core::Stream for GatedStream {
    type Item = Result<Vec<u8>, Status>;
    fn poll_next(mut self: Pin<&mut Self>, cx: &mut Context<'_>) -> Poll<Option<Self::Item>> {
        if self.done {
            return Poll::Ready(None);
        }
        if self.wait.is_none() {
            let gate = self.gate.clone();
            let last = self.j >= self.n;
            let req = if last { self.req.take() } else { None };
            let (k, payload) = (self.k, self.payload);
            self.wait = Some(Box::pin(async move {
                gate.acquire().await.unwrap().forget();
                match req {
                    Some((s, m)) => drain_requests(s, k, m, payload).await,
                    None => true,
                }
            }));
        }
        match self.wait.as_mut().unwrap().as_mut().poll(cx) {
            Poll::Pending => Poll::Pending,
            Poll::Ready(req_ok) => {
                self.wait = None;
                if !req_ok {
                    self.done = true;
                    return Poll::Ready(Some(Err(Status::internal("badreq"))));
                }
                if self.j < self.n {
                    let m = message(self.k, self.j, self.payload);
                    self.j += 1;
                    Poll::Ready(Some(Ok(m)))
                } else {
                    self.done = true;
                    if self.status == 0 {
                        Poll::Ready(None)
                    } else {
                        Poll::Ready(Some(Err(status_of(self.k, self.status))))
                    }
                }
            }
        }
    }
}

struct StreamSvc(Sh);
impl tonic::server::ServerStreamingService<Vec<u8>> for StreamSvc {
    type Response = Vec<u8>;
    type ResponseStream = GatedStream;
    type Future = BoxFut<Result<Response<GatedStream>, Status>>;
    fn call(&mut self, request: Request<Vec<u8>>) -> Self::Future {
        let sh = self.0.clone();
        Box::pin(async move {
            let k = match call_id(&sh, request.get_ref()) {
                Some(k) => k,
                None => return Err(Status::internal("nok")),
            };
            let (gate, status, payload, n) = {
                let mut g = sh.lock().unwrap();
                g.calls[k].started = true;
                (g.calls[k].gate.clone(), g.calls[k].status, g.payload, g.calls[k].n)
            };
            gate.acquire().await.unwrap().forget();
            let mut r = Response::new(GatedStream { k, j: 0, n, status, payload, done: false, wait: None, gate, req: None });
            r.metadata_mut().insert("x-k", k.to_string().parse().unwrap());
            Ok(r)
        })
    }
}

struct CStreamSvc(Sh);
impl tonic::server::ClientStreamingService<Vec<u8>> for CStreamSvc {
    type Response = Vec<u8>;
    type Future = BoxFut<Result<Response<Vec<u8>>, Status>>;
    fn call(&mut self, request: Request<tonic::Streaming<Vec<u8>>>) -> Self::Future {
        let sh = self.0.clone();
        Box::pin(async move {
            let k = match meta_k(&request) {
                Some(k) if k < sh.lock().unwrap().calls.len() => k,
                _ => return Err(Status::internal("nok")),
            };
            let (gate, status, payload, m) = {
                let mut g = sh.lock().unwrap();
                g.calls[k].started = true;
                (g.calls[k].gate.clone(), g.calls[k].status, g.payload, g.calls[k].m)
            };
            let req_ok = drain_requests(request.into_inner(), k, m, payload).await;
            gate.acquire().await.unwrap().forget();
            if !req_ok {
                return Err(Status::internal("badreq"));
            }
            if status == 0 {
                let mut r = Response::new(message(k, 0, payload));
                r.metadata_mut().insert("x-k", k.to_string().parse().unwrap());
                Ok(r)
            } else {
                Err(status_of(k, status))
            }
        })
    }
}

struct BidiSvc(Sh);
impl tonic::server::StreamingService<Vec<u8>> for BidiSvc {
    type Response = Vec<u8>;
    type ResponseStream = GatedStream;
    type Future = BoxFut<Result<Response<GatedStream>, Status>>;
    fn call(&mut self, request: Request<tonic::Streaming<Vec<u8>>>) -> Self::Future {
        let sh = self.0.clone();
        Box::pin(async move {
            let k = match meta_k(&request) {
                Some(k) if k < sh.lock().unwrap().calls.len() => k,
                _ => return Err(Status::internal("nok")),
            };
            let (gate, status, payload, n, m) = {
                let mut g = sh.lock().unwrap();
                g.calls[k].started = true;
                (g.calls[k].gate.clone(), g.calls[k].status, g.payload, g.calls[k].n, g.calls[k].m)
            };
            gate.acquire().await.unwrap().forget();
            let req = Some((request.into_inner(), m));
            let mut r = Response::new(GatedStream { k, j: 0, n, status, payload, done: false, wait: None, gate, req });
            r.metadata_mut().insert("x-k", k.to_string().parse().unwrap());
            Ok(r)
        })
    }
}

impl tower_service::Service<http::Request<tonic::body::Body>> for GateSvc {
    type Response = http::Response<tonic::body::Body>;
    type Error = std::convert::Infallible;
    type Future = BoxFut<Result<Self::Response, Self::Error>>;
    fn poll_ready(&mut self, _cx: &mut Context<'_>) -> Poll<Result<(), Self::Error>> {
        Poll::Ready(Ok(()))
    }
    fn call(&mut self, req: http::Request<tonic::body::Body>) -> Self::Future {
        let sh = self.sh.clone();
        match req.uri().path() {
            "/verif.Gate/Unary" => Box::pin(async move {
                let mut grpc = tonic::server::Grpc::new(RawCodec);
                Ok(grpc.unary(UnarySvc(sh), req).await)
            }),
            "/verif.Gate/Stream" => Box::pin(async move {
                let mut grpc = tonic::server::Grpc::new(RawCodec);
                Ok(grpc.server_streaming(StreamSvc(sh), req).await)
            }),
            "/verif.Gate/CStream" => Box::pin(async move {
                let mut grpc = tonic::server::Grpc::new(RawCodec);
                Ok(grpc.client_streaming(CStreamSvc(sh), req).await)
            }),
            "/verif.Gate/Bidi" => Box::pin(async move {
                let mut grpc = tonic::server::Grpc::new(RawCodec);
                Ok(grpc.streaming(BidiSvc(sh), req).await)
            }),
            _ => Box::pin(async move {
                let mut response = http::Response::new(tonic::body::Body::default());
                response.headers_mut().insert(Status::GRPC_STATUS, (tonic::Code::Unimplemented as i32).into());
                response.headers_mut().insert(http::header::CONTENT_TYPE, tonic::metadata::GRPC_CONTENT_TYPE);
                Ok(response)
            }),
        }
    }
}

// ---------------------------------------------------------------- client side

fn status_token(k: usize, st: &Status) -> String {
    let code = st.code() as i32;
    if code == tonic::Code::Cancelled as i32 && st.message() == TIMEOUT_TEXT {
        // the server's own answer to a call whose handler did not produce the response head within
        // `Server::timeout`
        "s1T".into()
    } else if st.message() == format!("e{}", k) {
        format!("s{}", code)
    } else {
        format!("s{}!", code)
    }
}

fn finish(sh: &Sh, k: usize, tok: String) {
    let mut g = sh.lock().unwrap();
    let st = g.step;
    g.calls[k].fin = Some(tok);
    g.calls[k].done_at = Some(st);
}

fn check_hdr(k: usize, md: &tonic::metadata::MetadataMap) -> bool {
    md.get("x-k").and_then(|v| v.to_str().ok()).map(|v| v == k.to_string()).unwrap_or(false)
}

struct ReqStream(mpsc::UnboundedReceiver<Vec<u8>>);

impl futures_core::Stream for ReqStream {
    type Item = Vec<u8>;
    fn poll_next(mut self: Pin<&mut Self>, cx: &mut Context<'_>) -> Poll<Option<Vec<u8>>> {
        self.0.poll_recv(cx)
    }
}

fn record_unary_result(sh: &Sh, k: usize, payload: usize, r: Result<Response<Vec<u8>>, Status>) {
    match r {
        Ok(resp) => {
            let good_hdr = check_hdr(k, resp.metadata());
            let good = resp.get_ref() == &message(k, 0, payload);
            {
                let mut g = sh.lock().unwrap();
                g.calls[k].hdr = Some(good_hdr);
                if good {
                    g.calls[k].msgs += 1;
                } else {
                    g.calls[k].bad = true;
                }
            }
            finish(sh, k, "s0".into());
        }
        Err(st) => finish(sh, k, status_token(k, &st)),
    }
}

async fn record_stream_result(sh: &Sh, k: usize, payload: usize, r: Result<Response<tonic::Streaming<Vec<u8>>>, Status>) {
    match r {
        Ok(resp) => {
            let good_hdr = check_hdr(k, resp.metadata());
            sh.lock().unwrap().calls[k].hdr = Some(good_hdr);
            let mut s = resp.into_inner();
            loop {
                match s.message().await {
                    Ok(Some(m)) => {
                        let mut g = sh.lock().unwrap();
                        let j = g.calls[k].msgs;
                        if !g.calls[k].bad && m == message(k, j, payload) {
                            g.calls[k].msgs += 1;
                        } else {
                            g.calls[k].bad = true;
                        }
                    }
                    Ok(None) => {
                        finish(sh, k, "s0".into());
                        break;
                    }
                    Err(st) => {
                        finish(sh, k, status_token(k, &st));
                        break;
                    }
                }
            }
        }
        Err(st) => finish(sh, k, status_token(k, &st)),
    }
}

async fn client_call(sh: Sh, ch: tonic::transport::Channel, k: usize, rx: Option<mpsc::UnboundedReceiver<Vec<u8>>>) {
    let (kind, payload) = {
        let g = sh.lock().unwrap();
        (g.calls[k].kind, g.payload)
    };
    let streaming = kind == Kind::SStream;
    let mut grpc = tonic::client::Grpc::new(ch);
    if let Err(e) = grpc.ready().await {
        let _ = e;
        finish(&sh, k, "s14!".into());
        return;
    }
    if kind == Kind::CStream || kind == Kind::Bidi {
        let (_keep, rx) = match rx {
            Some(rx) => (None, rx),
            None => {
                let (tx, rx) = mpsc::unbounded_channel();
                (Some(tx), rx)
            }
        };
        let mut req = Request::new(ReqStream(rx));
        req.metadata_mut().insert("x-k", k.to_string().parse().unwrap());
        if kind == Kind::CStream {
            let path = http::uri::PathAndQuery::from_static("/verif.Gate/CStream");
            let r = grpc.client_streaming::<_, Vec<u8>, Vec<u8>, _>(req, path, RawCodec).await;
            record_unary_result(&sh, k, payload, r);
        } else {
            let path = http::uri::PathAndQuery::from_static("/verif.Gate/Bidi");
            let r = grpc.streaming::<_, Vec<u8>, Vec<u8>, _>(req, path, RawCodec).await;
            record_stream_result(&sh, k, payload, r).await;
        }
        return;
    }
    let mut body = (k as u32).to_be_bytes().to_vec();
    // the request is as large as the responses, so that big-payload scenarios also have the
    // request upload (and its flow control) in flight around the signal
    body.extend(std::iter::repeat(0xA5u8).take(payload));
    if !streaming {
        let path = http::uri::PathAndQuery::from_static("/verif.Gate/Unary");
        let r = grpc.unary::<Vec<u8>, Vec<u8>, _>(Request::new(body), path, RawCodec).await;
        record_unary_result(&sh, k, payload, r);
    } else {
        let path = http::uri::PathAndQuery::from_static("/verif.Gate/Stream");
        let r = grpc.server_streaming::<Vec<u8>, Vec<u8>, _>(Request::new(body), path, RawCodec).await;
        record_stream_result(&sh, k, payload, r).await;
    }
}

// ---------------------------------------------------------------- scenario runner

/// the open request side of a client-streaming / bidi call: (sender, messages sent, messages to send)
type ReqTx = Option<(mpsc::UnboundedSender<Vec<u8>>, usize, usize)>;

/// the client sends the next request message of call k; the last one closes the request stream
fn send_req(slot: &mut ReqTx, k: usize, payload: usize) {
    if let Some((tx, sent, m)) = slot {
        let _ = tx.send(req_message(k, *sent, payload));
        *sent += 1;
        if *sent >= *m {
            *slot = None;
        }
    }
}

async fn settle() {
    tokio::time::sleep(Duration::from_millis(1)).await;
}

async fn after_step(y: Option<usize>) {
    match y {
        None => settle().await,
        Some(k) => {
            for _ in 0..k {
                tokio::task::yield_now().await;
            }
        }
    }
}

const CA1: &str = include_str!("../certs/ca1.pem");
const S1GOOD: &str = include_str!("../certs/s1good.pem");
const S1GOOD_KEY: &str = include_str!("../certs/s1good.key.pem");

fn tls_endpoint() -> Endpoint {
    let cfg = tonic::transport::ClientTlsConfig::new()
        .ca_certificate(tonic::transport::Certificate::from_pem(CA1))
        .domain_name("good.test");
    Endpoint::from_static("https://good.test").tls_config(cfg).expect("client tls config")
}

/// one client connection over a duplex pipe, with or without TLS
async fn connect_duplex(cli: DuplexStream, tls: bool) -> Option<tonic::transport::Channel> {
    let mut cli = Some(cli);
    let connector = tower::service_fn(move |_: Uri| {
        let c = cli.take();
        async move {
            match c {
                Some(c) => Ok(hyper_util::rt::TokioIo::new(c)),
                None => Err(std::io::Error::other("connection already used")),
            }
        }
    });
    let ep = if tls { tls_endpoint() } else { Endpoint::from_static("http://[::]:50051") };
    ep.connect_with_connector(connector).await.ok()
}

/// the client side of connection c: a channel, none (the connection attempt failed), or an
/// attempt that is still going on (TLS: the handshake needs the server to answer)
enum Slot {
    Now(Option<tonic::transport::Channel>),
    Later(tokio::sync::watch::Receiver<Option<Option<tonic::transport::Channel>>>),
}

impl Slot {
    fn is_live(&self) -> bool {
        match self {
            Slot::Now(c) => c.is_some(),
            Slot::Later(rx) => !matches!(&*rx.borrow(), Some(None)),
        }
    }
}

/// the user's shutdown signal: fires when `sig_rx` gets its message; if the sender just goes
/// away the signal stays pending for ever
async fn signal_future(sig_rx: oneshot::Receiver<()>, keep_rx: oneshot::Receiver<()>) {
    if sig_rx.await.is_err() {
        let _ = keep_rx.await;
        std::future::pending::<()>().await;
    }
}

fn record_resolved(sh: &Sh, ok: bool) {
    let mut g = sh.lock().unwrap();
    let (st, open) = (g.step, g.open);
    g.resolved = Some((st, open, ok));
}

async fn run(sc: Script) -> String {
    let sh: Sh = Arc::new(Mutex::new(Shared { payload: sc.payload, ..Default::default() }));
    let tcp = sc.transport == Transport::Tcp;
    let graceful = sc.graceful;
    let mut inc_tx = None;
    let sig_tx: SigTx = Arc::new(Mutex::new(None));
    let triggers: Arc<Mutex<Vec<usize>>> = Arc::new(Mutex::new(Vec::new()));
    let _keep_tx; // keeps an unfired signal pending for ever
    let mut tcp_addr: Option<std::net::SocketAddr> = None;
    let serve_task;
    let repolled = Arc::new(std::sync::atomic::AtomicBool::new(false));
    // `z`: a sibling server built from the same builder value
    let mut sib_parts = if sc.sibling != 0 { Some(x::sibling_parts(&sc)) } else { None };
    let mut sib_start: Option<x::SiblingParts> = None;
    let mut sib_fut: Option<x::ServeFut> = None;
    if !tcp {
        let (itx, inc_rx) = mpsc::unbounded_channel();
        inc_tx = Some(itx);
        let (stx, sig_rx) = oneshot::channel::<()>();
        let (ktx, keep_rx) = oneshot::channel::<()>();
        *sig_tx.lock().unwrap() = Some(stx);
        _keep_tx = ktx;
        let incoming = Incoming { rx: inc_rx, triggers: triggers.clone(), sig: sig_tx.clone(), ended: false, repolled: repolled.clone() };
        let how = x::How::Incoming(incoming, if graceful { Some((sig_rx, keep_rx)) } else { None });
        let (fut, sfut) = x::serve_futures(&sc, &sh, how, sib_parts.take().map(|(p, h)| { let s = p.sh.clone(); sib_start = Some(p); (s, h) }));
        sib_fut = sfut;
        let shs = sh.clone();
        serve_task = tokio::spawn(async move {
            let r = fut.await;
            record_resolved(&shs, r.is_ok());
        });
    } else {
        // The TCP entry points bind the address themselves and do not tell which port they got:
        // pick a free one, hand it over, and start again with another if somebody else took it in
        // between (the serve future then fails at once with the bind error).
        let mut attempt = 0;
        loop {
            let port = match free_port() {
                Some(p) => p,
                None => {
                    // no local port free just now (many sockets in TIME_WAIT): wait a little
                    attempt += 1;
                    if attempt > 200 {
                        return "bad-case".into();
                    }
                    std::thread::sleep(Duration::from_millis(20));
                    continue;
                }
            };
            let addr = std::net::SocketAddr::from(([127, 0, 0, 1], port));
            let (stx, sig_rx) = oneshot::channel::<()>();
            let (ktx, keep_rx) = oneshot::channel::<()>();
            let how = x::How::Tcp(addr, if graceful { Some((sig_rx, keep_rx)) } else { None });
            // (a sibling is built once, with the first attempt; a retry builds the server under
            // test alone from a fresh builder)
            let (fut, sfut) = x::serve_futures(&sc, &sh, how, sib_parts.take().map(|(p, h)| { let s = p.sh.clone(); sib_start = Some(p); (s, h) }));
            if sfut.is_some() {
                sib_fut = sfut;
            }
            let shs = sh.clone();
            let task = tokio::spawn(async move {
                let r = fut.await;
                record_resolved(&shs, r.is_ok());
            });
            // the bind happens in the serve future's first poll
            for _ in 0..4 {
                tokio::task::yield_now().await;
            }
            if !task.is_finished() {
                *sig_tx.lock().unwrap() = Some(stx);
                _keep_tx = ktx;
                tcp_addr = Some(addr);
                serve_task = task;
                break;
            }
            sh.lock().unwrap().resolved = None;
            attempt += 1;
            if attempt > 200 {
                if std::env::var_os("VERIF_C13_TRACE").is_some() {
                    eprintln!("c13: no port could be bound");
                }
                return "bad-case".into();
            }
        }
    }
    let mut exp = Expect { graceful_mode: graceful, age: sc.age, timeout: sc.timeout, ..Default::default() };
    let sibling = match (sib_start.take(), sib_fut.take()) {
        (Some(p), Some(f)) => Some(x::Sibling::start(&sc, p, f).await),
        _ => None,
    };

    let mut channels: Vec<Slot> = Vec::new();
    // TLS: connection attempts in progress, silent clients (client end, result sender), and the
    // client ends of connections that only have to stay open
    let mut conn_tasks: Vec<Option<tokio::task::JoinHandle<()>>> = Vec::new();
    type Hello = (DuplexStream, tokio::sync::watch::Sender<Option<Option<tonic::transport::Channel>>>);
    let mut silent: Vec<Option<Hello>> = Vec::new();
    let mut held: Vec<Option<DuplexStream>> = Vec::new();
    let mut call_tasks: Vec<(usize, tokio::task::JoinHandle<()>)> = Vec::new(); // (conn, task) by call index
    let mut req_tx: Vec<ReqTx> = Vec::new(); // request side of call k, while it is still open

    let mut t = 0usize; // time = number of quiescent points passed
    let vstart = tokio::time::Instant::now();
    for step in sc.steps.iter() {
        sh.lock().unwrap().step = t;
        match step.op.clone() {
            Op::Conn => {
                let id = {
                    let mut g = sh.lock().unwrap();
                    g.conns.push(ConnRec::default());
                    g.conns.len() - 1
                };
                let gone = sh.lock().unwrap().resolved.is_some();
                let r: Result<tonic::transport::Channel, ()> = if tcp && gone {
                    // The listener went with the serve future.  Whoever owns that port now (another
                    // scenario running in parallel may have been given it), it is not the server
                    // under test: the connection counts as refused, without touching the network.
                    Err(())
                } else if let Some(addr) = tcp_addr {
                    let mut used = false;
                    let shc = sh.clone();
                    with_ticks(Endpoint::from_static("http://127.0.0.1:50051")
                        .connect_with_connector(tower::service_fn(move |_: Uri| {
                            let first = !used;
                            used = true;
                            let shc = shc.clone();
                            async move {
                                if !first {
                                    return Err(std::io::Error::other("connection already used"));
                                }
                                let mut tries = 0;
                                let s = loop {
                                    match tokio::net::TcpStream::connect(addr).await {
                                        Ok(s) => break s,
                                        // no local port free just now (sockets in TIME_WAIT)
                                        Err(e) if e.kind() == std::io::ErrorKind::AddrNotAvailable && tries < 100 => {
                                            tries += 1;
                                            std::thread::sleep(Duration::from_millis(20));
                                        }
                                        Err(e) => return Err(e),
                                    }
                                };
                                s.set_nodelay(true)?;
                                Ok(hyper_util::rt::TokioIo::new(CliIo { inner: s, id, sh: shc, pending: Vec::new() }))
                            }
                        })))
                        .await
                        .map_err(|_| ())
                } else {
                    Err(())
                };
                conn_tasks.push(None);
                held.push(None);
                let slot = if tcp {
                    Slot::Now(r.ok())
                } else {
                    let (cli, srv) = tokio::io::duplex(sc.buf);
                    if let Some(tx) = &inc_tx {
                        sh.lock().unwrap().conns[id].offered = true;
                        let _ = tx.send(Ok(SrvIo { inner: srv, id, sh: sh.clone() }));
                    } else {
                        drop(srv);
                    }
                    if sc.tls {
                        // the TLS handshake needs the server's answer: connect in the background
                        let (tx, rx) = tokio::sync::watch::channel(None);
                        conn_tasks[id] = Some(tokio::spawn(async move {
                            let ch = connect_duplex(cli, true).await;
                            let _ = tx.send(Some(ch));
                        }));
                        Slot::Later(rx)
                    } else {
                        Slot::Now(connect_duplex(cli, false).await)
                    }
                };
                silent.push(None);
                let resolved = sh.lock().unwrap().resolved.is_some();
                exp.conns.push(ExpConn {
                    accept: slot.is_live() && !resolved && !(graceful && exp.sig),
                    acc_at: exp.now,
                    aged: false,
                    dropped: false,
                });
                channels.push(slot);
            }
            Op::Burst(n, j) => {
                // all n connections are queued on `incoming` before anything else can run (no
                // await in this loop); only then are the clients connected, in order
                let mut clis = Vec::new();
                for i in 0..n {
                    let id = {
                        let mut g = sh.lock().unwrap();
                        g.conns.push(ConnRec::default());
                        g.conns.len() - 1
                    };
                    let (cli, srv) = tokio::io::duplex(sc.buf);
                    if let Some(tx) = &inc_tx {
                        if i + 1 == j {
                            triggers.lock().unwrap().push(id);
                        }
                        sh.lock().unwrap().conns[id].offered = true;
                        let _ = tx.send(Ok(SrvIo { inner: srv, id, sh: sh.clone() }));
                    } else {
                        drop(srv);
                    }
                    clis.push(cli);
                }
                for cli in clis {
                    conn_tasks.push(None);
                    held.push(None);
                    silent.push(None);
                    let slot = Slot::Now(connect_duplex(cli, false).await);
                    // (`exp` is only consulted by the TCP variant, which has no bursts)
                    exp.conns.push(ExpConn { accept: false, acc_at: exp.now, aged: false, dropped: false });
                    channels.push(slot);
                }
            }
            Op::ConnStalled | Op::ConnBad => {
                let id = {
                    let mut g = sh.lock().unwrap();
                    g.conns.push(ConnRec::default());
                    g.conns.len() - 1
                };
                let (mut cli, srv) = tokio::io::duplex(sc.buf);
                if let Some(tx) = &inc_tx {
                    sh.lock().unwrap().conns[id].offered = true;
                        let _ = tx.send(Ok(SrvIo { inner: srv, id, sh: sh.clone() }));
                } else {
                    drop(srv);
                }
                exp.conns.push(ExpConn { accept: false, acc_at: 0, aged: false, dropped: false });
                conn_tasks.push(None);
                held.push(None);
                if step.op == Op::ConnBad {
                    // 18 bytes: fits the smallest duplex buffer, so this cannot block
                    let _ = tokio::io::AsyncWriteExt::write_all(&mut cli, b"GET / HTTP/1.1\r\n\r\n").await;
                    held[id] = Some(cli);
                    silent.push(None);
                    channels.push(Slot::Now(None));
                } else {
                    let (tx, rx) = tokio::sync::watch::channel(None);
                    silent.push(Some((cli, tx)));
                    channels.push(Slot::Later(rx));
                }
            }
            Op::Hello(c) => {
                if let Some((cli, tx)) = silent[c].take() {
                    conn_tasks[c] = Some(tokio::spawn(async move {
                        let ch = connect_duplex(cli, true).await;
                        let _ = tx.send(Some(ch));
                    }));
                }
            }
            Op::Unary(c, s) | Op::Stream(c, _, s) | Op::CStream(c, _, s) | Op::Bidi(c, _, _, s) => {
                let (kind, n, m) = match step.op {
                    Op::Stream(_, n, _) => (Kind::SStream, n, 0),
                    Op::CStream(_, m, _) => (Kind::CStream, if s == 0 { 1 } else { 0 }, m),
                    Op::Bidi(_, m, n, _) => (Kind::Bidi, n, m),
                    _ => (Kind::Unary, if s == 0 { 1 } else { 0 }, 0),
                };
                // request side of client-streaming / bidi calls: fed by the `M` steps
                let rx = if kind == Kind::CStream || kind == Kind::Bidi {
                    let (tx, rx) = mpsc::unbounded_channel::<Vec<u8>>();
                    req_tx.push(if m > 0 { Some((tx, 0usize, m)) } else { None });
                    Some(rx)
                } else {
                    req_tx.push(None);
                    None
                };
                let k = {
                    let mut g = sh.lock().unwrap();
                    g.calls.push(CallRec {
                        n,
                        m,
                        status: s,
                        kind,
                        gate: Arc::new(Semaphore::new(0)),
                        started: false,
                        hdr: None,
                        msgs: 0,
                        bad: false,
                        fin: None,
                        done_at: None,
                    });
                    g.calls.len() - 1
                };
                exp.calls.push(ExpCall {
                    conn: c,
                    start: channels[c].is_live() && exp.conns[c].accept && !exp.conns[c].dropped && !exp.conn_graceful(c),
                    kind,
                    n,
                    phases: match kind {
                        Kind::Unary | Kind::CStream => 1,
                        Kind::SStream | Kind::Bidi => n + 2,
                    },
                    permits: 0,
                    req_left: m,
                    cancelled: false,
                    start_at: exp.now,
                    expired: false,
                });
                match &channels[c] {
                    Slot::Now(Some(ch)) => {
                        let h = tokio::spawn(client_call(sh.clone(), ch.clone(), k, rx));
                        call_tasks.push((c, h));
                    }
                    Slot::Now(None) => {
                        finish(&sh, k, "s14!".into());
                        call_tasks.push((c, tokio::spawn(async {})));
                    }
                    Slot::Later(chan) => {
                        // the call goes out as soon as the connection attempt has ended
                        let mut chan = chan.clone();
                        let shc = sh.clone();
                        let h = tokio::spawn(async move {
                            let ch = match chan.wait_for(|v| v.is_some()).await {
                                Ok(v) => v.clone().flatten(),
                                Err(_) => None,
                            };
                            match ch {
                                Some(ch) => client_call(shc, ch, k, rx).await,
                                None => finish(&shc, k, "s14!".into()),
                            }
                        });
                        call_tasks.push((c, h));
                    }
                }
            }
            Op::ReqMsg(k) => {
                send_req(&mut req_tx[k], k, sc.payload);
                exp.calls[k].req_left = exp.calls[k].req_left.saturating_sub(1);
            }
            Op::Adv(k) => {
                let gate = sh.lock().unwrap().calls[k].gate.clone();
                gate.add_permits(1);
                exp.calls[k].permits += 1;
            }
            Op::Sig => {
                fire_signal(&sig_tx);
                exp.sig = true;
            }
            Op::EndIncoming => {
                inc_tx = None;
            }
            Op::AcceptErr(recoverable) => {
                if let Some(tx) = &inc_tx {
                    let kind = if recoverable { std::io::ErrorKind::ConnectionReset } else { std::io::ErrorKind::Other };
                    let _ = tx.send(Err(std::io::Error::new(kind, "accept error")));
                }
            }
            Op::DropConn(c) => {
                for (k, (cc, h)) in call_tasks.iter().enumerate() {
                    if *cc == c {
                        h.abort();
                        // an abandoned call's request stream ends too (hyper owns it, not the
                        // aborted task): without this the stream - and the connection - stay up
                        req_tx[k] = None;
                    }
                }
                if let Some(h) = conn_tasks[c].take() {
                    h.abort();
                }
                channels[c] = Slot::Now(None);
                silent[c] = None;
                held[c] = None;
                exp.conns[c].dropped = true;
            }
            Op::Cancel(k) => {
                call_tasks[k].1.abort();
                req_tx[k] = None;
                exp.calls[k].cancelled = true;
            }
            Op::Wait(secs) => {
                tokio::time::sleep(Duration::from_secs(secs)).await;
                exp.wait_passes(secs);
            }
        }
        if tcp {
            tcp_sync(&sh, &mut exp).await;
        } else {
            after_step(step.yields).await;
        }
        if std::env::var_os("VERIF_C13_TRACE").is_some() {
            eprintln!("c13: step {} {:?} done at virtual {:?}", t, step.op, vstart.elapsed());
        }
        if step.yields.is_none() {
            t += 1;
        }
    }
    let nsteps = t;
    // drain: every client completes its request stream, every handler runs freely
    sh.lock().unwrap().step = nsteps;
    for (k, slot) in req_tx.iter_mut().enumerate() {
        while slot.is_some() {
            send_req(slot, k, sc.payload);
        }
        exp.calls[k].req_left = 0;
    }
    {
        let g = sh.lock().unwrap();
        for c in g.calls.iter() {
            c.gate.add_permits(1 << 20);
        }
    }
    for c in exp.calls.iter_mut() {
        c.permits += 1 << 20;
    }
    if tcp {
        tcp_sync(&sh, &mut exp).await;
    } else {
        settle().await;
    }
    // the sibling server: still there, still serving?
    let sib_tok = match sibling {
        Some(s) => Some(s.finish().await),
        None => None,
    };
    // a serve future that has resolved holds no connection any more - not even one it had taken from `incoming`
    // and was still doing the TLS handshake on (the clients are all still there at this point: a connection that is
    // gone now was closed by the server).  Seed C13g: handshake tasks that outlive the serve future.
    let held_after_resolve = {
        let g = sh.lock().unwrap();
        g.resolved.is_some() && g.conns.iter().any(|c| c.offered && !c.accepted && c.closed_at.is_none())
    };
    // every client goes away
    sh.lock().unwrap().step = nsteps + 1;
    for (_, h) in call_tasks.iter() {
        h.abort();
    }
    req_tx.clear();
    for h in conn_tasks.iter().flatten() {
        h.abort();
    }
    channels.clear();
    silent.clear();
    held.clear();
    for c in exp.conns.iter_mut() {
        c.dropped = true;
    }
    if tcp {
        tcp_sync(&sh, &mut exp).await;
    } else {
        settle().await;
    }
    sh.lock().unwrap().step = nsteps + 2;
    serve_task.abort();
    drop(inc_tx);
    drop(sig_tx.lock().unwrap().take());
    drop(_keep_tx);
    settle().await;

    let g = sh.lock().unwrap();
    let idx = |o: Option<usize>| o.map(|v| v.to_string()).unwrap_or_else(|| "-".into());
    let mut out = Vec::new();
    match g.resolved {
        Some((st, open, ok)) if st <= nsteps + 1 => {
            // without a shutdown signal nothing is claimed about connections still open at that
            // instant (and the count depends on scheduling): not reported; over TCP the count is
            // not observable
            let open = if graceful && !tcp { open.to_string() } else { "*".to_string() };
            out.push(format!("R{}:{}:{}", st, open, if ok { "ok" } else { "err" }))
        }
        _ => out.push("R-:-:-".into()),
    }
    for (i, c) in g.conns.iter().enumerate() {
        let closed = c.closed_at.filter(|s| c.accepted && *s <= nsteps + 1);
        out.push(format!("c{}:{}:{}", i, c.accepted as u8, idx(closed)));
    }
    for (j, c) in g.calls.iter().enumerate() {
        let hdr = match c.hdr {
            None => "0",
            Some(true) => "1",
            Some(false) => "bad",
        };
        let msgs = if c.bad { "bad".to_string() } else { c.msgs.to_string() };
        let done = c.done_at.filter(|s| *s <= nsteps + 1);
        let fin = if done.is_some() { c.fin.clone().unwrap_or_else(|| "-".into()) } else { "-".into() };
        if !c.started && c.hdr.is_none() && c.msgs == 0 && !c.bad {
            // the server never saw the call: whatever local error (or nothing) the client got
            out.push(format!("k{}:0:0:0:ns:-", j));
        } else {
            out.push(format!("k{}:{}:{}:{}:{}:{}", j, c.started as u8, hdr, msgs, fin, idx(done)));
        }
    }
    if let Some(t) = sib_tok {
        out.push(t);
    }
    if repolled.load(std::sync::atomic::Ordering::SeqCst) {
        out.push("repoll".into());
    }
    if held_after_resolve {
        out.push("held".into());
    }
    out.join(" ")
}

pub fn execute(case: &str) -> String {
    if case.starts_with("qlim ") {
        let t: Vec<&str> = case.split(' ').collect();
        return q::execute_qlim(&t);
    }
    let sc = match parse(case) {
        Some(s) => s,
        None => return "bad-case".into(),
    };
    let rt = paused_rt();
    rt.block_on(async move {
        match tokio::time::timeout(Duration::from_secs(1_000_000_000), run(sc)).await {
            Ok(s) => s,
            Err(_) => "hang".into(),
        }
    })
}

// ---------------------------------------------------------------- generators

const BUFS: [usize; 9] = [24, 25, 32, 33, 64, 100, 1024, 16384, 65536];
// payload sizes: around the gRPC prefix, the default h2 frame size (16384) and the default
// flow-control window (65535)
const PAYLOADS_SMALL: [usize; 6] = [0, 1, 10, 11, 300, 1000];
const PAYLOADS_BIG: [usize; 8] = [16379, 16380, 16384, 20000, 65530, 65535, 65536, 70000];
const CODES: [i32; 4] = [0, 0, 5, 13];

#[derive(Clone)]
struct GCall {
    /// handler phases needed / released so far
    phases: usize,
    released: usize,
    /// request messages the client has to send / has sent (client-streaming and bidi)
    req: usize,
    req_sent: usize,
}

#[derive(Clone)]
struct Gen {
    ops: Vec<String>,
    nconn: usize,
    calls: Vec<GCall>,
}

impl Gen {
    fn new() -> Self {
        Gen { ops: Vec::new(), nconn: 0, calls: Vec::new() }
    }
    fn conn(&mut self) -> usize {
        self.ops.push("C".into());
        self.nconn += 1;
        self.nconn - 1
    }
    fn push_call(&mut self, phases: usize, req: usize) -> usize {
        self.calls.push(GCall { phases, released: 0, req, req_sent: 0 });
        self.calls.len() - 1
    }
    fn unary(&mut self, c: usize, s: i32) -> usize {
        self.ops.push(format!("U{}:{}", c, s));
        self.push_call(1, 0)
    }
    fn stream(&mut self, c: usize, n: usize, s: i32) -> usize {
        self.ops.push(format!("S{}:{}:{}", c, n, s));
        self.push_call(n + 2, 0)
    }
    fn cstream(&mut self, c: usize, m: usize, s: i32) -> usize {
        self.ops.push(format!("Q{}:{}:{}", c, m, s));
        self.push_call(1, m)
    }
    fn bidi(&mut self, c: usize, m: usize, n: usize, s: i32) -> usize {
        self.ops.push(format!("B{}:{}:{}:{}", c, m, n, s));
        self.push_call(n + 2, m)
    }
    fn adv(&mut self, k: usize) {
        self.ops.push(format!("A{}", k));
        self.calls[k].released += 1;
    }
    fn reqmsg(&mut self, k: usize) {
        self.ops.push(format!("M{}", k));
        self.calls[k].req_sent += 1;
    }
    /// a call of a random shape on connection c
    fn any_call(&mut self, rng: &mut Rng, c: usize) -> usize {
        let s = *rng.pick(&CODES);
        let n = *rng.pick(&[0usize, 1, 2, 2, 3]);
        let m = *rng.pick(&[0usize, 1, 1, 2, 3]);
        match rng.below(6) {
            0 | 1 => self.unary(c, s),
            2 | 3 => self.stream(c, n, s),
            4 => self.cstream(c, m, s),
            _ => self.bidi(c, m, n.min(2), s),
        }
    }
    /// one more step of call k: a handler phase or a request message, whichever is still owed
    fn advance(&mut self, rng: &mut Rng, k: usize) {
        let c = &self.calls[k];
        let (can_a, can_m) = (c.released < c.phases, c.req_sent < c.req);
        if can_m && (!can_a || rng.chance(1, 2)) {
            self.reqmsg(k);
        } else if can_a {
            self.adv(k);
        }
    }
    fn unfinished(&self) -> Vec<usize> {
        (0..self.calls.len())
            .filter(|k| self.calls[*k].released < self.calls[*k].phases || self.calls[*k].req_sent < self.calls[*k].req)
            .collect()
    }
}

/// `class` only labels the generator stream in the evidence; it is not interpreted
fn header(class: &str, mode: &str, buf: usize, payload: usize, age: bool) -> String {
    format!("sc:{} {} b{} p{} a{}", class, mode, buf, payload, age as u8)
}

fn pick_sizes(rng: &mut Rng, ncalls: usize) -> (usize, usize) {
    let buf = *rng.pick(&BUFS);
    let payload = if ncalls <= 3 && rng.chance(1, 5) { *rng.pick(&PAYLOADS_BIG) } else { *rng.pick(&PAYLOADS_SMALL) };
    (buf, payload)
}

/// A random base scenario without any shutdown trigger: connections, calls, handler phases, in a
/// random interleaving; every op is one token.
fn base_scenario(rng: &mut Rng, max_conn: usize, max_calls: usize, finish: bool) -> Gen {
    let mut g = Gen::new();
    let nconn = rng.range(1, max_conn as u64) as usize;
    let ncalls = rng.range(1, max_calls as u64) as usize;
    g.conn();
    let mut issued = 0;
    let mut guard = 0;
    while guard < 200 {
        guard += 1;
        let unf = g.unfinished();
        let can_conn = g.nconn < nconn;
        let can_call = issued < ncalls;
        if !can_conn && !can_call && (unf.is_empty() || !finish && rng.chance(1, 4)) {
            break;
        }
        match rng.below(4) {
            0 if can_conn => {
                g.conn();
            }
            1 if can_call => {
                let c = rng.below(g.nconn as u64) as usize;
                g.any_call(rng, c);
                issued += 1;
            }
            _ => {
                if !unf.is_empty() {
                    let k = *rng.pick(&unf);
                    g.advance(rng, k);
                }
            }
        }
    }
    g
}

/// insert `tok` (possibly several tokens) at position `at`
fn insert_at(ops: &[String], at: usize, toks: &[String]) -> Vec<String> {
    let mut v = ops[..at].to_vec();
    v.extend_from_slice(toks);
    v.extend_from_slice(&ops[at..]);
    v
}

fn late_probe(nconn: usize) -> Vec<String> {
    // a connection offered after the signal, and a call on it
    vec!["C".into(), format!("U{}:0", nconn)]
}

/// mark some steps as non-quiescent (`~k`), never ones that need a quiescent state
fn add_races(ops: &[String], rng: &mut Rng, density: u64) -> Vec<String> {
    let needs_quiet = |t: &String| t.starts_with('D') || t.starts_with('X') || t.starts_with('W') || t == "T";
    let mut out = Vec::new();
    for (i, t) in ops.iter().enumerate() {
        let next_quiet = ops.get(i + 1).map(needs_quiet).unwrap_or(false);
        if !needs_quiet(t) && !next_quiet && rng.chance(density, 10) {
            let k = *rng.pick(&[0u64, 0, 0, 1, 1, 2, 5]);
            out.push(format!("{}~{}", t, k));
        } else {
            out.push(t.clone());
        }
    }
    out
}

fn corpus() -> Vec<String> {
    let mut out = Vec::new();
    // witnesses of the accept-after-signal race in the unrepaired accept loop (each is decided by
    // one coin of `select!`, hence the repetition over sizes)
    for b in BUFS {
        for k in [0, 0, 0] {
            out.push(format!("sc:corpus g b{} p10 a0 G~{} C", b, k));
            out.push(format!("sc:corpus g b{} p10 a0 C U0:0 G~{} C U1:0 A0", b, k));
            out.push(format!("sc:corpus g b{} p10 a0 G~0 C~0 C~0 C", b));
        }
    }
    // bursts: n connections ready at once, the signal wired to the hand-over of the j-th (the
    // accept itself fires it): 1..j are served, j+1..n are never taken
    for n in 1..=4usize {
        for j in 1..=n {
            out.push(format!("sc:corpus g b1024 p10 a0 K{}:{}", n, j));
        }
    }
    for s in [
        "sc:corpus g b1024 p10 a0 K3",
        "sc:corpus g b1024 p10 a0 K3 G",
        "sc:corpus g b1024 p10 a0 G~0 K3",
        "sc:corpus g b1024 p10 a0 K3~0 G",
        "sc:corpus g b1024 p10 a0 K3~0 E",
        "sc:corpus g b1024 p10 a0 E~0 K3",
        "sc:corpus g b1024 p10 a0 K3:2~0 E",
        "sc:corpus g b1024 p10 a0 K3:2 E",
        "sc:corpus g b1024 p10 a0 K3:1~0 G",
        "sc:corpus g b1024 p10 a0 K2:1~0 C",
        "sc:corpus g b1024 p10 a0 C~0 K2:1",
        "sc:corpus g b24 p300 a0 C U0:0 K4:2 A0 C U5:0",
        "sc:corpus g b1024 p10 a0 C S0:2:0 A0 K3:3 U1:0 U3:5 A0 A0 A0",
        "sc:corpus g b1024 p10 a0 K2 U0:0 U1:5 K3:1 A0 A1 U2:0",
        "sc:corpus g b1024 p10 a1 K2 T K2:1",
        "sc:corpus g b1024 p10 a0 t30 K2 U0:0 U1:0 K2:2 W31 A0",
        "sc:corpus n b1024 p10 a0 K3 U2:0 E A0",
        "sc:corpus n b1024 p10 a0 K4~0 E",
    ] {
        out.push(s.to_string());
    }
    for s in [
        "sc:corpus g b1024 p10 a0 C U0:0 G A0",
        "sc:corpus g b1024 p10 a0 C U0:0 A0 G",
        "sc:corpus g b1024 p10 a0 C G U0:0",
        "sc:corpus g b1024 p10 a0 C S0:2:0 A0 G A0 A0 A0",
        "sc:corpus g b1024 p10 a0 C S0:2:5 A0 A0 G A0 A0 C U1:0",
        "sc:corpus g b1024 p10 a0 C S0:2:0 A0 G C U1:0 A0 A0 A0",
        "sc:corpus g b1024 p10 a0 C C U0:0 U1:0 G A0 A1",
        "sc:corpus g b1024 p10 a0 C U0:0 E A0",
        "sc:corpus n b1024 p10 a0 C U0:0 E A0",
        "sc:corpus g b1024 p10 a0 C U0:0",
        "sc:corpus g b1024 p10 a0 C U0:0 D0 G",
        "sc:corpus g b1024 p10 a1 C U0:0 T C U0:0 U1:0 A0",
        // client-streaming and bidi calls in flight at the signal; the request body still being sent
        "sc:corpus g b1024 p10 a0 C Q0:2:0 M0 G M0 A0",
        "sc:corpus g b1024 p10 a0 C Q0:2:0 G M0 M0 A0",
        "sc:corpus g b1024 p10 a0 C Q0:2:5 M0 M0 G A0",
        "sc:corpus g b1024 p10 a0 C Q0:0:0 G A0",
        "sc:corpus g b1024 p10 a0 C Q0:1:0 A0 G M0",
        "sc:corpus g b1024 p10 a0 C Q0:3:0 M0 G",
        "sc:corpus g b1024 p10 a0 C B0:2:2:0 A0 M0 A0 G M0 A0 A0",
        "sc:corpus g b1024 p10 a0 C B0:1:1:13 G A0 A0 A0 M0",
        "sc:corpus g b1024 p10 a0 C B0:2:0:0 A0 A0 G M0 M0",
        "sc:corpus g b1024 p10 a0 C B0:0:3:0 A0 A0 G A0 A0 A0",
        "sc:corpus g b32 p70000 a0 C Q0:2:0 M0~0 G M0 A0",
        "sc:corpus g b32 p70000 a0 C B0:2:1:0 M0~0 M0~0 G A0 A0 A0",
        "sc:corpus g b64 p65536 a0 C U0:0~2 G A0",
        "sc:corpus g b1024 p10 a0 C Q0:2:0 M0 X0 G",
        "sc:corpus g b1024 p10 a0 C B0:2:1:0 A0 M0 D0 G",
        "sc:corpus n b1024 p10 a0 C Q0:1:0 B0:1:1:0 M0 A1 E M1 A0 A1 A1",
        // several calls on one connection, each in a different phase when the signal fires
        "sc:corpus g b1024 p10 a0 C U0:0 S0:2:0 Q0:2:0 B0:1:1:0 A1 A1 M2 A3 G A0 A1 M2 A2 M3 A3 A1 A3",
        "sc:corpus g b100 p300 a0 C S0:3:5 B0:2:2:0 Q0:1:13 U0:5 A0 A0 A1 M1 G M2 A2 A3 A0 A0 A0 M1 A1 A1 A1",
        // the TCP entry points (serve_with_shutdown(addr, signal), serve(addr), TcpIncoming)
        "sc:corpus t b0 p10 a0 C U0:0 G A0",
        "sc:corpus t b0 p10 a0 C U0:0 A0 G",
        "sc:corpus t b0 p10 a0 C S0:2:0 A0 G C U1:0 A0 A0 A0",
        "sc:corpus t b0 p10 a0 C S0:2:5 A0 A0 G A0 A0",
        "sc:corpus t b0 p10 a0 C C U0:0 U1:0 G A0 A1",
        "sc:corpus t b0 p10 a0 C G U0:0",
        "sc:corpus t b0 p10 a0 G C U0:0",
        "sc:corpus t b0 p10 a0 G",
        "sc:corpus t b0 p10 a0 C U0:0",
        "sc:corpus t b0 p70000 a0 C B0:2:1:0 M0 G A0 A0 M0 A0",
        "sc:corpus t b0 p65536 a0 C Q0:2:0 M0 G M0 A0",
        "sc:corpus t b0 p10 a0 C U0:0 G W61 A0",
        "sc:corpus t b0 p10 a1 C U0:0 T C U0:0 U1:0 A0",
        "sc:corpus t b0 p10 a0 C C U0:0 Q1:2:0 M1 G D0 M1 A1 W61",
        "sc:corpus t b0 p10 a0 C U0:0 S0:1:0 A1 G X0 A1 A1",
        "sc:corpus u b0 p10 a0 C U0:0 G A0",
        "sc:corpus u b0 p10 a0 C S0:1:0 A0 W7200 A0 A0 C U1:5 A1",
        // the TLS accept path (ServerIoStream's handshake JoinSet)
        "sc:corpus gs b1024 p10 a0 C U0:0 G A0",
        "sc:corpus gs b1024 p10 a0 H G h0 U0:0",
        "sc:corpus gs b1024 p10 a0 H h0 U0:0 G A0",
        "sc:corpus gs b1024 p10 a0 Hb C U1:0 A0 G",
        "sc:corpus gs b1024 p10 a0 Hb Hb C Hb C U2:0 U4:5 A0 A1 G",
        "sc:corpus gs b1024 p10 a0 C S0:2:0 A0 H G h1 U1:0 A0 A0 A0",
        "sc:corpus gs b1024 p10 a0 G C U0:0",
        "sc:corpus gs b1024 p10 a0 H E h0 U0:0",
        "sc:corpus gs b1024 p10 a0 H C U1:0 D0 A0 G",
        "sc:corpus gs b24 p300 a0 C H Hb U0:0 Q0:2:0 M1 G h1 A0 M1 A1 U1:0",
        "sc:corpus gs b1024 p10 a0 C U0:0 H G W61 A0",
        "sc:corpus gs b1024 p10 a1 C H U0:0 T h1 U1:0 A0 A1 G",
        // time passes (task: anything clock-dependent after the signal must get its chance)
        "sc:corpus g b1024 p10 a0 C U0:0 G W61 A0",
        "sc:corpus g b1024 p10 a0 C S0:2:0 A0 G T A0 A0 A0",
        "sc:corpus g b1024 p10 a1 C U0:0 G W61 A0",
        "sc:corpus g b1024 p10 a1 C W3599 U0:0 W1 C U0:0 U1:0 A0",
        "sc:corpus g b1024 p10 a1 C W3599 C W1 U0:0 U1:0 A0 W3599 U1:0",
        "sc:corpus g b1024 p10 a0 W7200 C U0:0 W61 G W61 A0 W61",
        "sc:corpus n b1024 p10 a0 C U0:0 W7200 A0 E W61",
        // Server::timeout (t<secs>), with http2 / tcp keepalive (k<secs>) and a concurrency / stream
        // limit (l<n>): the timeout bounds the time to the response head only.  A streaming body
        // that goes on for longer than the timeout after the signal is not cut …
        "sc:corpus g b1024 p10 a0 t30 C S0:2:0 A0 G W31 A0 A0 A0",
        "sc:corpus g b1024 p10 a0 t30 C S0:2:0 A0 A0 G W61 A0 W31 A0",
        "sc:corpus g b1024 p10 a0 t30 C B0:2:1:0 A0 M0 G W31 A0 M0 A0 A0",
        "sc:corpus g b1024 p10 a0 t30 k10 l8 C B0:2:1:0 A0 M0 G W31 A0 M0 A0 W3600 A0",
        "sc:corpus g b1024 p10 a1 t30 C S0:1:0 A0 T G W31 A0 A0",
        "sc:corpus g b1024 p10 a0 t30 C S0:2:5 A0 W31 A0 G W31 A0 A0 C U1:0",
        "sc:corpus g b32 p70000 a0 t30 C S0:2:0 A0 A0 G W31 A0 A0",
        "sc:corpus g b1024 p10 a0 t30 C C S0:1:0 S1:1:0 A0 A1 G W29 A0 W1 A1 W31 A0 A1",
        "sc:corpus n b1024 p10 a0 t30 C S0:2:0 A0 W31 A0 E W31 A0 A0",
        "sc:corpus t b0 p10 a0 t45 C S0:2:0 A0 G W61 A0 A0 A0",
        "sc:corpus t b0 p10 a0 t45 k10 l8 C B0:2:1:0 A0 M0 G W61 A0 M0 A0 W3600 A0",
        "sc:corpus gs b1024 p10 a0 t30 C S0:2:0 A0 G W31 A0 A0 A0",
        "sc:corpus gs b1024 p10 a0 t30 k10 C H S0:1:0 A0 G W31 h1 A0 A0",
        // … while a call that is still before its response head when the timeout runs out is
        // answered CANCELLED "Timeout expired" by the server (before, at and after the signal)
        "sc:corpus g b1024 p10 a0 t30 C S0:2:0 G W31 A0 A0 A0 A0",
        "sc:corpus g b1024 p10 a0 t30 C U0:0 W29 A0",
        "sc:corpus g b1024 p10 a0 t30 C U0:0 W29 W1 A0",
        "sc:corpus g b1024 p10 a0 t30 C U0:0 W31 A0 G",
        "sc:corpus g b1024 p10 a0 t30 C U0:5 G W31 A0",
        "sc:corpus g b1024 p10 a0 t30 C Q0:2:0 M0 A0 W31 M0 G",
        "sc:corpus g b1024 p10 a0 t30 C Q0:2:0 M0 A0 G W31 M0",
        "sc:corpus g b1024 p10 a0 t30 C B0:2:1:0 M0 G W31 A0 M0 A0 A0",
        "sc:corpus g b1024 p10 a0 t30 C U0:0 S0:1:0 A1 G W31 A0 A1 A1",
        "sc:corpus g b1024 p10 a0 t3000 C U0:0 S0:1:0 A1 G W31 A0 T A1 A1",
        "sc:corpus g b1024 p10 a0 t100000 k60 l64 C U0:0 S0:1:0 A1 G W7200 A0 A1 A1",
        "sc:corpus t b0 p10 a0 t45 C U0:0 W61 A0 G",
        "sc:corpus t b0 p10 a0 t45 C Q0:2:0 M0 A0 G W61 M0",
        "sc:corpus u b0 p10 a0 t45 C S0:1:0 U0:0 A0 W61 A0 A0 A1",
        "sc:corpus gs b1024 p10 a0 t30 C U0:0 W31 A0 G",
        "sc:corpus gs b1024 p10 a0 t30 H U0:0 W31 h0 A0 G",
        "sc:corpus g b1024 p10 a0 t30 C U0:0~0 G W31 A0",
        "sc:corpus g b1024 p10 a0 t30 C U0:0 W31 X0 G",
        "sc:corpus g b1024 p10 a0 t30 C S0:1:0 A0 W31 D0 G",
        "sc:corpus g b1024 p10 a0 k10 C U0:0 W7200 A0 G W61",
        "sc:corpus g b1024 p10 a0 l8 C U0:0 S0:1:0 Q0:1:0 B0:1:1:0 G A0 A1 M2 A2 M3 A3 A1 A3 A1 A3",
        "sc:corpus g b1024 p10 a0 Io C Ir U0:0 G",
        // audit aC13: a sibling server built from the same builder value (z1: sibling first, z2:
        // sibling second, z3: sibling built before the builder got the case's settings); the other
        // builder knobs on the path of a call (x: 1 accept_http1, 2 trace_fn, 4 layer)
        "sc:corpus g b1024 p10 a0 z1 C U0:0 G A0",
        "sc:corpus g b1024 p10 a0 z2 C S0:2:0 A0 G A0 A0 A0",
        "sc:corpus g b1024 p10 a1 t30 z3 C U0:0 T G A0",
        "sc:corpus g b1024 p10 a0 z1 G",
        "sc:corpus g b1024 p10 a0 z2 C G",
        "sc:corpus g b1024 p10 a0 z1 K3:2 U0:0 A0",
        "sc:corpus g b1024 p10 a1 t30 k10 l8 x7 z1 C S0:2:0 A0 G T A0 A0 A0",
        "sc:corpus n b1024 p10 a0 z1 C U0:0 E A0",
        "sc:corpus gs b1024 p10 a0 x7 z1 H C U1:0 G h0 A0",
        "sc:corpus gs b1024 p10 a0 z3 C U0:0 G A0",
        "sc:corpus t b0 p10 a0 x7 z2 C U0:0 G A0",
        "sc:corpus u b0 p10 a0 x3 z1 C U0:0 A0",
        "sc:corpus g b24 p70000 a0 x5 z1 C U0:0 G A0",
        "sc:corpus g b1024 p10 a0 x1 C U0:0 G A0",
        "sc:corpus g b1024 p10 a0 x1 C~0 G",
        "sc:corpus g b1024 p10 a0 x1 C~1 G U0:0",
        "sc:corpus g b1024 p10 a0 x2 C U0:0 S0:1:5 Q0:1:0 B0:1:1:0 G A0 A1 M2 A2 M3 A3 A1 A3 A1 A3",
        "sc:corpus g b1024 p10 a0 t30 x4 C U0:0 S0:1:0 A1 G W31 A0 A1 A1",
        "sc:corpus g b1024 p10 a0 t30 x6 C Q0:2:0 M0 A0 G W31 M0",
        "sc:corpus g b32 p70000 a0 x7 C B0:2:1:0 M0~0 M0~0 G A0 A0 A0",
        "sc:corpus gs b1024 p10 a0 t30 x4 C U0:0 W31 A0 G",
        "sc:corpus t b0 p10 a0 t45 x4 C U0:0 W61 A0 G",
        "sc:corpus g b1024 p10 a0 C S0:2:0 A0 X0 G",
        "sc:corpus g b32 p70000 a0 C S0:2:0 U0:0 A0 A0 G A1 A0 A0",
        "sc:corpus g b1024 p10 a0 C U0:0~0 G A0",
        "sc:corpus g b1024 p10 a0 C~0 U0:0~0 G A0",
        "sc:corpus g b1024 p10 a0 C G~0 U0:0 A0",
        "sc:corpus g b24 p10 a0 C U0:0~0 G A0",
        "sc:corpus g b1024 p10 a0 G",
        "sc:corpus g b1024 p10 a0 E",
        "sc:corpus n b1024 p10 a0 E",
        "sc:corpus g b1024 p10 a0 G E G E C",
        "sc:corpus g b1024 p10 a0",
    ] {
        out.push(s.to_string());
    }
    out
}

/// amounts of virtual time for the `W` step: below / above any plausible drain or idle timeout,
/// and around max_connection_age (3600 s)
const WAITS: [u64; 10] = [1, 29, 31, 61, 61, 600, 3599, 3600, 3601, 7200];

fn wait_tok(rng: &mut Rng) -> String {
    format!("W{}", rng.pick(&WAITS))
}

/// over TCP the virtual clock also ticks (1 ms at a time) while the script waits for the kernel,
/// so amounts a second short of max_connection_age are left to the duplex variant
fn tcp_wait_tok(rng: &mut Rng) -> String {
    loop {
        let w = *rng.pick(&WAITS);
        if w != 3599 {
            return format!("W{}", w);
        }
    }
}

/// "time passes" at up to `max` random places of a scenario (anywhere: before the first
/// connection, between the phases of calls in flight, after the signal, at the very end)
fn sprinkle_time(ops: &[String], rng: &mut Rng, max: u64, tcp: bool) -> Vec<String> {
    let mut v = ops.to_vec();
    for _ in 0..rng.range(1, max) {
        let at = rng.range(0, v.len() as u64) as usize;
        let t = if tcp { tcp_wait_tok(rng) } else { wait_tok(rng) };
        v = insert_at(&v, at, &[t]);
    }
    v
}

/// "time passes" somewhere after the (first) trigger `trig`: between the shutdown request and the
/// completion of the calls that are in flight
fn time_after(ops: &[String], rng: &mut Rng, trig: &str, tcp: bool) -> Vec<String> {
    let from = ops.iter().position(|t| t == trig).map(|i| i + 1).unwrap_or(0);
    let at = rng.range(from as u64, ops.len() as u64) as usize;
    let t = if tcp { tcp_wait_tok(rng) } else { wait_tok(rng) };
    insert_at(ops, at, &[t])
}

/// the signal at every phase boundary of every call: all insertion points of `G` (and `E`, and a
/// time step) into a scenario whose handler phases are spelled out one per step
fn placements(out: &mut Vec<String>, rng: &mut Rng, g: &Gen, mode: &str, trig: &str, age: bool, probe: bool, races: u64) {
    let (buf, payload) = pick_sizes(rng, g.calls.len());
    let timed = !trig.starts_with('W') && trig != "T" && rng.chance(1, 2);
    for at in 0..=g.ops.len() {
        let mut ops = insert_at(&g.ops, at, &[trig.to_string()]);
        if probe {
            // the late connection goes in somewhere after the trigger
            // (after the last base connection, so that connection indices stay as they are)
            let last_c = ops.iter().rposition(|t| t == "C" || t == "H" || t == "Hb").map(|i| i + 1).unwrap_or(0);
            let lo = (at + 1).max(last_c);
            let pos = rng.range(lo as u64, ops.len() as u64) as usize;
            ops = insert_at(&ops, pos, &late_probe(g.nconn));
        }
        if timed {
            ops = sprinkle_time(&ops, rng, 2, mode == "t");
            if rng.chance(1, 2) {
                ops = time_after(&ops, rng, trig, mode == "t");
            }
        }
        if races > 0 {
            ops = add_races(&ops, rng, races);
        }
        let tname = if trig.starts_with('W') { "W" } else { trig };
        let class = format!("{}place{}{}{}{}", if mode == "t" { "tcp-" } else if mode == "gs" { "tls-" } else { "" }, tname, if mode == "n" { "-nosignal" } else { "" }, if races > 0 { "-race" } else { "" }, if timed { "-timed" } else { "" });
        let buf = if mode == "t" { 0 } else { buf };
        out.push(format!("{} {}", header(&class, mode, buf, payload, age), ops.join(" ")));
    }
}

/// several calls on ONE connection, of all four shapes, each advanced to a different phase
/// (not started / headers sent / mid-stream / request half sent / answered), then the trigger,
/// then everything finishes in a random order
fn phases_scenario(rng: &mut Rng, ncalls: usize) -> (Gen, usize) {
    let mut g = Gen::new();
    let c = g.conn();
    for i in 0..ncalls {
        // make sure every shape occurs when there is room for it
        let s = *rng.pick(&CODES);
        match if ncalls >= 4 { i % 4 } else { rng.below(4) as usize } {
            0 => g.unary(c, s),
            1 => g.stream(c, *rng.pick(&[1usize, 2, 3]), s),
            2 => g.cstream(c, *rng.pick(&[1usize, 2, 3]), s),
            _ => g.bidi(c, *rng.pick(&[1usize, 2]), *rng.pick(&[1usize, 2]), s),
        };
    }
    // each call gets a random amount of progress
    for k in 0..ncalls {
        let total = g.calls[k].phases + g.calls[k].req;
        for _ in 0..rng.below(total as u64 + 1) {
            g.advance(rng, k);
        }
    }
    let at = g.ops.len();
    // … and the rest after the trigger, interleaved
    let mut guard = 0;
    while guard < 200 {
        guard += 1;
        let unf = g.unfinished();
        if unf.is_empty() {
            break;
        }
        let k = *rng.pick(&unf);
        g.advance(rng, k);
    }
    (g, at)
}

fn phases(out: &mut Vec<String>, rng: &mut Rng, n: usize) {
    for i in 0..n {
        let ncalls = rng.range(2, 5) as usize;
        let (g, at) = phases_scenario(rng, ncalls);
        let (buf, payload) = pick_sizes(rng, ncalls);
        let trig = if i % 5 == 4 { "E" } else { "G" };
        let mut ops = insert_at(&g.ops, at, &[trig.to_string()]);
        if rng.chance(1, 2) {
            ops = sprinkle_time(&ops, rng, 2, false);
            if rng.chance(1, 2) {
                ops = time_after(&ops, rng, trig, false);
            }
        }
        let racy = rng.chance(1, 4);
        if racy {
            ops = add_races(&ops, rng, 2);
        }
        let class = format!("phases{}{}", trig, if racy { "-race" } else { "" });
        out.push(format!("{} {}", header(&class, "g", buf, payload, false), ops.join(" ")));
    }
}

/// the TLS accept path (mode gs): ordinary TLS clients, clients whose handshake is still in
/// progress when the trigger comes (`H` … `h<c>`), clients whose handshake fails (`Hb`); the
/// trigger (signal, or end of incoming) at every position
fn tls_scenarios(out: &mut Vec<String>, rng: &mut Rng, n: usize) {
    for i in 0..n {
        let finish = rng.chance(3, 4);
        let mut g = base_scenario(rng, 3, 3, finish);
        // some connections get a silent or a non-TLS client
        let mut c = 0usize;
        let mut ops: Vec<String> = Vec::new();
        let mut hellos: Vec<(usize, usize)> = Vec::new(); // (position of H, connection)
        for t in g.ops.iter() {
            if t == "C" {
                match rng.below(8) {
                    0 | 1 if c > 0 || rng.chance(1, 2) => {
                        hellos.push((ops.len(), c));
                        ops.push("H".into());
                    }
                    2 => ops.push("Hb".into()),
                    _ => ops.push("C".into()),
                }
                c += 1;
            } else {
                ops.push(t.clone());
            }
        }
        // most silent clients speak up later, somewhere
        for (pos, c) in hellos.iter().rev() {
            if rng.chance(3, 4) {
                let at = rng.range(*pos as u64 + 1, ops.len() as u64) as usize;
                ops = insert_at(&ops, at, &[format!("h{}", c)]);
            }
        }
        g.ops = ops;
        let trig = if i % 4 == 3 { "E" } else { "G" };
        placements(out, rng, &g, "gs", trig, false, true, 0);
    }
}

/// the TCP entry points: `Router::serve_with_shutdown(addr, signal)` (mode t) and
/// `Router::serve(addr)` (mode u) over loopback TCP - the signal at every phase boundary of small
/// scenarios, a late connection, time passing, clients leaving
fn tcp_scenarios(out: &mut Vec<String>, rng: &mut Rng, n: usize) {
    for i in 0..n {
        let finish = rng.chance(3, 4);
        let g = base_scenario(rng, 2, 3, finish);
        match i % 6 {
            0 | 1 | 2 => placements(out, rng, &g, "t", "G", false, true, 0),
            3 => {
                // the signal somewhere, time passing at every position
                let mut g2 = g.clone();
                let at = rng.range(0, g2.ops.len() as u64) as usize;
                g2.ops = insert_at(&g2.ops, at, &["G".to_string()]);
                let w = tcp_wait_tok(rng);
                let age = rng.chance(1, 3);
                placements(out, rng, &g2, "t", &w, age, false, 0)
            }
            4 => placements(out, rng, &g, "t", "T", true, false, 0),
            _ => {
                // clients that leave or cancel, repeated signals, no signal at all
                for _ in 0..6 {
                    let mode = if rng.chance(1, 6) { "u" } else { "t" };
                    let age = rng.chance(1, 4);
                    let mut ops = g.ops.clone();
                    for _ in 0..rng.range(1, 4) {
                        let at = rng.range(0, ops.len() as u64) as usize;
                        let nc = ops[..at].iter().filter(|t| t.as_str() == "C").count();
                        let nk = ops[..at].iter().filter(|t| ["U", "S", "Q", "B"].iter().any(|p| t.starts_with(p))).count();
                        let tok: Option<String> = match rng.below(8) {
                            0 | 1 | 2 => Some("G".into()),
                            3 if nc > 0 => Some(format!("D{}", rng.below(nc as u64))),
                            4 if nk > 0 => Some(format!("X{}", rng.below(nk as u64))),
                            5 => Some(if rng.chance(1, 3) { "T".into() } else { tcp_wait_tok(rng) }),
                            6 if nk > 0 => Some(format!("A{}", rng.below(nk as u64))),
                            7 if nk > 0 => Some(format!("M{}", rng.below(nk as u64))),
                            _ => None,
                        };
                        if let Some(t) = tok {
                            ops = insert_at(&ops, at, &[t]);
                        }
                    }
                    if rng.chance(1, 3) {
                        let nc = ops.iter().filter(|t| t.as_str() == "C").count();
                        ops.extend(late_probe(nc));
                    }
                    let (_, payload) = pick_sizes(rng, g.calls.len());
                    let class = format!("tcp-disturbed{}", if mode == "u" { "-nosignal" } else { "" });
                    out.push(format!("{} {}", header(&class, mode, 0, payload, age), ops.join(" ")));
                }
            }
        }
    }
}

fn structured(out: &mut Vec<String>, rng: &mut Rng, n: usize, max_conn: usize, max_calls: usize) {
    for i in 0..n {
        let finish = rng.chance(3, 4);
        let g = base_scenario(rng, max_conn, max_calls, finish);
        match i % 12 {
            // max_connection_age elapsing at every phase boundary (then the signal at the end)
            8 => placements(out, rng, &g, "g", "T", true, false, 0),
            9 => {
                let mut g2 = g.clone();
                g2.ops.push("G".into());
                placements(out, rng, &g2, "g", "T", true, false, 0)
            }
            // time passing at every phase boundary of a scenario that has the signal (or the end
            // of incoming) somewhere in it; max_connection_age configured or not
            10 | 11 => {
                let mut g2 = g.clone();
                let at = rng.range(0, g2.ops.len() as u64) as usize;
                let trig = if rng.chance(1, 5) { "E" } else { "G" };
                g2.ops = insert_at(&g2.ops, at, &[trig.to_string()]);
                let w = if rng.chance(1, 3) { "T".to_string() } else { wait_tok(rng) };
                let age = rng.chance(1, 3);
                placements(out, rng, &g2, "g", &w, age, false, 0)
            }
            0 | 1 => placements(out, rng, &g, "g", "G", false, true, 0),
            2 => placements(out, rng, &g, "g", "G", false, false, 0),
            3 => {
                let probe = rng.chance(1, 2);
                placements(out, rng, &g, "g", "E", false, probe, 0)
            }
            4 => placements(out, rng, &g, "n", "E", false, false, 0),
            5 | 6 => placements(out, rng, &g, "g", "G", false, true, 3),
            _ => placements(out, rng, &g, "g", "E", false, true, 2),
        }
    }
}

/// clients that leave or cancel, accept errors, connection age, repeated and useless operations
fn disturbed(out: &mut Vec<String>, rng: &mut Rng, n: usize, max_conn: usize, max_calls: usize) {
    for _ in 0..n {
        let finish = rng.chance(1, 2);
        let g = base_scenario(rng, max_conn, max_calls, finish);
        let age = rng.chance(1, 3);
        let mode = if rng.chance(1, 6) { "n" } else { "g" };
        let mut ops = g.ops.clone();
        let extra = rng.range(1, 5);
        for _ in 0..extra {
            let at = rng.range(0, ops.len() as u64) as usize;
            // how many connections / calls exist before position `at`
            let nc = ops[..at].iter().filter(|t| t.as_str() == "C").count();
            let nk = ops[..at].iter().filter(|t| ["U", "S", "Q", "B"].iter().any(|p| t.starts_with(p))).count();
            let tok: Option<String> = match rng.below(11) {
                10 if nk > 0 => Some(format!("M{}", rng.below(nk as u64))),
                0 | 1 => Some("G".into()),
                2 => Some("E".into()),
                3 if nc > 0 => Some(format!("D{}", rng.below(nc as u64))),
                4 if nk > 0 => Some(format!("X{}", rng.below(nk as u64))),
                5 => Some(if rng.chance(1, 3) { "T".into() } else { wait_tok(rng) }),
                6 => Some(if rng.chance(1, 2) { "Ir".into() } else { "Io".into() }),
                7 if nk > 0 => Some(format!("A{}", rng.below(nk as u64))),
                8 => Some("G".into()),
                _ => None,
            };
            if let Some(t) = tok {
                ops = insert_at(&ops, at, &[t]);
            }
        }
        if rng.chance(1, 3) {
            // a late connection and a call on it at the very end
            let nc = ops.iter().filter(|t| t.as_str() == "C").count();
            ops.extend(late_probe(nc));
        }
        let racy = rng.chance(1, 4);
        if racy {
            ops = add_races(&ops, rng, 2);
        }
        let (buf, payload) = pick_sizes(rng, g.calls.len());
        let class = format!("disturbed{}{}", if mode == "n" { "-nosignal" } else { "" }, if racy { "-race" } else { "" });
        out.push(format!("{} {}", header(&class, mode, buf, payload, age), ops.join(" ")));
    }
}

/// "time passes" at one random place that may take it (a `W` step must follow a quiescent step)
fn time_at_quiet_place(ops: &[String], rng: &mut Rng) -> Vec<String> {
    let at = rng.range(0, ops.len() as u64) as usize;
    if at > 0 && ops[at - 1].contains('~') {
        return ops.to_vec();
    }
    insert_at(ops, at, &[wait_tok(rng)])
}

/// Bursts: `K<n>` = n connections ready on `incoming` at the same instant, for all 1 ≤ j ≤ n ≤ 4
/// with the signal wired to the hand-over of the j-th (`K<n>:<j>`: the accept itself fires the
/// signal, between two connections of one backlog), and unwired bursts with the signal / the end
/// of incoming just before, just after, or right behind the burst; on a server that already has
/// connections and calls in flight; calls on the burst's connections; a late connection.
fn bursts(out: &mut Vec<String>, rng: &mut Rng, count: usize) {
    for i in 0..count {
        let n = 1 + (i % 4);
        // j = 0: not wired
        let j = (i / 4) % (n + 1);
        let nosignal = j == 0 && rng.chance(1, 8);
        let mode = if nosignal { "n" } else { "g" };
        let finish = rng.chance(1, 2);
        let mut g = if rng.chance(1, 4) { Gen::new() } else { base_scenario(rng, 2, 3, finish) };
        // the burst goes in after the last step of the base scenario that opens a connection or
        // issues a call (indices of the base scenario stay what they are)
        let lo = g.ops.iter().rposition(|t| ["C", "U", "S", "Q", "B"].iter().any(|p| t.starts_with(p))).map(|x| x + 1).unwrap_or(0);
        let at = rng.range(lo as u64, g.ops.len() as u64) as usize;
        let base_conns = g.nconn;
        let base_calls = g.calls.len();
        let k = if j == 0 { format!("K{}", n) } else { format!("K{}:{}", n, j) };
        // what surrounds the burst at the same instant
        let mut around: Vec<String> = match (j == 0, rng.below(8)) {
            (true, 0) if !nosignal => vec!["G~0".into(), k.clone()],
            (true, 1) if !nosignal => vec![format!("{}~0", k), "G".into()],
            (true, 2) => vec![format!("{}~0", k), "E".into()],
            (true, 3) => vec!["E~0".into(), k.clone()],
            (true, 4) if !nosignal => vec![k.clone(), "G".into()],
            (true, 5) => vec![k.clone(), "E".into()],
            (false, 0) => vec![format!("{}~0", k), "E".into()],
            (false, 1) => vec![k.clone(), "E".into()],
            (false, 2) => vec![format!("{}~0", k), "G".into()],
            (false, 3) => vec!["C~0".into(), k.clone()],
            (false, 4) => vec![format!("{}~{}", k, rng.pick(&[0u64, 1, 2])), "C".into()],
            _ => vec![k.clone()],
        };
        // a connection offered next to the burst shifts the burst's indices
        let extra_before = around.first().map(|t| t.starts_with('C')).unwrap_or(false) as usize;
        let extra_conns = around.iter().filter(|t| t.starts_with('C')).count();
        let first = base_conns + extra_before;
        // calls on connections of the burst, issued right behind it
        let mut burst_calls = Vec::new();
        for _ in 0..rng.below(3) {
            let c = first + rng.below(n as u64) as usize;
            let code = *rng.pick(&CODES);
            if rng.chance(1, 2) {
                around.push(format!("U{}:{}", c, code));
                burst_calls.push(1usize);
            } else {
                around.push(format!("S{}:1:{}", c, code));
                burst_calls.push(3usize);
            }
        }
        g.nconn += n + extra_conns;
        let mut ops = insert_at(&g.ops, at, &around);
        // their handlers are released at the end, some of them
        for (x, phases) in burst_calls.iter().enumerate() {
            for _ in 0..rng.below(*phases as u64 + 1) {
                ops.push(format!("A{}", base_calls + x));
            }
        }
        if rng.chance(1, 3) {
            ops.extend(late_probe(g.nconn));
        }
        if j == 0 && !nosignal && !ops.iter().any(|t| t.starts_with('G') || t.starts_with('E')) && rng.chance(2, 3) {
            let pos = rng.range((at + around.len()) as u64, ops.len() as u64) as usize;
            ops = insert_at(&ops, pos, &["G".to_string()]);
        }
        let timed = rng.chance(1, 4);
        if timed {
            ops = time_at_quiet_place(&ops, rng);
        }
        let (buf, payload) = pick_sizes(rng, g.calls.len() + burst_calls.len());
        let class = format!("burst{}{}{}", if j == 0 { "" } else { "-wired" }, if nosignal { "-nosignal" } else { "" }, if timed { "-timed" } else { "" });
        out.push(format!("{} {}", header(&class, mode, buf, payload, timed && rng.chance(1, 2)), ops.join(" ")));
    }
}

/// every burst 1 ≤ j ≤ n ≤ 4 (and the unwired ones) in every small context: what the server has
/// when the burst arrives x what comes right behind it x with / without a quiescent point between
fn burst_contexts(out: &mut Vec<String>) {
    let before: [(&str, usize, usize); 6] = [("", 0, 0), ("C", 1, 0), ("C C", 2, 0), ("C U0:0", 1, 1), ("C S0:1:0 A0", 1, 1), ("C U0:0 A0", 1, 1)];
    let after = ["", "E", "G", "C", "A0", "U#:0", "W61"];
    for n in 1..=4usize {
        for j in 0..=n {
            let k = if j == 0 { format!("K{}", n) } else { format!("K{}:{}", n, j) };
            for (b, nconn, ncall) in before {
                for a in after {
                    if a == "A0" && ncall == 0 {
                        continue;
                    }
                    // `U#:0`: a call on the last connection of the burst
                    let a = a.replace('#', &(nconn + n - 1).to_string());
                    for racy in [false, true] {
                        if racy && (a.is_empty() || a.starts_with('W')) {
                            continue;
                        }
                        let kk = if racy { format!("{}~0", k) } else { k.clone() };
                        let ops: Vec<&str> = [b, kk.as_str(), a.as_str()].into_iter().filter(|t| !t.is_empty()).collect();
                        out.push(format!("sc:burst-contexts g b1024 p10 a0 {}", ops.join(" ")));
                    }
                }
            }
        }
    }
}

/// thorough tier: every scenario up to a length bound over a small alphabet (one connection
/// pre-offered or not, two calls at most)
fn exhaustive(out: &mut Vec<String>, max_len: usize) {
    let alphabet = ["C", "U", "S", "Q", "B", "A0", "A1", "M0", "M1", "G", "E", "D0", "X0", "W61"];
    fn rec(out: &mut Vec<String>, alphabet: &[&str], cur: &mut Vec<String>, nconn: usize, ncall: usize, left: usize) {
        if !cur.is_empty() {
            out.push(format!("sc:exhaustive g b1024 p10 a0 {}", cur.join(" ")));
        }
        if left == 0 {
            return;
        }
        for a in alphabet {
            let (tok, nc, nk) = match *a {
                "C" if nconn < 2 => ("C".to_string(), nconn + 1, ncall),
                "U" if nconn > 0 && ncall < 2 => (format!("U{}:0", nconn - 1), nconn, ncall + 1),
                "S" if nconn > 0 && ncall < 2 => (format!("S{}:1:5", nconn - 1), nconn, ncall + 1),
                "Q" if nconn > 0 && ncall < 2 => (format!("Q{}:1:0", nconn - 1), nconn, ncall + 1),
                "B" if nconn > 0 && ncall < 2 => (format!("B{}:1:0:0", nconn - 1), nconn, ncall + 1),
                "A0" if ncall > 0 => ("A0".to_string(), nconn, ncall),
                "A1" if ncall > 1 => ("A1".to_string(), nconn, ncall),
                "M0" if ncall > 0 && cur.iter().any(|t| t.starts_with('Q') || t.starts_with('B')) => ("M0".to_string(), nconn, ncall),
                "M1" if ncall > 1 && cur.iter().any(|t| t.starts_with('Q') || t.starts_with('B')) => ("M1".to_string(), nconn, ncall),
                "G" | "E" | "W61" => (a.to_string(), nconn, ncall),
                "D0" if nconn > 0 => ("D0".to_string(), nconn, ncall),
                "X0" if ncall > 0 => ("X0".to_string(), nconn, ncall),
                _ => continue,
            };
            cur.push(tok);
            rec(out, alphabet, cur, nc, nk, left - 1);
            cur.pop();
        }
    }
    let mut cur = Vec::new();
    rec(out, &alphabet, &mut cur, 0, 0, max_len);
}

/// the same scenarios with no quiescent point between steps: all `~0`, and a random mix
fn racy_variants(out: &mut Vec<String>, rng: &mut Rng, cases: &[String]) {
    for c in cases {
        let toks: Vec<&str> = c.split(' ').collect();
        let ops: Vec<String> = toks[5..].iter().map(|t| t.to_string()).collect();
        if ops.iter().any(|t| t.starts_with('D') || t.starts_with('X') || t.starts_with('W') || t == "T") {
            continue;
        }
        let all0: Vec<String> = ops.iter().map(|t| format!("{}~0", t)).collect();
        let buf = *rng.pick(&BUFS);
        out.push(format!("sc:exhaustive-race g b{} p10 a0 {}", buf, all0.join(" ")));
        let mixed = add_races(&ops, rng, 5);
        out.push(format!("sc:exhaustive-race g b{} p10 a0 {}", buf, mixed.join(" ")));
    }
}

/// spread the TCP cases evenly over the list (the runner shards the list in contiguous blocks,
/// and a TCP case can cost real time when the server under test misbehaves)
fn interleave(base: Vec<String>, extra: Vec<String>) -> Vec<String> {
    if extra.is_empty() {
        return base;
    }
    let every = (base.len() / extra.len()).max(1);
    let mut out = Vec::with_capacity(base.len() + extra.len());
    let mut it = extra.into_iter();
    for (i, c) in base.into_iter().enumerate() {
        if i % every == 0 {
            if let Some(e) = it.next() {
                out.push(e);
            }
        }
        out.push(c);
    }
    out.extend(it);
    out
}

/// The server configuration knobs that interact with shutdown, added to a generated case (after
/// its `a<0|1>` token): `Server::timeout` none / short (around the 29 s and 31 s time steps) / a
/// minute / long / longer than any script; http2 (duplex) or tcp (TCP) keepalive; a
/// concurrency_limit_per_connection + max_concurrent_streams above the number of calls.
fn with_config(case: &str, rng: &mut Rng) -> String {
    let toks: Vec<&str> = case.split(' ').collect();
    if toks.len() < 5 {
        return case.to_string();
    }
    let tcp = toks[1] == "t" || toks[1] == "u";
    let mut cfg: Vec<String> = Vec::new();
    // over TCP the virtual clock also ticks while the script waits for the kernel: no timeout
    // within a second of a sum of time steps there
    let t: u64 = match rng.below(8) {
        0 | 1 | 2 => 0,
        3 | 4 => if tcp { 45 } else { 30 },
        5 => if tcp { 45 } else { 60 },
        6 => 3000,
        _ => 100_000,
    };
    if t > 0 {
        cfg.push(format!("t{}", t));
    }
    if rng.chance(1, 4) {
        cfg.push(format!("k{}", rng.pick(&[10u64, 60])));
    }
    if rng.chance(1, 4) {
        cfg.push(format!("l{}", rng.pick(&[8usize, 64])));
    }
    // further builder knobs that must not show (accept_http1 / trace_fn / layer), any subset
    if rng.chance(1, 3) {
        cfg.push(format!("x{}", rng.range(1, x::X_MAX)));
    }
    // a sibling server built from the same builder value
    if rng.chance(1, 6) {
        cfg.push(format!("z{}", rng.range(1, 3)));
    }
    let mut v: Vec<String> = toks[..5].iter().map(|t| t.to_string()).collect();
    v.extend(cfg);
    v.extend(toks[5..].iter().map(|t| t.to_string()));
    v.join(" ")
}

pub fn generate(tier: &str, rng: &mut Rng) -> Vec<String> {
    let all = generate_scripts(tier, rng);
    // every generated stream also runs under the configuration knobs (the corpus has its own)
    let mut v: Vec<String> = all.into_iter().map(|c| if c.starts_with("sc:corpus ") { c } else { with_config(&c, rng) }).collect();
    q::generate_qlim(&mut v);
    v
}

fn generate_scripts(tier: &str, rng: &mut Rng) -> Vec<String> {
    let thorough = tier == "thorough";
    let mut tcp = Vec::new();
    let mut out = corpus();
    if thorough {
        structured(&mut out, rng, 10000, 4, 6);
        bursts(&mut out, rng, 12000);
        burst_contexts(&mut out);
        phases(&mut out, rng, 20000);
        tcp_scenarios(&mut tcp, rng, 400);
        tls_scenarios(&mut out, rng, 1500);
        disturbed(&mut out, rng, 90000, 4, 6);
        exhaustive(&mut out, 6);
        // every scenario up to length 5 again, with every step / random steps non-quiescent
        let mut ex = Vec::new();
        exhaustive(&mut ex, 5);
        racy_variants(&mut out, rng, &ex);
    } else {
        structured(&mut out, rng, 160, 3, 4);
        bursts(&mut out, rng, 240);
        burst_contexts(&mut out);
        phases(&mut out, rng, 300);
        tcp_scenarios(&mut tcp, rng, 24);
        tls_scenarios(&mut out, rng, 30);
        disturbed(&mut out, rng, 800, 3, 4);
        exhaustive(&mut out, 4);
        let mut ex = Vec::new();
        exhaustive(&mut ex, 3);
        racy_variants(&mut out, rng, &ex);
    }
    interleave(out, tcp)
}
