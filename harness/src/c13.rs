//! C13 — graceful shutdown loses no accepted call.
//!
//! Drives the REAL `Server::builder().add_service(..).serve_with_incoming_shutdown(incoming, signal)`
//! (or `serve_with_incoming` in mode `n`) over in-memory `tokio::io::duplex` connections, with real
//! tonic clients (`Endpoint::connect_with_connector`), on a current-thread runtime with paused time.
//!
//! Case grammar (space separated):
//!   sc[:<generator stream label, not interpreted>] <g|n> b<duplex buffer> p<payload bytes>
//!      a<0|1 max_connection_age configured> <step>*
//!      (g = serve_with_incoming_shutdown, n = serve_with_incoming; requests and response messages
//!       are p bytes; the duplex buffer size sets the transport fragmentation)
//!   step (optionally suffixed `~<k>`: only k scheduler yields follow instead of a full settle):
//!     C            offer a connection (index = order of offering) and connect a client over it
//!     U<c>:<s>     start a unary call on connection c; handler will answer status s (0 = OK + message)
//!     S<c>:<n>:<s> start a server-streaming call: headers, n messages, then status s
//!     Q<c>:<m>:<s> start a client-streaming call: the client will send m request messages (one per
//!                  `M` step, the last one half-closes; m = 0: half-closed at once); the handler reads
//!                  the request stream to its end, then (one phase) answers like a unary one
//!     B<c>:<m>:<n>:<s> start a bidi call: m request messages as for Q; the handler sends headers, n
//!                  messages (one phase each), then - last phase - reads the request stream to its
//!                  end and sends status s
//!     M<k>         the client of call k sends its next request message
//!     A<k>         let the handler of call k advance one phase
//!     G            fire the shutdown signal
//!     E            end the incoming stream
//!     Ir | Io      the incoming stream yields an accept error (recoverable kind / other kind)
//!     D<c>         the client drops connection c (and abandons its calls)
//!     X<k>         the client abandons call k
//!     W<secs>      virtual time passes: the script sleeps <secs> seconds of (paused) tokio time.
//!                  Usable anywhere, with or without max_connection_age configured: whatever in
//!                  the server depends on the clock gets its chance to fire
//!     T            = W3600 (virtual time passes max_connection_age)
//!   D, X, W and T must follow and be quiescent steps.
//!   After the script: every client completes its request stream and all handlers free-run (drain),
//!   quiescent point, then every client is dropped.
//!
//! Time = number of quiescent points passed (a quiescent point = the paused-clock runtime went idle:
//! `sleep(1ms)` only returns once no task is runnable).  Steps joined by `~k` share one instant.
//!
//! Observed (times; `-` = never):
//!   R<resolvedAt>:<open server IOs at that instant (`*` in mode n)>:<ok|err>
//!   c<i>:<accepted 0|1>:<server IO dropped at>
//!   k<j>:<handler started 0|1>:<headers 0|1|bad>:<good messages|bad>:<status s<code>|s<code>!|->:<client done at>
//!        (`s<code>!` = status text is not the handler's; message contents, the `x-k` response
//!         header and the status text are all checked per call)
//!   k<j>:0:0:0:ns:-   the server never saw the call (whatever local error the client got)
//!   hang              the virtual-time watchdog fired
use crate::common::*;
use bytes::{Buf, BufMut};
use std::future::Future;
use std::pin::Pin;
use std::sync::{Arc, Mutex};
use std::task::{Context, Poll};
use std::time::Duration;
use tokio::io::{AsyncRead, AsyncWrite, DuplexStream, ReadBuf};
use tokio::sync::{mpsc, oneshot, Semaphore};
use tonic::codec::{BufferSettings, Codec, DecodeBuf, Decoder, EncodeBuf, Encoder};
use tonic::transport::server::Connected;
use tonic::transport::{Endpoint, Server, Uri};
use tonic::{Request, Response, Status};

// ---------------------------------------------------------------- script

#[derive(Clone, Debug, PartialEq)]
enum Op {
    Conn,
    Unary(usize, i32),
    Stream(usize, usize, i32),
    CStream(usize, usize, i32),
    Bidi(usize, usize, usize, i32),
    ReqMsg(usize),
    Adv(usize),
    Sig,
    EndIncoming,
    AcceptErr(bool),
    DropConn(usize),
    Cancel(usize),
    Wait(u64),
}

#[derive(Clone, Debug)]
struct Step {
    op: Op,
    yields: Option<usize>,
}

struct Script {
    graceful: bool,
    buf: usize,
    payload: usize,
    age: bool,
    steps: Vec<Step>,
}

fn parse(case: &str) -> Option<Script> {
    let t: Vec<&str> = case.split(' ').collect();
    if t.len() < 5 || !t[0].starts_with("sc") {
        return None;
    }
    let graceful = match t[1] {
        "g" => true,
        "n" => false,
        _ => return None,
    };
    let buf: usize = t[2].strip_prefix('b')?.parse().ok()?;
    let payload: usize = t[3].strip_prefix('p')?.parse().ok()?;
    let age = match t[4] {
        "a0" => false,
        "a1" => true,
        _ => return None,
    };
    let mut steps = Vec::new();
    let (mut nconn, mut ncall) = (0usize, 0usize);
    for s in &t[5..] {
        let (body, yields) = match s.split_once('~') {
            Some((b, y)) => (b, Some(y.parse::<usize>().ok()?)),
            None => (*s, None),
        };
        let (head, rest) = body.split_at(1);
        let nums: Vec<&str> = if rest.is_empty() { vec![] } else { rest.split(':').collect() };
        let op = match (head, nums.as_slice()) {
            ("C", []) => {
                nconn += 1;
                Op::Conn
            }
            ("U", [c, s]) => {
                let c: usize = c.parse().ok()?;
                if c >= nconn {
                    return None;
                }
                ncall += 1;
                Op::Unary(c, s.parse().ok()?)
            }
            ("S", [c, n, s]) => {
                let c: usize = c.parse().ok()?;
                if c >= nconn {
                    return None;
                }
                ncall += 1;
                Op::Stream(c, n.parse().ok()?, s.parse().ok()?)
            }
            ("Q", [c, m, s]) => {
                let c: usize = c.parse().ok()?;
                let m: usize = m.parse().ok()?;
                if c >= nconn || m > 64 {
                    return None;
                }
                ncall += 1;
                Op::CStream(c, m, s.parse().ok()?)
            }
            ("B", [c, m, n, s]) => {
                let c: usize = c.parse().ok()?;
                let m: usize = m.parse().ok()?;
                if c >= nconn || m > 64 {
                    return None;
                }
                ncall += 1;
                Op::Bidi(c, m, n.parse().ok()?, s.parse().ok()?)
            }
            ("M", [k]) => {
                let k: usize = k.parse().ok()?;
                if k >= ncall {
                    return None;
                }
                Op::ReqMsg(k)
            }
            ("A", [k]) => {
                let k: usize = k.parse().ok()?;
                if k >= ncall {
                    return None;
                }
                Op::Adv(k)
            }
            ("G", []) => Op::Sig,
            ("E", []) => Op::EndIncoming,
            ("I", ["r"]) => Op::AcceptErr(true),
            ("I", ["o"]) => Op::AcceptErr(false),
            ("D", [c]) => {
                let c: usize = c.parse().ok()?;
                if c >= nconn {
                    return None;
                }
                Op::DropConn(c)
            }
            ("X", [k]) => {
                let k: usize = k.parse().ok()?;
                if k >= ncall {
                    return None;
                }
                Op::Cancel(k)
            }
            ("T", []) => Op::Wait(AGE.as_secs()),
            ("W", [d]) => {
                let d: u64 = d.parse().ok()?;
                if d > 100_000 {
                    return None;
                }
                Op::Wait(d)
            }
            _ => return None,
        };
        if matches!(op, Op::DropConn(_) | Op::Cancel(_) | Op::Wait(_)) {
            // these are only meaningful from a quiescent state
            if yields.is_some() || steps.last().map(|p: &Step| p.yields.is_some()).unwrap_or(false) {
                return None;
            }
        }
        steps.push(Step { op, yields });
    }
    Some(Script { graceful, buf, payload, age, steps })
}

// ---------------------------------------------------------------- shared observation state

#[derive(Default)]
struct ConnRec {
    accepted: bool,
    closed_at: Option<usize>,
}

#[derive(Clone, Copy, PartialEq, Debug)]
enum Kind {
    Unary,
    SStream,
    CStream,
    Bidi,
}

struct CallRec {
    n: usize, // messages the handler intends to send (unary: 1 if status 0 else 0)
    m: usize, // request messages the client is going to send (client-streaming and bidi)
    status: i32,
    kind: Kind,
    gate: Arc<Semaphore>,
    started: bool,
    hdr: Option<bool>, // Some(true) good, Some(false) bad
    msgs: usize,
    bad: bool,
    fin: Option<String>,
    done_at: Option<usize>,
}

#[derive(Default)]
struct Shared {
    step: usize,
    open: usize,
    conns: Vec<ConnRec>,
    calls: Vec<CallRec>,
    resolved: Option<(usize, usize, bool)>,
    payload: usize,
}

type Sh = Arc<Mutex<Shared>>;

/// j-th request message of a client-streaming / bidi call
fn req_message(k: usize, j: usize, len: usize) -> Vec<u8> {
    message(k + 7919, j + 3, len)
}

fn message(k: usize, j: usize, len: usize) -> Vec<u8> {
    (0..len).map(|i| (k.wrapping_mul(31) + j.wrapping_mul(7) + i.wrapping_mul(13) + 1) as u8).collect()
}

const AGE: Duration = Duration::from_secs(3600);

// ---------------------------------------------------------------- server-side IO wrapper

struct SrvIo {
    inner: DuplexStream,
    id: usize,
    sh: Sh,
}

impl Connected for SrvIo {
    type ConnectInfo = ();
    // called by tonic's MakeSvc exactly when the accept loop takes the connection
    fn connect_info(&self) {
        let mut g = self.sh.lock().unwrap();
        if !g.conns[self.id].accepted {
            g.conns[self.id].accepted = true;
            g.open += 1;
        }
    }
}

impl Drop for SrvIo {
    fn drop(&mut self) {
        let mut g = self.sh.lock().unwrap();
        let st = g.step;
        if g.conns[self.id].accepted {
            g.open -= 1;
        }
        g.conns[self.id].closed_at = Some(st);
    }
}

impl AsyncRead for SrvIo {
    fn poll_read(mut self: Pin<&mut Self>, cx: &mut Context<'_>, buf: &mut ReadBuf<'_>) -> Poll<std::io::Result<()>> {
        Pin::new(&mut self.inner).poll_read(cx, buf)
    }
}

impl AsyncWrite for SrvIo {
    fn poll_write(mut self: Pin<&mut Self>, cx: &mut Context<'_>, buf: &[u8]) -> Poll<std::io::Result<usize>> {
        Pin::new(&mut self.inner).poll_write(cx, buf)
    }
    fn poll_flush(mut self: Pin<&mut Self>, cx: &mut Context<'_>) -> Poll<std::io::Result<()>> {
        Pin::new(&mut self.inner).poll_flush(cx)
    }
    fn poll_shutdown(mut self: Pin<&mut Self>, cx: &mut Context<'_>) -> Poll<std::io::Result<()>> {
        Pin::new(&mut self.inner).poll_shutdown(cx)
    }
}

struct Incoming(mpsc::UnboundedReceiver<Result<SrvIo, std::io::Error>>);

impl futures_core::Stream for Incoming {
    type Item = Result<SrvIo, std::io::Error>;
    fn poll_next(mut self: Pin<&mut Self>, cx: &mut Context<'_>) -> Poll<Option<Self::Item>> {
        self.0.poll_recv(cx)
    }
}

// ---------------------------------------------------------------- byte codec

#[derive(Clone, Copy, Default)]
struct RawCodec;
#[derive(Clone, Copy)]
struct RawEnc;
#[derive(Clone, Copy)]
struct RawDec;

impl Encoder for RawEnc {
    type Item = Vec<u8>;
    type Error = Status;
    fn encode(&mut self, item: Vec<u8>, dst: &mut EncodeBuf<'_>) -> Result<(), Status> {
        dst.put_slice(&item);
        Ok(())
    }
    fn buffer_settings(&self) -> BufferSettings {
        BufferSettings::default()
    }
}

impl Decoder for RawDec {
    type Item = Vec<u8>;
    type Error = Status;
    fn decode(&mut self, src: &mut DecodeBuf<'_>) -> Result<Option<Vec<u8>>, Status> {
        let n = src.remaining();
        Ok(Some(src.copy_to_bytes(n).to_vec()))
    }
    fn buffer_settings(&self) -> BufferSettings {
        BufferSettings::default()
    }
}

impl Codec for RawCodec {
    type Encode = Vec<u8>;
    type Decode = Vec<u8>;
    type Encoder = RawEnc;
    type Decoder = RawDec;
    fn encoder(&mut self) -> RawEnc {
        RawEnc
    }
    fn decoder(&mut self) -> RawDec {
        RawDec
    }
}

// ---------------------------------------------------------------- the gated service

#[derive(Clone)]
struct GateSvc {
    sh: Sh,
}

impl tonic::server::NamedService for GateSvc {
    const NAME: &'static str = "verif.Gate";
}

type BoxFut<T> = Pin<Box<dyn Future<Output = T> + Send + 'static>>;

fn call_id(req: &[u8]) -> usize {
    let mut b = [0u8; 4];
    b.copy_from_slice(&req[..4]);
    u32::from_be_bytes(b) as usize
}

fn status_of(k: usize, code: i32) -> Status {
    Status::new(tonic::Code::from_i32(code), format!("e{}", k))
}

struct UnarySvc(Sh);
impl tonic::server::UnaryService<Vec<u8>> for UnarySvc {
    type Response = Vec<u8>;
    type Future = BoxFut<Result<Response<Vec<u8>>, Status>>;
    fn call(&mut self, request: Request<Vec<u8>>) -> Self::Future {
        let sh = self.0.clone();
        Box::pin(async move {
            let k = call_id(request.get_ref());
            let (gate, status, payload) = {
                let mut g = sh.lock().unwrap();
                g.calls[k].started = true;
                (g.calls[k].gate.clone(), g.calls[k].status, g.payload)
            };
            gate.acquire().await.unwrap().forget();
            if status == 0 {
                let mut r = Response::new(message(k, 0, payload));
                r.metadata_mut().insert("x-k", k.to_string().parse().unwrap());
                Ok(r)
            } else {
                Err(status_of(k, status))
            }
        })
    }
}

struct GatedStream {
    k: usize,
    j: usize,
    n: usize,
    status: i32,
    payload: usize,
    done: bool,
    wait: Option<BoxFut<bool>>,
    gate: Arc<Semaphore>,
    /// bidi: the request stream (read to its end in the last phase) and the expected count
    req: Option<(tonic::Streaming<Vec<u8>>, usize)>,
}

fn meta_k<T>(req: &Request<T>) -> Option<usize> {
    req.metadata().get("x-k")?.to_str().ok()?.parse().ok()
}

/// read a request stream to its end; true iff exactly the m expected messages came, in order
async fn drain_requests(mut s: tonic::Streaming<Vec<u8>>, k: usize, m: usize, payload: usize) -> bool {
    let mut count = 0usize;
    let mut good = true;
    loop {
        match s.message().await {
            Ok(Some(b)) => {
                if b != req_message(k, count, payload) {
                    good = false;
                }
                count += 1;
            }
            Ok(None) => break,
            Err(_) => return false,
        }
    }
    good && count == m
}

impl futures_core::Stream for GatedStream {
    type Item = Result<Vec<u8>, Status>;
    fn poll_next(mut self: Pin<&mut Self>, cx: &mut Context<'_>) -> Poll<Option<Self::Item>> {
        if self.done {
            return Poll::Ready(None);
        }
        if self.wait.is_none() {
            let gate = self.gate.clone();
            let last = self.j >= self.n;
            let req = if last { self.req.take() } else { None };
            let (k, payload) = (self.k, self.payload);
            self.wait = Some(Box::pin(async move {
                gate.acquire().await.unwrap().forget();
                match req {
                    Some((s, m)) => drain_requests(s, k, m, payload).await,
                    None => true,
                }
            }));
        }
        match self.wait.as_mut().unwrap().as_mut().poll(cx) {
            Poll::Pending => Poll::Pending,
            Poll::Ready(req_ok) => {
                self.wait = None;
                if !req_ok {
                    self.done = true;
                    return Poll::Ready(Some(Err(Status::internal("badreq"))));
                }
                if self.j < self.n {
                    let m = message(self.k, self.j, self.payload);
                    self.j += 1;
                    Poll::Ready(Some(Ok(m)))
                } else {
                    self.done = true;
                    if self.status == 0 {
                        Poll::Ready(None)
                    } else {
                        Poll::Ready(Some(Err(status_of(self.k, self.status))))
                    }
                }
            }
        }
    }
}

struct StreamSvc(Sh);
impl tonic::server::ServerStreamingService<Vec<u8>> for StreamSvc {
    type Response = Vec<u8>;
    type ResponseStream = GatedStream;
    type Future = BoxFut<Result<Response<GatedStream>, Status>>;
    fn call(&mut self, request: Request<Vec<u8>>) -> Self::Future {
        let sh = self.0.clone();
        Box::pin(async move {
            let k = call_id(request.get_ref());
            let (gate, status, payload, n) = {
                let mut g = sh.lock().unwrap();
                g.calls[k].started = true;
                (g.calls[k].gate.clone(), g.calls[k].status, g.payload, g.calls[k].n)
            };
            gate.acquire().await.unwrap().forget();
            let mut r = Response::new(GatedStream { k, j: 0, n, status, payload, done: false, wait: None, gate, req: None });
            r.metadata_mut().insert("x-k", k.to_string().parse().unwrap());
            Ok(r)
        })
    }
}

struct CStreamSvc(Sh);
impl tonic::server::ClientStreamingService<Vec<u8>> for CStreamSvc {
    type Response = Vec<u8>;
    type Future = BoxFut<Result<Response<Vec<u8>>, Status>>;
    fn call(&mut self, request: Request<tonic::Streaming<Vec<u8>>>) -> Self::Future {
        let sh = self.0.clone();
        Box::pin(async move {
            let k = match meta_k(&request) {
                Some(k) if k < sh.lock().unwrap().calls.len() => k,
                _ => return Err(Status::internal("nok")),
            };
            let (gate, status, payload, m) = {
                let mut g = sh.lock().unwrap();
                g.calls[k].started = true;
                (g.calls[k].gate.clone(), g.calls[k].status, g.payload, g.calls[k].m)
            };
            let req_ok = drain_requests(request.into_inner(), k, m, payload).await;
            gate.acquire().await.unwrap().forget();
            if !req_ok {
                return Err(Status::internal("badreq"));
            }
            if status == 0 {
                let mut r = Response::new(message(k, 0, payload));
                r.metadata_mut().insert("x-k", k.to_string().parse().unwrap());
                Ok(r)
            } else {
                Err(status_of(k, status))
            }
        })
    }
}

struct BidiSvc(Sh);
impl tonic::server::StreamingService<Vec<u8>> for BidiSvc {
    type Response = Vec<u8>;
    type ResponseStream = GatedStream;
    type Future = BoxFut<Result<Response<GatedStream>, Status>>;
    fn call(&mut self, request: Request<tonic::Streaming<Vec<u8>>>) -> Self::Future {
        let sh = self.0.clone();
        Box::pin(async move {
            let k = match meta_k(&request) {
                Some(k) if k < sh.lock().unwrap().calls.len() => k,
                _ => return Err(Status::internal("nok")),
            };
            let (gate, status, payload, n, m) = {
                let mut g = sh.lock().unwrap();
                g.calls[k].started = true;
                (g.calls[k].gate.clone(), g.calls[k].status, g.payload, g.calls[k].n, g.calls[k].m)
            };
            gate.acquire().await.unwrap().forget();
            let req = Some((request.into_inner(), m));
            let mut r = Response::new(GatedStream { k, j: 0, n, status, payload, done: false, wait: None, gate, req });
            r.metadata_mut().insert("x-k", k.to_string().parse().unwrap());
            Ok(r)
        })
    }
}

impl tower_service::Service<http::Request<tonic::body::Body>> for GateSvc {
    type Response = http::Response<tonic::body::Body>;
    type Error = std::convert::Infallible;
    type Future = BoxFut<Result<Self::Response, Self::Error>>;
    fn poll_ready(&mut self, _cx: &mut Context<'_>) -> Poll<Result<(), Self::Error>> {
        Poll::Ready(Ok(()))
    }
    fn call(&mut self, req: http::Request<tonic::body::Body>) -> Self::Future {
        let sh = self.sh.clone();
        match req.uri().path() {
            "/verif.Gate/Unary" => Box::pin(async move {
                let mut grpc = tonic::server::Grpc::new(RawCodec);
                Ok(grpc.unary(UnarySvc(sh), req).await)
            }),
            "/verif.Gate/Stream" => Box::pin(async move {
                let mut grpc = tonic::server::Grpc::new(RawCodec);
                Ok(grpc.server_streaming(StreamSvc(sh), req).await)
            }),
            "/verif.Gate/CStream" => Box::pin(async move {
                let mut grpc = tonic::server::Grpc::new(RawCodec);
                Ok(grpc.client_streaming(CStreamSvc(sh), req).await)
            }),
            "/verif.Gate/Bidi" => Box::pin(async move {
                let mut grpc = tonic::server::Grpc::new(RawCodec);
                Ok(grpc.streaming(BidiSvc(sh), req).await)
            }),
            _ => Box::pin(async move {
                let mut response = http::Response::new(tonic::body::Body::default());
                response.headers_mut().insert(Status::GRPC_STATUS, (tonic::Code::Unimplemented as i32).into());
                response.headers_mut().insert(http::header::CONTENT_TYPE, tonic::metadata::GRPC_CONTENT_TYPE);
                Ok(response)
            }),
        }
    }
}

// ---------------------------------------------------------------- client side

fn status_token(k: usize, st: &Status) -> String {
    let code = st.code() as i32;
    if st.message() == format!("e{}", k) {
        format!("s{}", code)
    } else {
        format!("s{}!", code)
    }
}

fn finish(sh: &Sh, k: usize, tok: String) {
    let mut g = sh.lock().unwrap();
    let st = g.step;
    g.calls[k].fin = Some(tok);
    g.calls[k].done_at = Some(st);
}

fn check_hdr(k: usize, md: &tonic::metadata::MetadataMap) -> bool {
    md.get("x-k").and_then(|v| v.to_str().ok()).map(|v| v == k.to_string()).unwrap_or(false)
}

struct ReqStream(mpsc::UnboundedReceiver<Vec<u8>>);

impl futures_core::Stream for ReqStream {
    type Item = Vec<u8>;
    fn poll_next(mut self: Pin<&mut Self>, cx: &mut Context<'_>) -> Poll<Option<Vec<u8>>> {
        self.0.poll_recv(cx)
    }
}

fn record_unary_result(sh: &Sh, k: usize, payload: usize, r: Result<Response<Vec<u8>>, Status>) {
    match r {
        Ok(resp) => {
            let good_hdr = check_hdr(k, resp.metadata());
            let good = resp.get_ref() == &message(k, 0, payload);
            {
                let mut g = sh.lock().unwrap();
                g.calls[k].hdr = Some(good_hdr);
                if good {
                    g.calls[k].msgs += 1;
                } else {
                    g.calls[k].bad = true;
                }
            }
            finish(sh, k, "s0".into());
        }
        Err(st) => finish(sh, k, status_token(k, &st)),
    }
}

async fn record_stream_result(sh: &Sh, k: usize, payload: usize, r: Result<Response<tonic::Streaming<Vec<u8>>>, Status>) {
    match r {
        Ok(resp) => {
            let good_hdr = check_hdr(k, resp.metadata());
            sh.lock().unwrap().calls[k].hdr = Some(good_hdr);
            let mut s = resp.into_inner();
            loop {
                match s.message().await {
                    Ok(Some(m)) => {
                        let mut g = sh.lock().unwrap();
                        let j = g.calls[k].msgs;
                        if !g.calls[k].bad && m == message(k, j, payload) {
                            g.calls[k].msgs += 1;
                        } else {
                            g.calls[k].bad = true;
                        }
                    }
                    Ok(None) => {
                        finish(sh, k, "s0".into());
                        break;
                    }
                    Err(st) => {
                        finish(sh, k, status_token(k, &st));
                        break;
                    }
                }
            }
        }
        Err(st) => finish(sh, k, status_token(k, &st)),
    }
}

async fn client_call(sh: Sh, ch: tonic::transport::Channel, k: usize, rx: Option<mpsc::UnboundedReceiver<Vec<u8>>>) {
    let (kind, payload) = {
        let g = sh.lock().unwrap();
        (g.calls[k].kind, g.payload)
    };
    let streaming = kind == Kind::SStream;
    let mut grpc = tonic::client::Grpc::new(ch);
    if let Err(e) = grpc.ready().await {
        let _ = e;
        finish(&sh, k, "s14!".into());
        return;
    }
    if kind == Kind::CStream || kind == Kind::Bidi {
        let (_keep, rx) = match rx {
            Some(rx) => (None, rx),
            None => {
                let (tx, rx) = mpsc::unbounded_channel();
                (Some(tx), rx)
            }
        };
        let mut req = Request::new(ReqStream(rx));
        req.metadata_mut().insert("x-k", k.to_string().parse().unwrap());
        if kind == Kind::CStream {
            let path = http::uri::PathAndQuery::from_static("/verif.Gate/CStream");
            let r = grpc.client_streaming::<_, Vec<u8>, Vec<u8>, _>(req, path, RawCodec).await;
            record_unary_result(&sh, k, payload, r);
        } else {
            let path = http::uri::PathAndQuery::from_static("/verif.Gate/Bidi");
            let r = grpc.streaming::<_, Vec<u8>, Vec<u8>, _>(req, path, RawCodec).await;
            record_stream_result(&sh, k, payload, r).await;
        }
        return;
    }
    let mut body = (k as u32).to_be_bytes().to_vec();
    // the request is as large as the responses, so that big-payload scenarios also have the
    // request upload (and its flow control) in flight around the signal
    body.extend(std::iter::repeat(0xA5u8).take(payload));
    if !streaming {
        let path = http::uri::PathAndQuery::from_static("/verif.Gate/Unary");
        let r = grpc.unary::<Vec<u8>, Vec<u8>, _>(Request::new(body), path, RawCodec).await;
        record_unary_result(&sh, k, payload, r);
    } else {
        let path = http::uri::PathAndQuery::from_static("/verif.Gate/Stream");
        let r = grpc.server_streaming::<Vec<u8>, Vec<u8>, _>(Request::new(body), path, RawCodec).await;
        record_stream_result(&sh, k, payload, r).await;
    }
}

// ---------------------------------------------------------------- scenario runner

/// the open request side of a client-streaming / bidi call: (sender, messages sent, messages to send)
type ReqTx = Option<(mpsc::UnboundedSender<Vec<u8>>, usize, usize)>;

/// the client sends the next request message of call k; the last one closes the request stream
fn send_req(slot: &mut ReqTx, k: usize, payload: usize) {
    if let Some((tx, sent, m)) = slot {
        let _ = tx.send(req_message(k, *sent, payload));
        *sent += 1;
        if *sent >= *m {
            *slot = None;
        }
    }
}

async fn settle() {
    tokio::time::sleep(Duration::from_millis(1)).await;
}

async fn after_step(y: Option<usize>) {
    match y {
        None => settle().await,
        Some(k) => {
            for _ in 0..k {
                tokio::task::yield_now().await;
            }
        }
    }
}

async fn run(sc: Script) -> String {
    let sh: Sh = Arc::new(Mutex::new(Shared { payload: sc.payload, ..Default::default() }));
    let (inc_tx, inc_rx) = mpsc::unbounded_channel();
    let mut inc_tx = Some(inc_tx);
    let (sig_tx, sig_rx) = oneshot::channel::<()>();
    let mut sig_tx = Some(sig_tx);
    let (keep_tx, keep_rx) = oneshot::channel::<()>(); // keeps an unfired signal pending for ever

    let mut builder = Server::builder();
    if sc.age {
        builder = builder.max_connection_age(AGE);
    }
    let router = builder.add_service(GateSvc { sh: sh.clone() });
    let incoming = Incoming(inc_rx);
    let shs = sh.clone();
    let graceful = sc.graceful;
    let sc_graceful = sc.graceful;
    let serve_task = tokio::spawn(async move {
        let r = if graceful {
            router
                .serve_with_incoming_shutdown(incoming, async move {
                    if sig_rx.await.is_err() {
                        let _ = keep_rx.await;
                        std::future::pending::<()>().await;
                    }
                })
                .await
        } else {
            drop(sig_rx);
            drop(keep_rx);
            router.serve_with_incoming(incoming).await
        };
        let mut g = shs.lock().unwrap();
        let (st, open) = (g.step, g.open);
        g.resolved = Some((st, open, r.is_ok()));
    });

    let mut channels: Vec<Option<tonic::transport::Channel>> = Vec::new();
    let mut call_tasks: Vec<(usize, tokio::task::JoinHandle<()>)> = Vec::new(); // (conn, task) by call index
    let mut req_tx: Vec<ReqTx> = Vec::new(); // request side of call k, while it is still open

    let mut t = 0usize; // time = number of quiescent points passed
    for step in sc.steps.iter() {
        sh.lock().unwrap().step = t;
        match step.op.clone() {
            Op::Conn => {
                let (cli, srv) = tokio::io::duplex(sc.buf);
                let id = {
                    let mut g = sh.lock().unwrap();
                    g.conns.push(ConnRec::default());
                    g.conns.len() - 1
                };
                if let Some(tx) = &inc_tx {
                    let _ = tx.send(Ok(SrvIo { inner: srv, id, sh: sh.clone() }));
                } else {
                    drop(srv);
                }
                let mut cli = Some(cli);
                let r = Endpoint::from_static("http://[::]:50051")
                    .connect_with_connector(tower::service_fn(move |_: Uri| {
                        let c = cli.take();
                        async move {
                            match c {
                                Some(c) => Ok(hyper_util::rt::TokioIo::new(c)),
                                None => Err(std::io::Error::other("connection already used")),
                            }
                        }
                    }))
                    .await;
                channels.push(r.ok());
            }
            Op::Unary(c, s) | Op::Stream(c, _, s) | Op::CStream(c, _, s) | Op::Bidi(c, _, _, s) => {
                let (kind, n, m) = match step.op {
                    Op::Stream(_, n, _) => (Kind::SStream, n, 0),
                    Op::CStream(_, m, _) => (Kind::CStream, if s == 0 { 1 } else { 0 }, m),
                    Op::Bidi(_, m, n, _) => (Kind::Bidi, n, m),
                    _ => (Kind::Unary, if s == 0 { 1 } else { 0 }, 0),
                };
                // request side of client-streaming / bidi calls: fed by the `M` steps
                let rx = if kind == Kind::CStream || kind == Kind::Bidi {
                    let (tx, rx) = mpsc::unbounded_channel::<Vec<u8>>();
                    req_tx.push(if m > 0 { Some((tx, 0usize, m)) } else { None });
                    Some(rx)
                } else {
                    req_tx.push(None);
                    None
                };
                let k = {
                    let mut g = sh.lock().unwrap();
                    g.calls.push(CallRec {
                        n,
                        m,
                        status: s,
                        kind,
                        gate: Arc::new(Semaphore::new(0)),
                        started: false,
                        hdr: None,
                        msgs: 0,
                        bad: false,
                        fin: None,
                        done_at: None,
                    });
                    g.calls.len() - 1
                };
                match channels[c].clone() {
                    Some(ch) => {
                        let h = tokio::spawn(client_call(sh.clone(), ch, k, rx));
                        call_tasks.push((c, h));
                    }
                    None => {
                        finish(&sh, k, "s14!".into());
                        call_tasks.push((c, tokio::spawn(async {})));
                    }
                }
            }
            Op::ReqMsg(k) => {
                send_req(&mut req_tx[k], k, sc.payload);
            }
            Op::Adv(k) => {
                let gate = sh.lock().unwrap().calls[k].gate.clone();
                gate.add_permits(1);
            }
            Op::Sig => {
                if let Some(tx) = sig_tx.take() {
                    let _ = tx.send(());
                }
            }
            Op::EndIncoming => {
                inc_tx = None;
            }
            Op::AcceptErr(recoverable) => {
                if let Some(tx) = &inc_tx {
                    let kind = if recoverable { std::io::ErrorKind::ConnectionReset } else { std::io::ErrorKind::Other };
                    let _ = tx.send(Err(std::io::Error::new(kind, "accept error")));
                }
            }
            Op::DropConn(c) => {
                for (k, (cc, h)) in call_tasks.iter().enumerate() {
                    if *cc == c {
                        h.abort();
                        // an abandoned call's request stream ends too (hyper owns it, not the
                        // aborted task): without this the stream - and the connection - stay up
                        req_tx[k] = None;
                    }
                }
                channels[c] = None;
            }
            Op::Cancel(k) => {
                call_tasks[k].1.abort();
                req_tx[k] = None;
            }
            Op::Wait(secs) => {
                tokio::time::sleep(Duration::from_secs(secs)).await;
            }
        }
        after_step(step.yields).await;
        if step.yields.is_none() {
            t += 1;
        }
    }
    let nsteps = t;
    // drain: every client completes its request stream, every handler runs freely
    sh.lock().unwrap().step = nsteps;
    for (k, slot) in req_tx.iter_mut().enumerate() {
        while slot.is_some() {
            send_req(slot, k, sc.payload);
        }
    }
    {
        let g = sh.lock().unwrap();
        for c in g.calls.iter() {
            c.gate.add_permits(1 << 20);
        }
    }
    settle().await;
    // every client goes away
    sh.lock().unwrap().step = nsteps + 1;
    for (_, h) in call_tasks.iter() {
        h.abort();
    }
    channels.clear();
    settle().await;
    sh.lock().unwrap().step = nsteps + 2;
    serve_task.abort();
    drop(inc_tx);
    drop(sig_tx);
    drop(keep_tx);
    settle().await;

    let g = sh.lock().unwrap();
    let idx = |o: Option<usize>| o.map(|v| v.to_string()).unwrap_or_else(|| "-".into());
    let mut out = Vec::new();
    match g.resolved {
        Some((st, open, ok)) if st <= nsteps + 1 => {
            // without a shutdown signal nothing is claimed about connections still open at that
            // instant (and the count depends on scheduling): not reported
            let open = if sc_graceful { open.to_string() } else { "*".to_string() };
            out.push(format!("R{}:{}:{}", st, open, if ok { "ok" } else { "err" }))
        }
        _ => out.push("R-:-:-".into()),
    }
    for (i, c) in g.conns.iter().enumerate() {
        let closed = c.closed_at.filter(|s| c.accepted && *s <= nsteps + 1);
        out.push(format!("c{}:{}:{}", i, c.accepted as u8, idx(closed)));
    }
    for (j, c) in g.calls.iter().enumerate() {
        let hdr = match c.hdr {
            None => "0",
            Some(true) => "1",
            Some(false) => "bad",
        };
        let msgs = if c.bad { "bad".to_string() } else { c.msgs.to_string() };
        let done = c.done_at.filter(|s| *s <= nsteps + 1);
        let fin = if done.is_some() { c.fin.clone().unwrap_or_else(|| "-".into()) } else { "-".into() };
        if !c.started && c.hdr.is_none() && c.msgs == 0 && !c.bad {
            // the server never saw the call: whatever local error (or nothing) the client got
            out.push(format!("k{}:0:0:0:ns:-", j));
        } else {
            out.push(format!("k{}:{}:{}:{}:{}:{}", j, c.started as u8, hdr, msgs, fin, idx(done)));
        }
    }
    out.join(" ")
}

pub fn execute(case: &str) -> String {
    let sc = match parse(case) {
        Some(s) => s,
        None => return "bad-case".into(),
    };
    let rt = paused_rt();
    rt.block_on(async move {
        match tokio::time::timeout(Duration::from_secs(1_000_000_000), run(sc)).await {
            Ok(s) => s,
            Err(_) => "hang".into(),
        }
    })
}

// ---------------------------------------------------------------- generators

const BUFS: [usize; 9] = [24, 25, 32, 33, 64, 100, 1024, 16384, 65536];
// payload sizes: around the gRPC prefix, the default h2 frame size (16384) and the default
// flow-control window (65535)
const PAYLOADS_SMALL: [usize; 6] = [0, 1, 10, 11, 300, 1000];
const PAYLOADS_BIG: [usize; 8] = [16379, 16380, 16384, 20000, 65530, 65535, 65536, 70000];
const CODES: [i32; 4] = [0, 0, 5, 13];

#[derive(Clone)]
struct GCall {
    /// handler phases needed / released so far
    phases: usize,
    released: usize,
    /// request messages the client has to send / has sent (client-streaming and bidi)
    req: usize,
    req_sent: usize,
}

#[derive(Clone)]
struct Gen {
    ops: Vec<String>,
    nconn: usize,
    calls: Vec<GCall>,
}

impl Gen {
    fn new() -> Self {
        Gen { ops: Vec::new(), nconn: 0, calls: Vec::new() }
    }
    fn conn(&mut self) -> usize {
        self.ops.push("C".into());
        self.nconn += 1;
        self.nconn - 1
    }
    fn push_call(&mut self, phases: usize, req: usize) -> usize {
        self.calls.push(GCall { phases, released: 0, req, req_sent: 0 });
        self.calls.len() - 1
    }
    fn unary(&mut self, c: usize, s: i32) -> usize {
        self.ops.push(format!("U{}:{}", c, s));
        self.push_call(1, 0)
    }
    fn stream(&mut self, c: usize, n: usize, s: i32) -> usize {
        self.ops.push(format!("S{}:{}:{}", c, n, s));
        self.push_call(n + 2, 0)
    }
    fn cstream(&mut self, c: usize, m: usize, s: i32) -> usize {
        self.ops.push(format!("Q{}:{}:{}", c, m, s));
        self.push_call(1, m)
    }
    fn bidi(&mut self, c: usize, m: usize, n: usize, s: i32) -> usize {
        self.ops.push(format!("B{}:{}:{}:{}", c, m, n, s));
        self.push_call(n + 2, m)
    }
    fn adv(&mut self, k: usize) {
        self.ops.push(format!("A{}", k));
        self.calls[k].released += 1;
    }
    fn reqmsg(&mut self, k: usize) {
        self.ops.push(format!("M{}", k));
        self.calls[k].req_sent += 1;
    }
    /// a call of a random shape on connection c
    fn any_call(&mut self, rng: &mut Rng, c: usize) -> usize {
        let s = *rng.pick(&CODES);
        let n = *rng.pick(&[0usize, 1, 2, 2, 3]);
        let m = *rng.pick(&[0usize, 1, 1, 2, 3]);
        match rng.below(6) {
            0 | 1 => self.unary(c, s),
            2 | 3 => self.stream(c, n, s),
            4 => self.cstream(c, m, s),
            _ => self.bidi(c, m, n.min(2), s),
        }
    }
    /// one more step of call k: a handler phase or a request message, whichever is still owed
    fn advance(&mut self, rng: &mut Rng, k: usize) {
        let c = &self.calls[k];
        let (can_a, can_m) = (c.released < c.phases, c.req_sent < c.req);
        if can_m && (!can_a || rng.chance(1, 2)) {
            self.reqmsg(k);
        } else if can_a {
            self.adv(k);
        }
    }
    fn unfinished(&self) -> Vec<usize> {
        (0..self.calls.len())
            .filter(|k| self.calls[*k].released < self.calls[*k].phases || self.calls[*k].req_sent < self.calls[*k].req)
            .collect()
    }
}

/// `class` only labels the generator stream in the evidence; it is not interpreted
fn header(class: &str, mode: &str, buf: usize, payload: usize, age: bool) -> String {
    format!("sc:{} {} b{} p{} a{}", class, mode, buf, payload, age as u8)
}

fn pick_sizes(rng: &mut Rng, ncalls: usize) -> (usize, usize) {
    let buf = *rng.pick(&BUFS);
    let payload = if ncalls <= 3 && rng.chance(1, 5) { *rng.pick(&PAYLOADS_BIG) } else { *rng.pick(&PAYLOADS_SMALL) };
    (buf, payload)
}

/// A random base scenario without any shutdown trigger: connections, calls, handler phases, in a
/// random interleaving; every op is one token.
fn base_scenario(rng: &mut Rng, max_conn: usize, max_calls: usize, finish: bool) -> Gen {
    let mut g = Gen::new();
    let nconn = rng.range(1, max_conn as u64) as usize;
    let ncalls = rng.range(1, max_calls as u64) as usize;
    g.conn();
    let mut issued = 0;
    let mut guard = 0;
    while guard < 200 {
        guard += 1;
        let unf = g.unfinished();
        let can_conn = g.nconn < nconn;
        let can_call = issued < ncalls;
        if !can_conn && !can_call && (unf.is_empty() || !finish && rng.chance(1, 4)) {
            break;
        }
        match rng.below(4) {
            0 if can_conn => {
                g.conn();
            }
            1 if can_call => {
                let c = rng.below(g.nconn as u64) as usize;
                g.any_call(rng, c);
                issued += 1;
            }
            _ => {
                if !unf.is_empty() {
                    let k = *rng.pick(&unf);
                    g.advance(rng, k);
                }
            }
        }
    }
    g
}

/// insert `tok` (possibly several tokens) at position `at`
fn insert_at(ops: &[String], at: usize, toks: &[String]) -> Vec<String> {
    let mut v = ops[..at].to_vec();
    v.extend_from_slice(toks);
    v.extend_from_slice(&ops[at..]);
    v
}

fn late_probe(nconn: usize) -> Vec<String> {
    // a connection offered after the signal, and a call on it
    vec!["C".into(), format!("U{}:0", nconn)]
}

/// mark some steps as non-quiescent (`~k`), never ones that need a quiescent state
fn add_races(ops: &[String], rng: &mut Rng, density: u64) -> Vec<String> {
    let needs_quiet = |t: &String| t.starts_with('D') || t.starts_with('X') || t.starts_with('W') || t == "T";
    let mut out = Vec::new();
    for (i, t) in ops.iter().enumerate() {
        let next_quiet = ops.get(i + 1).map(needs_quiet).unwrap_or(false);
        if !needs_quiet(t) && !next_quiet && rng.chance(density, 10) {
            let k = *rng.pick(&[0u64, 0, 0, 1, 1, 2, 5]);
            out.push(format!("{}~{}", t, k));
        } else {
            out.push(t.clone());
        }
    }
    out
}

fn corpus() -> Vec<String> {
    let mut out = Vec::new();
    // witnesses of the accept-after-signal race in the unrepaired accept loop (each is decided by
    // one coin of `select!`, hence the repetition over sizes)
    for b in BUFS {
        for k in [0, 0, 0] {
            out.push(format!("sc:corpus g b{} p10 a0 G~{} C", b, k));
            out.push(format!("sc:corpus g b{} p10 a0 C U0:0 G~{} C U1:0 A0", b, k));
            out.push(format!("sc:corpus g b{} p10 a0 G~0 C~0 C~0 C", b));
        }
    }
    for s in [
        "sc:corpus g b1024 p10 a0 C U0:0 G A0",
        "sc:corpus g b1024 p10 a0 C U0:0 A0 G",
        "sc:corpus g b1024 p10 a0 C G U0:0",
        "sc:corpus g b1024 p10 a0 C S0:2:0 A0 G A0 A0 A0",
        "sc:corpus g b1024 p10 a0 C S0:2:5 A0 A0 G A0 A0 C U1:0",
        "sc:corpus g b1024 p10 a0 C S0:2:0 A0 G C U1:0 A0 A0 A0",
        "sc:corpus g b1024 p10 a0 C C U0:0 U1:0 G A0 A1",
        "sc:corpus g b1024 p10 a0 C U0:0 E A0",
        "sc:corpus n b1024 p10 a0 C U0:0 E A0",
        "sc:corpus g b1024 p10 a0 C U0:0",
        "sc:corpus g b1024 p10 a0 C U0:0 D0 G",
        "sc:corpus g b1024 p10 a1 C U0:0 T C U0:0 U1:0 A0",
        // client-streaming and bidi calls in flight at the signal; the request body still being sent
        "sc:corpus g b1024 p10 a0 C Q0:2:0 M0 G M0 A0",
        "sc:corpus g b1024 p10 a0 C Q0:2:0 G M0 M0 A0",
        "sc:corpus g b1024 p10 a0 C Q0:2:5 M0 M0 G A0",
        "sc:corpus g b1024 p10 a0 C Q0:0:0 G A0",
        "sc:corpus g b1024 p10 a0 C Q0:1:0 A0 G M0",
        "sc:corpus g b1024 p10 a0 C Q0:3:0 M0 G",
        "sc:corpus g b1024 p10 a0 C B0:2:2:0 A0 M0 A0 G M0 A0 A0",
        "sc:corpus g b1024 p10 a0 C B0:1:1:13 G A0 A0 A0 M0",
        "sc:corpus g b1024 p10 a0 C B0:2:0:0 A0 A0 G M0 M0",
        "sc:corpus g b1024 p10 a0 C B0:0:3:0 A0 A0 G A0 A0 A0",
        "sc:corpus g b32 p70000 a0 C Q0:2:0 M0~0 G M0 A0",
        "sc:corpus g b32 p70000 a0 C B0:2:1:0 M0~0 M0~0 G A0 A0 A0",
        "sc:corpus g b64 p65536 a0 C U0:0~2 G A0",
        "sc:corpus g b1024 p10 a0 C Q0:2:0 M0 X0 G",
        "sc:corpus g b1024 p10 a0 C B0:2:1:0 A0 M0 D0 G",
        "sc:corpus n b1024 p10 a0 C Q0:1:0 B0:1:1:0 M0 A1 E M1 A0 A1 A1",
        // several calls on one connection, each in a different phase when the signal fires
        "sc:corpus g b1024 p10 a0 C U0:0 S0:2:0 Q0:2:0 B0:1:1:0 A1 A1 M2 A3 G A0 A1 M2 A2 M3 A3 A1 A3",
        "sc:corpus g b100 p300 a0 C S0:3:5 B0:2:2:0 Q0:1:13 U0:5 A0 A0 A1 M1 G M2 A2 A3 A0 A0 A0 M1 A1 A1 A1",
        // time passes (task: anything clock-dependent after the signal must get its chance)
        "sc:corpus g b1024 p10 a0 C U0:0 G W61 A0",
        "sc:corpus g b1024 p10 a0 C S0:2:0 A0 G T A0 A0 A0",
        "sc:corpus g b1024 p10 a1 C U0:0 G W61 A0",
        "sc:corpus g b1024 p10 a1 C W3599 U0:0 W1 C U0:0 U1:0 A0",
        "sc:corpus g b1024 p10 a1 C W3599 C W1 U0:0 U1:0 A0 W3599 U1:0",
        "sc:corpus g b1024 p10 a0 W7200 C U0:0 W61 G W61 A0 W61",
        "sc:corpus n b1024 p10 a0 C U0:0 W7200 A0 E W61",
        "sc:corpus g b1024 p10 a0 Io C Ir U0:0 G",
        "sc:corpus g b1024 p10 a0 C S0:2:0 A0 X0 G",
        "sc:corpus g b32 p70000 a0 C S0:2:0 U0:0 A0 A0 G A1 A0 A0",
        "sc:corpus g b1024 p10 a0 C U0:0~0 G A0",
        "sc:corpus g b1024 p10 a0 C~0 U0:0~0 G A0",
        "sc:corpus g b1024 p10 a0 C G~0 U0:0 A0",
        "sc:corpus g b24 p10 a0 C U0:0~0 G A0",
        "sc:corpus g b1024 p10 a0 G",
        "sc:corpus g b1024 p10 a0 E",
        "sc:corpus n b1024 p10 a0 E",
        "sc:corpus g b1024 p10 a0 G E G E C",
        "sc:corpus g b1024 p10 a0",
    ] {
        out.push(s.to_string());
    }
    out
}

/// amounts of virtual time for the `W` step: below / above any plausible drain or idle timeout,
/// and around max_connection_age (3600 s)
const WAITS: [u64; 10] = [1, 29, 31, 61, 61, 600, 3599, 3600, 3601, 7200];

fn wait_tok(rng: &mut Rng) -> String {
    format!("W{}", rng.pick(&WAITS))
}

/// "time passes" at up to `max` random places of a scenario (anywhere: before the first
/// connection, between the phases of calls in flight, after the signal, at the very end)
fn sprinkle_time(ops: &[String], rng: &mut Rng, max: u64) -> Vec<String> {
    let mut v = ops.to_vec();
    for _ in 0..rng.range(1, max) {
        let at = rng.range(0, v.len() as u64) as usize;
        let t = wait_tok(rng);
        v = insert_at(&v, at, &[t]);
    }
    v
}

/// the signal at every phase boundary of every call: all insertion points of `G` (and `E`, and a
/// time step) into a scenario whose handler phases are spelled out one per step
fn placements(out: &mut Vec<String>, rng: &mut Rng, g: &Gen, mode: &str, trig: &str, age: bool, probe: bool, races: u64) {
    let (buf, payload) = pick_sizes(rng, g.calls.len());
    let timed = !trig.starts_with('W') && trig != "T" && rng.chance(1, 2);
    for at in 0..=g.ops.len() {
        let mut ops = insert_at(&g.ops, at, &[trig.to_string()]);
        if probe {
            // the late connection goes in somewhere after the trigger
            // (after the last base connection, so that connection indices stay as they are)
            let last_c = ops.iter().rposition(|t| t == "C").map(|i| i + 1).unwrap_or(0);
            let lo = (at + 1).max(last_c);
            let pos = rng.range(lo as u64, ops.len() as u64) as usize;
            ops = insert_at(&ops, pos, &late_probe(g.nconn));
        }
        if timed {
            ops = sprinkle_time(&ops, rng, 2);
        }
        if races > 0 {
            ops = add_races(&ops, rng, races);
        }
        let tname = if trig.starts_with('W') { "W" } else { trig };
        let class = format!("place{}{}{}{}", tname, if mode == "n" { "-nosignal" } else { "" }, if races > 0 { "-race" } else { "" }, if timed { "-timed" } else { "" });
        out.push(format!("{} {}", header(&class, mode, buf, payload, age), ops.join(" ")));
    }
}

/// several calls on ONE connection, of all four shapes, each advanced to a different phase
/// (not started / headers sent / mid-stream / request half sent / answered), then the trigger,
/// then everything finishes in a random order
fn phases_scenario(rng: &mut Rng, ncalls: usize) -> (Gen, usize) {
    let mut g = Gen::new();
    let c = g.conn();
    for i in 0..ncalls {
        // make sure every shape occurs when there is room for it
        let s = *rng.pick(&CODES);
        match if ncalls >= 4 { i % 4 } else { rng.below(4) as usize } {
            0 => g.unary(c, s),
            1 => g.stream(c, *rng.pick(&[1usize, 2, 3]), s),
            2 => g.cstream(c, *rng.pick(&[1usize, 2, 3]), s),
            _ => g.bidi(c, *rng.pick(&[1usize, 2]), *rng.pick(&[1usize, 2]), s),
        };
    }
    // each call gets a random amount of progress
    for k in 0..ncalls {
        let total = g.calls[k].phases + g.calls[k].req;
        for _ in 0..rng.below(total as u64 + 1) {
            g.advance(rng, k);
        }
    }
    let at = g.ops.len();
    // … and the rest after the trigger, interleaved
    let mut guard = 0;
    while guard < 200 {
        guard += 1;
        let unf = g.unfinished();
        if unf.is_empty() {
            break;
        }
        let k = *rng.pick(&unf);
        g.advance(rng, k);
    }
    (g, at)
}

fn phases(out: &mut Vec<String>, rng: &mut Rng, n: usize) {
    for i in 0..n {
        let ncalls = rng.range(2, 5) as usize;
        let (g, at) = phases_scenario(rng, ncalls);
        let (buf, payload) = pick_sizes(rng, ncalls);
        let trig = if i % 5 == 4 { "E" } else { "G" };
        let mut ops = insert_at(&g.ops, at, &[trig.to_string()]);
        if rng.chance(1, 3) {
            ops = sprinkle_time(&ops, rng, 2);
        }
        let racy = rng.chance(1, 4);
        if racy {
            ops = add_races(&ops, rng, 2);
        }
        let class = format!("phases{}{}", trig, if racy { "-race" } else { "" });
        out.push(format!("{} {}", header(&class, "g", buf, payload, false), ops.join(" ")));
    }
}

fn structured(out: &mut Vec<String>, rng: &mut Rng, n: usize, max_conn: usize, max_calls: usize) {
    for i in 0..n {
        let finish = rng.chance(3, 4);
        let g = base_scenario(rng, max_conn, max_calls, finish);
        match i % 12 {
            // max_connection_age elapsing at every phase boundary (then the signal at the end)
            8 => placements(out, rng, &g, "g", "T", true, false, 0),
            9 => {
                let mut g2 = g.clone();
                g2.ops.push("G".into());
                placements(out, rng, &g2, "g", "T", true, false, 0)
            }
            // time passing at every phase boundary of a scenario that has the signal (or the end
            // of incoming) somewhere in it; max_connection_age configured or not
            10 | 11 => {
                let mut g2 = g.clone();
                let at = rng.range(0, g2.ops.len() as u64) as usize;
                let trig = if rng.chance(1, 5) { "E" } else { "G" };
                g2.ops = insert_at(&g2.ops, at, &[trig.to_string()]);
                let w = if rng.chance(1, 3) { "T".to_string() } else { wait_tok(rng) };
                let age = rng.chance(1, 3);
                placements(out, rng, &g2, "g", &w, age, false, 0)
            }
            0 | 1 => placements(out, rng, &g, "g", "G", false, true, 0),
            2 => placements(out, rng, &g, "g", "G", false, false, 0),
            3 => {
                let probe = rng.chance(1, 2);
                placements(out, rng, &g, "g", "E", false, probe, 0)
            }
            4 => placements(out, rng, &g, "n", "E", false, false, 0),
            5 | 6 => placements(out, rng, &g, "g", "G", false, true, 3),
            _ => placements(out, rng, &g, "g", "E", false, true, 2),
        }
    }
}

/// clients that leave or cancel, accept errors, connection age, repeated and useless operations
fn disturbed(out: &mut Vec<String>, rng: &mut Rng, n: usize, max_conn: usize, max_calls: usize) {
    for _ in 0..n {
        let finish = rng.chance(1, 2);
        let g = base_scenario(rng, max_conn, max_calls, finish);
        let age = rng.chance(1, 3);
        let mode = if rng.chance(1, 6) { "n" } else { "g" };
        let mut ops = g.ops.clone();
        let extra = rng.range(1, 5);
        for _ in 0..extra {
            let at = rng.range(0, ops.len() as u64) as usize;
            // how many connections / calls exist before position `at`
            let nc = ops[..at].iter().filter(|t| t.as_str() == "C").count();
            let nk = ops[..at].iter().filter(|t| ["U", "S", "Q", "B"].iter().any(|p| t.starts_with(p))).count();
            let tok: Option<String> = match rng.below(11) {
                10 if nk > 0 => Some(format!("M{}", rng.below(nk as u64))),
                0 | 1 => Some("G".into()),
                2 => Some("E".into()),
                3 if nc > 0 => Some(format!("D{}", rng.below(nc as u64))),
                4 if nk > 0 => Some(format!("X{}", rng.below(nk as u64))),
                5 => Some(if rng.chance(1, 3) { "T".into() } else { wait_tok(rng) }),
                6 => Some(if rng.chance(1, 2) { "Ir".into() } else { "Io".into() }),
                7 if nk > 0 => Some(format!("A{}", rng.below(nk as u64))),
                8 => Some("G".into()),
                _ => None,
            };
            if let Some(t) = tok {
                ops = insert_at(&ops, at, &[t]);
            }
        }
        if rng.chance(1, 3) {
            // a late connection and a call on it at the very end
            let nc = ops.iter().filter(|t| t.as_str() == "C").count();
            ops.extend(late_probe(nc));
        }
        let racy = rng.chance(1, 4);
        if racy {
            ops = add_races(&ops, rng, 2);
        }
        let (buf, payload) = pick_sizes(rng, g.calls.len());
        let class = format!("disturbed{}{}", if mode == "n" { "-nosignal" } else { "" }, if racy { "-race" } else { "" });
        out.push(format!("{} {}", header(&class, mode, buf, payload, age), ops.join(" ")));
    }
}

/// thorough tier: every scenario up to a length bound over a small alphabet (one connection
/// pre-offered or not, two calls at most)
fn exhaustive(out: &mut Vec<String>, max_len: usize) {
    let alphabet = ["C", "U", "S", "Q", "B", "A0", "A1", "M0", "M1", "G", "E", "D0", "X0", "W61"];
    fn rec(out: &mut Vec<String>, alphabet: &[&str], cur: &mut Vec<String>, nconn: usize, ncall: usize, left: usize) {
        if !cur.is_empty() {
            out.push(format!("sc:exhaustive g b1024 p10 a0 {}", cur.join(" ")));
        }
        if left == 0 {
            return;
        }
        for a in alphabet {
            let (tok, nc, nk) = match *a {
                "C" if nconn < 2 => ("C".to_string(), nconn + 1, ncall),
                "U" if nconn > 0 && ncall < 2 => (format!("U{}:0", nconn - 1), nconn, ncall + 1),
                "S" if nconn > 0 && ncall < 2 => (format!("S{}:1:5", nconn - 1), nconn, ncall + 1),
                "Q" if nconn > 0 && ncall < 2 => (format!("Q{}:1:0", nconn - 1), nconn, ncall + 1),
                "B" if nconn > 0 && ncall < 2 => (format!("B{}:1:0:0", nconn - 1), nconn, ncall + 1),
                "A0" if ncall > 0 => ("A0".to_string(), nconn, ncall),
                "A1" if ncall > 1 => ("A1".to_string(), nconn, ncall),
                "M0" if ncall > 0 && cur.iter().any(|t| t.starts_with('Q') || t.starts_with('B')) => ("M0".to_string(), nconn, ncall),
                "M1" if ncall > 1 && cur.iter().any(|t| t.starts_with('Q') || t.starts_with('B')) => ("M1".to_string(), nconn, ncall),
                "G" | "E" | "W61" => (a.to_string(), nconn, ncall),
                "D0" if nconn > 0 => ("D0".to_string(), nconn, ncall),
                "X0" if ncall > 0 => ("X0".to_string(), nconn, ncall),
                _ => continue,
            };
            cur.push(tok);
            rec(out, alphabet, cur, nc, nk, left - 1);
            cur.pop();
        }
    }
    let mut cur = Vec::new();
    rec(out, &alphabet, &mut cur, 0, 0, max_len);
}

/// the same scenarios with no quiescent point between steps: all `~0`, and a random mix
fn racy_variants(out: &mut Vec<String>, rng: &mut Rng, cases: &[String]) {
    for c in cases {
        let toks: Vec<&str> = c.split(' ').collect();
        let ops: Vec<String> = toks[5..].iter().map(|t| t.to_string()).collect();
        if ops.iter().any(|t| t.starts_with('D') || t.starts_with('X') || t.starts_with('W') || t == "T") {
            continue;
        }
        let all0: Vec<String> = ops.iter().map(|t| format!("{}~0", t)).collect();
        let buf = *rng.pick(&BUFS);
        out.push(format!("sc:exhaustive-race g b{} p10 a0 {}", buf, all0.join(" ")));
        let mixed = add_races(&ops, rng, 5);
        out.push(format!("sc:exhaustive-race g b{} p10 a0 {}", buf, mixed.join(" ")));
    }
}

pub fn generate(tier: &str, rng: &mut Rng) -> Vec<String> {
    let thorough = tier == "thorough";
    let mut out = corpus();
    if thorough {
        structured(&mut out, rng, 10000, 4, 6);
        phases(&mut out, rng, 20000);
        disturbed(&mut out, rng, 90000, 4, 6);
        exhaustive(&mut out, 6);
        // every scenario up to length 5 again, with every step / random steps non-quiescent
        let mut ex = Vec::new();
        exhaustive(&mut ex, 5);
        racy_variants(&mut out, rng, &ex);
    } else {
        structured(&mut out, rng, 160, 3, 4);
        phases(&mut out, rng, 300);
        disturbed(&mut out, rng, 800, 3, 4);
        exhaustive(&mut out, 4);
        let mut ex = Vec::new();
        exhaustive(&mut ex, 3);
        racy_variants(&mut out, rng, &ex);
    }
    out
}
