//! C10 dimension audit (aC10): `seq` cases.
//!
//! One router (`Routes::default()` + `add_service` in the order of the case, or the
//! `RoutesBuilder`), *several* requests, and three further dimensions the `call` / `plan` cases do
//! not drive:
//!
//! * **mode** — how the one value is used: `same` (the value itself, `ready().call()` again and
//!   again), `clones` (a fresh clone for every other request), `clone-used` (cloned after its
//!   first use, then both in turn), `oneshot-each`, `conc` (all calls made before the first answer
//!   is awaited, answers awaited in reverse order), `grow` / `grow-builder` (reconfigured after use:
//!   the first half of the services is registered, the router answers all the requests, a clone
//!   of it is kept, then the other half is added with `Routes::add_service` /
//!   `RoutesBuilder::from(routes).add_service` and the requests are asked again — the answers
//!   reported are those of the second round); or served by a real `transport::Server` over
//!   HTTP/2 on a duplex pipe: `srv` (one connection, sequential streams), `srv-conc` (concurrent
//!   streams), `srv-2conn` (one connection per request), `srv-direct`
//!   (`Server::serve_with_incoming(routes, …)` without a `Router`), and the server's own knobs and
//!   sibling layers: `srv-trace` (`trace_fn`: `Svc::call` takes the request apart and rebuilds
//!   it), `srv-timeout`, `srv-climit`, `srv-knobs` (all of them + the HTTP/2 settings),
//!   `srv-icept` / `srv-icept-fresh` / `srv-icept-uri` (`Server::layer(InterceptorLayer)`: the
//!   interceptor sits in FRONT of the router and hands back the request / a fresh request / a
//!   request with an `http::Uri` of its own in the extensions), `srv-stack` (a
//!   `tower::ServiceBuilder` stack of three interceptor layers), `srv-web`
//!   (`accept_http1(true).layer(GrpcWebLayer)`, plain gRPC requests pass through),
//!   `srv-h1` (`accept_http1(true)` and the client speaks HTTP/1.1).
//! * **ctor** — how every generated server is made / wrapped: the eight `Wrap`s of the pool, the
//!   generated `XServer::with_interceptor` (pass-through / fresh request), `from_arc`, the
//!   compression and size-limit setters, a clone of a dropped original.
//! * **generator switches** — the second pool (`XPOOL`, see `build.rs`): servers generated with
//!   `use_arc_self`, `generate_default_stubs`, `compile_well_known_types` + `disable_comments`,
//!   `emit_package(false)` combined with both, and a service WITHOUT methods.
//! * **flavor** of each request — HTTP method, HTTP/1.1 as the request's version, content-type
//!   (`application/grpc+proto`, `application/json`, none), no `te`, misleading extra headers
//!   (`x-forwarded-uri`, `x-original-url`, `x-http-method-override`, `grpc-method`), another
//!   authority.  None of these may matter.
//!
//! Which handler answered a request is read from the response message (`resp_code`: service,
//! method, and the request's payload length = its position in the sequence) and cross-checked
//! with the handlers' own record; a disagreement is reported as `multiple`.
use super::pool::{self, Built, Ev, Handler, Reg, Wrap, POOL};
use crate::common::*;
use bytes::Bytes;
use http_body_util::{BodyExt, Full};
use std::convert::Infallible;
use std::task::{Context, Poll};
use std::time::Duration;
use tonic::body::Body;
use tonic::server::NamedService;
use tower::{Service, ServiceExt};

pub mod xpool {
    include!(concat!(env!("OUT_DIR"), "/c10x_pool.rs"));
}
use xpool::XPOOL;

/// NAME-forwarding adapter that only re-boxes the response body (`InterceptedService` answers
/// with `ResponseBody<_>`; the pool's registration helper wants `tonic::body::Body`).
#[derive(Clone)]
pub struct Rebox<S>(S);

impl<S: NamedService> NamedService for Rebox<S> {
    const NAME: &'static str = S::NAME;
}

impl<S, RB> Service<http::Request<Body>> for Rebox<S>
where
    S: Service<http::Request<Body>, Response = http::Response<RB>, Error = Infallible>,
    S::Future: Send + 'static,
    RB: http_body::Body<Data = Bytes> + Send + 'static,
    RB::Error: Into<Box<dyn std::error::Error + Send + Sync>>,
{
    type Response = http::Response<Body>;
    type Error = Infallible;
    type Future = std::pin::Pin<Box<dyn std::future::Future<Output = Result<Self::Response, Infallible>> + Send>>;
    fn poll_ready(&mut self, cx: &mut Context<'_>) -> Poll<Result<(), Infallible>> {
        self.0.poll_ready(cx)
    }
    fn call(&mut self, req: http::Request<Body>) -> Self::Future {
        let f = self.0.call(req);
        Box::pin(async move { f.await.map(|r| r.map(Body::new)) })
    }
}

pub fn add_boxed<S, RB>(reg: &mut Reg, svc: S, i: usize, h: Handler)
where
    S: Service<http::Request<Body>, Response = http::Response<RB>, Error = Infallible> + NamedService + Clone + Send + Sync + 'static,
    S::Future: Send + 'static,
    RB: http_body::Body<Data = Bytes> + Send + 'static,
    RB::Error: Into<Box<dyn std::error::Error + Send + Sync>>,
{
    pool::add_wrapped(reg, Rebox(svc), i, Wrap::Probe, h)
}

// ---------------------------------------------------------------- the two pools as one index space

pub fn n_all() -> usize {
    POOL.len() + XPOOL.len()
}

pub fn g_name(g: usize) -> String {
    if g < POOL.len() {
        return super::full_name(g);
    }
    let (pkg, name, _, emit) = XPOOL[g - POOL.len()];
    if pkg.is_empty() || !emit {
        name.to_string()
    } else {
        format!("{pkg}.{name}")
    }
}

pub fn g_methods(g: usize) -> &'static [(&'static str, u8)] {
    if g < POOL.len() {
        POOL[g].2
    } else {
        XPOOL[g - POOL.len()].2
    }
}

fn g_block(g: usize) -> String {
    let ms = g_methods(g);
    let mut s = format!("{} {} {}", g, g_name(g), ms.len());
    for (r, _) in ms.iter() {
        s.push(' ');
        s.push_str(r);
    }
    s
}

pub type Req3 = (String, Vec<u8>, Option<Vec<u8>>);

pub fn seq_line(mode: &str, ctor: &str, reg: &[usize], reqs: &[Req3]) -> String {
    let mut s = format!("seq {} {} {}", mode, ctor, reg.len());
    for &g in reg {
        s.push(' ');
        s.push_str(&g_block(g));
    }
    s.push_str(&format!(" {}", reqs.len()));
    for (f, p, q) in reqs {
        s.push_str(&format!(" {} {} ", f, hex(p)));
        match q {
            Some(q) => s.push_str(&hex(q)),
            None => s.push('-'),
        }
    }
    s
}

const MODES_LOCAL: [&str; 7] = ["same", "clones", "clone-used", "oneshot-each", "conc", "grow", "grow-builder"];
const MODES_SRV: [&str; 14] = [
    "srv", "srv-conc", "srv-2conn", "srv-direct", "srv-trace", "srv-timeout", "srv-climit", "srv-knobs", "srv-icept", "srv-icept-fresh",
    "srv-icept-uri", "srv-stack", "srv-web", "srv-h1",
];
const NEW_CTORS: [&str; 5] = ["with-icept", "with-icept-fresh", "from-arc", "configured", "cloned"];
const CTORS: [&str; 13] = [
    "probe", "icept", "layer", "both", "icept-fresh", "icept-clear", "icept-uri", "icept-meta", "with-icept", "with-icept-fresh", "from-arc",
    "configured", "cloned",
];
const FLAVORS: [&str; 19] = ["POST", "POST", "POST", "POST", "GET", "PUT", "OPTIONS", "HEAD", "DELETE", "PATCH", "TRACE", "CONNECT", "v11", "ct-proto", "ct-json", "ct-none", "hdr", "auth", "no-te"];

/// does `http::Uri` take the target and split it so that `path()` is the path under test?
fn uri_ok(path: &[u8], query: Option<&[u8]>) -> bool {
    for pre in [&b""[..], &b"http://h"[..]] {
        let mut t = pre.to_vec();
        t.extend_from_slice(path);
        if let Some(q) = query {
            t.push(b'?');
            t.extend_from_slice(q);
        }
        match http::Uri::try_from(t.as_slice()) {
            Ok(u) if u.path().as_bytes() == path => {}
            _ => return false,
        }
    }
    true
}

fn r(f: &str, p: &str) -> Req3 {
    (f.to_string(), p.as_bytes().to_vec(), None)
}

pub fn generate(thorough: bool, rng: &mut Rng) -> Vec<String> {
    let n = n_all();
    let all: Vec<usize> = (0..n).collect();
    let mut rev = all.clone();
    rev.reverse();
    let mut out = Vec::new();

    // ---- corpus: sequences in which an earlier request could colour a later one, every mode
    let seqs: [&[&str]; 4] = [
        &["/a.S/M", "/a.Sv/M", "/a.S/Nope", "/a.S/M", "/nope/M", "/a.S.x/M", "/a.S/Mx", "/x.Empty/M", "/x.Ark/M"],
        &["/a.S/Nope", "/a.S/M", "/a.S/M", "/S/M", "/s/M", "/S/Get", "/s/Get"],
        &["/nope/M", "/a.S/", "/a.S/M", "/a.S/M/", "/a.S/M", "/A.S/M", "/a.S/m"],
        &["/x.Ark/BD", "/x.Arks/M", "/x.Ark/m", "/x.Arks/m", "/M/M", "/x.Ark.M/M", "/x.Stub/N", "/x.Empty/", "/x.Empty/x/y", "/x.Stub/M"],
    ];
    for (mi, mode) in MODES_LOCAL.iter().chain(MODES_SRV.iter()).enumerate() {
        for (si, s) in seqs.iter().enumerate() {
            // (over HTTP/1.1 tonic's answers carry no trailers: see `h1_ok`)
            let reqs: Vec<Req3> = s.iter().map(|p| r("POST", p)).filter(|q| *mode != "srv-h1" || h1_ok(&all, &q.1)).collect();
            out.push(seq_line(mode, "probe", if (mi + si) % 2 == 0 { &all } else { &rev }, &reqs));
        }
    }

    // ---- every mode: the fixed mutation classes of one exact path as ONE history (so that every
    // server configuration / layer / way of using the value sees a trailing slash, an empty
    // segment, a case change, an escape, a prefix …), exact path first, last and in between
    for (mi, mode) in MODES_LOCAL.iter().chain(MODES_SRV.iter()).enumerate() {
        let (g, m) = [(0usize, "M"), (3, "Get"), (8, "Do")][mi % 3];
        let name = g_name(g);
        let exact = r("POST", &format!("/{name}/{m}"));
        let mut reqs: Vec<Req3> = vec![exact.clone()];
        for (k, p) in super::mutations(rng, &name, m).into_iter().take(35).enumerate() {
            if uri_ok(&p, None) {
                reqs.push(("POST".into(), p, None));
            }
            if k % 12 == 11 {
                reqs.push(exact.clone());
            }
        }
        reqs.push(exact);
        reqs.retain(|q| *mode != "srv-h1" || h1_ok(&all, &q.1));
        out.push(seq_line(mode, CTORS[mi % CTORS.len()], if mi % 2 == 0 { &all } else { &rev }, &reqs));
    }

    // ---- the second pool: every declared method and its mutations (one request each)
    for xi in 0..XPOOL.len() {
        let g = POOL.len() + xi;
        let name = g_name(g);
        let ms: Vec<&str> = if g_methods(g).is_empty() { vec!["M"] } else { g_methods(g).iter().map(|m| m.0).collect() };
        for m in ms {
            for (k, p) in super::mutations(rng, &name, m).into_iter().enumerate() {
                if !thorough && k >= 36 && !rng.chance(1, 4) {
                    continue;
                }
                let ctor = Wrap::ALL[(xi + k) % 4].token();
                let mode = MODES_LOCAL[k % MODES_LOCAL.len()];
                out.push(seq_line(mode, ctor, if k % 2 == 0 { &all } else { &rev }, &[("POST".into(), p, None)]));
            }
        }
    }

    // ---- the other constructors of the first pool's servers: every method, an unknown one, mutations
    for g in 0..POOL.len() {
        for (ci, ctor) in NEW_CTORS.iter().enumerate() {
            let name = g_name(g);
            let mut reqs: Vec<Req3> = Vec::new();
            for (m, _) in g_methods(g) {
                reqs.push(r("POST", &format!("/{name}/{m}")));
            }
            reqs.push(r("POST", &format!("/{name}/Nope")));
            let (m, _) = *rng.pick(g_methods(g));
            let muts = super::mutations(rng, &name, m);
            for _ in 0..3 {
                let p = rng.pick(&muts).clone();
                if uri_ok(&p, None) {
                    reqs.push(("POST".into(), p, None));
                }
            }
            let other = (g + 1 + ci) % POOL.len();
            reqs.push(r("POST", &format!("/{}/{}", g_name(other), g_methods(other)[0].0)));
            let mode = if (g + ci) % 4 == 3 { MODES_SRV[(g + ci) % 13] } else { MODES_LOCAL[(g + ci) % MODES_LOCAL.len()] };
            out.push(seq_line(mode, ctor, if ci % 2 == 0 { &all } else { &rev }, &reqs));
            out.push(seq_line("same", ctor, &[g, other], &reqs));
        }
    }

    // ---- random: registries, orders, modes, constructors, sequences, flavors
    let nrand = if thorough { 20000 } else { 700 };
    for _ in 0..nrand {
        let k = 1 + rng.below(n as u64) as usize;
        let mut order = all.clone();
        for x in (1..order.len()).rev() {
            let y = rng.below(x as u64 + 1) as usize;
            order.swap(x, y);
        }
        let (regd, rest) = order.split_at(k);
        let mode = if rng.chance(3, 5) { *rng.pick(&MODES_LOCAL) } else { *rng.pick(&MODES_SRV) };
        let ctor = *rng.pick(&CTORS);
        let nreq = 1 + rng.below(6) as usize;
        let mut reqs: Vec<Req3> = Vec::new();
        while reqs.len() < nreq {
            let path: Vec<u8> = match rng.below(20) {
                0..=7 => {
                    let g = *rng.pick(regd);
                    match g_methods(g) {
                        [] => format!("/{}/M", g_name(g)).into_bytes(),
                        ms => format!("/{}/{}", g_name(g), rng.pick(ms).0).into_bytes(),
                    }
                }
                8..=14 => {
                    let g = *rng.pick(&order);
                    let m = g_methods(g).first().map(|m| m.0).unwrap_or("M");
                    let m = if rng.chance(1, 2) { m } else { g_methods(g).last().map(|m| m.0).unwrap_or("M") };
                    let muts = super::mutations(rng, &g_name(g), m);
                    rng.pick(&muts).clone()
                }
                15 | 16 if !rest.is_empty() => {
                    let g = *rng.pick(rest);
                    format!("/{}/{}", g_name(g), g_methods(g).first().map(|m| m.0).unwrap_or("M")).into_bytes()
                }
                _ => super::arbitrary_path(rng),
            };
            let query: Option<Vec<u8>> = match rng.below(10) {
                0 => Some(b"x=1".to_vec()),
                1 => Some(b"/a.S/M".to_vec()),
                _ => None,
            };
            if !uri_ok(&path, query.as_deref()) {
                continue;
            }
            if mode == "srv-h1" && !h1_ok(regd, &path) {
                continue;
            }
            reqs.push((rng.pick(&FLAVORS).to_string(), path, query));
        }
        out.push(seq_line(mode, ctor, regd, &reqs));
    }
    out
}

/// Over HTTP/1.1 hyper sends no trailers unless the response announces them, which tonic does
/// not: a handler's answer arrives without its grpc-status (gRPC proper needs HTTP/2).  The
/// `srv-h1` cases therefore ask only for paths that name no registered method — the
/// "never reaches a handler, UNIMPLEMENTED" half (trailers-only answers), where a path
/// normalisation on the HTTP/1 side would show.
fn h1_ok(regd: &[usize], path: &[u8]) -> bool {
    !regd.iter().any(|&g| g_methods(g).iter().any(|(m, _)| format!("/{}/{}", g_name(g), m).as_bytes() == path))
}

// ---------------------------------------------------------------- executor

struct Parsed {
    mode: String,
    ctor: String,
    reg: Vec<usize>,
    reqs: Vec<Req3>,
}

fn parse(case: &str) -> Option<Parsed> {
    let t: Vec<&str> = case.split(' ').collect();
    if t.len() < 5 || t[0] != "seq" {
        return None;
    }
    let (mode, ctor) = (t[1].to_string(), t[2].to_string());
    let n: usize = t[3].parse().ok()?;
    let mut pos = 4;
    let mut reg = Vec::new();
    for _ in 0..n {
        let g: usize = t.get(pos)?.parse().ok()?;
        if g >= n_all() || *t.get(pos + 1)? != g_name(g) {
            return None;
        }
        let k: usize = t.get(pos + 2)?.parse().ok()?;
        let ms = g_methods(g);
        if k != ms.len() {
            return None;
        }
        for j in 0..k {
            if *t.get(pos + 3 + j)? != ms[j].0 {
                return None;
            }
        }
        reg.push(g);
        pos += 3 + k;
    }
    let nr: usize = t.get(pos)?.parse().ok()?;
    pos += 1;
    if t.len() != pos + 3 * nr || nr > 90 {
        return None;
    }
    let mut reqs = Vec::new();
    for k in 0..nr {
        let f = t[pos + 3 * k].to_string();
        let p = unhex(t[pos + 3 * k + 1])?;
        let q = if t[pos + 3 * k + 2] == "-" { None } else { Some(unhex(t[pos + 3 * k + 2])?) };
        reqs.push((f, p, q));
    }
    Some(Parsed { mode, ctor, reg, reqs })
}

fn register(reg: &mut Reg, g: usize, ctor: &str, h: &Handler) -> Option<()> {
    if g >= POOL.len() {
        // (the rewriting wraps and the other constructors are generated for the first pool only)
        let w = Wrap::parse(ctor).filter(|w| Wrap::ALL.contains(w)).unwrap_or(Wrap::Probe);
        xpool::add_x(reg, g - POOL.len(), w, h.clone());
    } else if let Some(w) = Wrap::parse(ctor) {
        pool::add(reg, g, w, h.clone());
    } else if NEW_CTORS.contains(&ctor) {
        xpool::add_ctor(reg, g, ctor, h.clone());
    } else {
        return None;
    }
    Some(())
}

type HReq = http::Request<Full<Bytes>>;

fn build_req(flavor: &str, absolute: bool, h1: bool, idx: usize, path: &[u8], query: Option<&[u8]>) -> Result<HReq, String> {
    let mut target: Vec<u8> = if flavor == "auth" && !h1 {
        b"http://a.S".to_vec()
    } else if absolute {
        b"http://h".to_vec()
    } else {
        Vec::new()
    };
    target.extend_from_slice(path);
    if let Some(q) = query {
        target.push(b'?');
        target.extend_from_slice(q);
    }
    let uri = http::Uri::try_from(target.as_slice()).map_err(|_| "not-a-uri".to_string())?;
    if uri.path().as_bytes() != path {
        return Err("uri-path-differs".into());
    }
    let method = match flavor {
        // (through a real HTTP client a HEAD answer has no body or trailers to read and CONNECT
        // takes no request body: in-process only)
        "HEAD" | "CONNECT" if absolute || h1 => http::Method::POST,
        "GET" | "PUT" | "OPTIONS" | "DELETE" | "PATCH" | "HEAD" | "TRACE" | "CONNECT" => http::Method::from_bytes(flavor.as_bytes()).unwrap(),
        _ => http::Method::POST,
    };
    let version = if h1 || (flavor == "v11" && !absolute) { http::Version::HTTP_11 } else { http::Version::HTTP_2 };
    let mut b = http::Request::builder().method(method).uri(uri).version(version);
    match flavor {
        "ct-proto" => b = b.header("content-type", "application/grpc+proto"),
        "ct-json" => b = b.header("content-type", "application/json"),
        "ct-none" => {}
        _ => b = b.header("content-type", "application/grpc"),
    }
    if flavor != "no-te" {
        b = b.header("te", "trailers");
    }
    if h1 {
        b = b.header("host", "h");
    }
    if flavor == "hdr" {
        b = b
            .header("x-forwarded-uri", "/a.S/M")
            .header("x-original-url", "/a.Sv/M")
            .header("x-http-method-override", "GET")
            .header("grpc-method", "/S/M")
            .header("x-envoy-original-path", "/a.S/Mx");
    }
    // the request message: a string of `idx` bytes (prost `String` = field 1 of a wrapper message)
    let mut frame = vec![0u8, 0, 0, 0, 0];
    if idx > 0 {
        frame.extend_from_slice(&[0x0a, idx as u8]);
        frame.extend(std::iter::repeat(b'a').take(idx));
    }
    let len = (frame.len() - 5) as u32;
    frame[1..5].copy_from_slice(&len.to_be_bytes());
    b.body(Full::new(Bytes::from(frame))).map_err(|_| "bad-case".to_string())
}

struct Rec {
    /// (service, method, payload length) read from the first response message
    answered: Option<(usize, usize, usize)>,
    status: String,
    http: u16,
    ct: String,
}

async fn read_response<B>(res: http::Response<B>) -> Rec
where
    B: http_body::Body<Data = Bytes>,
{
    let (parts, body) = res.into_parts();
    let collected = body.collect().await.ok();
    let trailers = collected.as_ref().and_then(|c| c.trailers().cloned());
    let bytes = collected.map(|c| c.to_bytes()).unwrap_or_default();
    let status = parts
        .headers
        .get("grpc-status")
        .or_else(|| trailers.as_ref().and_then(|t| t.get("grpc-status")))
        .and_then(|v| v.to_str().ok())
        .map(|s| s.to_string())
        .unwrap_or_else(|| "none".into());
    let ct = match parts.headers.get("content-type").map(|v| v.to_str()) {
        None => "none".to_string(),
        Some(Ok(s)) if !s.is_empty() && !s.contains(' ') => s.to_string(),
        Some(_) => "unprintable".to_string(),
    };
    let mut answered = None;
    if bytes.len() >= 5 && bytes[0] == 0 {
        let len = u32::from_be_bytes([bytes[1], bytes[2], bytes[3], bytes[4]]) as usize;
        if bytes.len() >= 5 + len {
            let p = &bytes[5..5 + len];
            let mut v: u64 = 0;
            let mut ok = p.is_empty();
            if p.len() >= 2 && p[0] == 0x08 {
                let mut shift = 0;
                for &b in &p[1..] {
                    v |= ((b & 0x7f) as u64) << shift;
                    shift += 7;
                    if b & 0x80 == 0 {
                        ok = true;
                        break;
                    }
                }
            }
            if ok {
                let v = (v % 1_000_000) as usize;
                answered = Some((v / 10000, (v % 10000) / 100, v % 100));
            }
        }
    }
    Rec { answered, status, http: parts.status.as_u16(), ct }
}

macro_rules! spawn_server {
    ($server:expr, $routes:expr, $incoming:expr, $direct:expr) => {{
        let mut s = $server;
        let routes = $routes;
        let incoming = $incoming;
        if $direct {
            tokio::spawn(async move {
                let _ = s.serve_with_incoming(routes, incoming).await;
            });
        } else {
            let router = s.add_routes(routes);
            tokio::spawn(async move {
                let _ = router.serve_with_incoming(incoming).await;
            });
        }
    }};
}

fn icept_pass(r: tonic::Request<()>) -> Result<tonic::Request<()>, tonic::Status> {
    Ok(r)
}
fn icept_fresh(_r: tonic::Request<()>) -> Result<tonic::Request<()>, tonic::Status> {
    Ok(tonic::Request::new(()))
}
fn icept_uri(mut r: tonic::Request<()>) -> Result<tonic::Request<()>, tonic::Status> {
    r.extensions_mut().insert(http::Uri::from_static("/a.S/M"));
    r.extensions_mut().insert(http::Method::GET);
    r.metadata_mut().insert("x-forwarded-uri", "/a.Sv/M".parse().unwrap());
    Ok(r)
}

async fn run_local(mode: &str, mut routes: tonic::service::Routes, reqs: Vec<HReq>) -> Vec<Rec> {
    let mut recs = Vec::new();
    match mode {
        "conc" => {
            let mut futs = Vec::new();
            for req in reqs {
                ServiceExt::<HReq>::ready(&mut routes).await.unwrap();
                futs.push(Some(routes.call(req)));
            }
            let mut res: Vec<Option<Rec>> = futs.iter().map(|_| None).collect();
            for k in (0..futs.len()).rev() {
                let f = futs[k].take().unwrap();
                res[k] = Some(read_response(f.await.unwrap()).await);
            }
            recs.extend(res.into_iter().map(|x| x.unwrap()));
        }
        _ => {
            let mut clone_used: Option<tonic::service::Routes> = None;
            for (k, req) in reqs.into_iter().enumerate() {
                let res = match mode {
                    "clones" if k % 2 == 0 => {
                        let mut c = routes.clone();
                        ServiceExt::<HReq>::ready(&mut c).await.unwrap().call(req).await.unwrap()
                    }
                    "clone-used" if k > 0 && k % 2 == 1 => {
                        let c = clone_used.get_or_insert_with(|| routes.clone());
                        ServiceExt::<HReq>::ready(c).await.unwrap().call(req).await.unwrap()
                    }
                    "oneshot-each" => routes.clone().oneshot(req).await.unwrap(),
                    _ => {
                        let res = ServiceExt::<HReq>::ready(&mut routes).await.unwrap().call(req).await.unwrap();
                        if mode == "clone-used" && clone_used.is_none() {
                            clone_used = Some(routes.clone());
                        }
                        res
                    }
                };
                recs.push(read_response(res).await);
            }
        }
    }
    recs
}

async fn run_server(mode: &str, routes: tonic::service::Routes, reqs: Vec<HReq>) -> Result<Vec<Rec>, String> {
    use tonic::service::InterceptorLayer;
    use tonic::transport::Server;
    let nconn = if mode == "srv-2conn" { reqs.len().max(1) } else { 1 };
    let mut cios = Vec::new();
    let mut sios = Vec::new();
    for _ in 0..nconn {
        let (c, s) = tokio::io::duplex(1 << 16);
        cios.push(c);
        sios.push(Ok::<_, std::io::Error>(s));
    }
    let incoming = tokio_stream::StreamExt::chain(tokio_stream::iter(sios), tokio_stream::pending());
    let hour = Duration::from_secs(3600);
    match mode {
        "srv" | "srv-conc" | "srv-2conn" => spawn_server!(Server::builder(), routes, incoming, false),
        "srv-direct" => spawn_server!(Server::builder(), routes, incoming, true),
        "srv-trace" => spawn_server!(Server::builder().trace_fn(|_| tracing::Span::none()), routes, incoming, false),
        "srv-timeout" => spawn_server!(Server::builder().timeout(hour), routes, incoming, false),
        "srv-climit" => spawn_server!(Server::builder().concurrency_limit_per_connection(1), routes, incoming, false),
        "srv-knobs" => spawn_server!(
            Server::builder()
                .trace_fn(|_| tracing::Span::none())
                .timeout(hour)
                .concurrency_limit_per_connection(2)
                .max_concurrent_streams(8)
                .initial_stream_window_size(1 << 16)
                .initial_connection_window_size(1 << 17)
                .http2_keepalive_interval(Some(hour))
                .http2_keepalive_timeout(Some(hour))
                .http2_adaptive_window(Some(true))
                .http2_max_pending_accept_reset_streams(Some(4))
                .http2_max_header_list_size(1 << 14)
                .max_frame_size(Some(1 << 14))
                .max_connection_age(hour)
                .tcp_nodelay(true)
                .accept_http1(true),
            routes,
            incoming,
            false
        ),
        "srv-icept" => spawn_server!(Server::builder().layer(InterceptorLayer::new(icept_pass)), routes, incoming, false),
        "srv-icept-fresh" => spawn_server!(Server::builder().layer(InterceptorLayer::new(icept_fresh)), routes, incoming, false),
        "srv-icept-uri" => spawn_server!(Server::builder().layer(InterceptorLayer::new(icept_uri)), routes, incoming, true),
        "srv-stack" => spawn_server!(
            Server::builder()
                .layer(tower::ServiceBuilder::new().layer(InterceptorLayer::new(icept_pass)).layer(InterceptorLayer::new(icept_fresh)).into_inner())
                .layer(InterceptorLayer::new(icept_uri)),
            routes,
            incoming,
            false
        ),
        "srv-web" => spawn_server!(Server::builder().accept_http1(true).layer(tonic_web::GrpcWebLayer::new()), routes, incoming, false),
        "srv-h1" => spawn_server!(Server::builder().accept_http1(true), routes, incoming, false),
        _ => return Err("bad-case".into()),
    }
    let mut recs = Vec::new();
    if mode == "srv-h1" {
        let (mut send, conn) = hyper::client::conn::http1::handshake(hyper_util::rt::TokioIo::new(cios.remove(0)))
            .await
            .map_err(|e| format!("handshake:{e}").replace(' ', "_"))?;
        tokio::spawn(async move {
            let _ = conn.await;
        });
        for req in reqs {
            send.ready().await.map_err(|e| format!("transport-refused:{e:?}").replace(' ', "_"))?;
            let res = send.send_request(req).await.map_err(|e| format!("transport-refused:{e:?}").replace(' ', "_"))?;
            recs.push(read_response(res).await);
        }
        return Ok(recs);
    }
    let mut sends = Vec::new();
    for cio in cios {
        let (send, conn) = hyper::client::conn::http2::handshake(hyper_util::rt::TokioExecutor::new(), hyper_util::rt::TokioIo::new(cio))
            .await
            .map_err(|e| format!("handshake:{e}").replace(' ', "_"))?;
        tokio::spawn(async move {
            let _ = conn.await;
        });
        sends.push(send);
    }
    if mode == "srv-conc" {
        let mut futs = Vec::new();
        for req in reqs {
            let mut s = sends[0].clone();
            futs.push(tokio::spawn(async move { s.send_request(req).await }));
        }
        let mut res: Vec<Option<Rec>> = futs.iter().map(|_| None).collect();
        for (k, f) in futs.into_iter().enumerate().rev() {
            let r = f.await.map_err(|_| "panic".to_string())?.map_err(|e| format!("transport-refused:{e:?}").replace(' ', "_"))?;
            res[k] = Some(read_response(r).await);
        }
        recs.extend(res.into_iter().map(|x| x.unwrap()));
    } else {
        for (k, req) in reqs.into_iter().enumerate() {
            let s = if mode == "srv-2conn" { &mut sends[k] } else { &mut sends[0] };
            let res = s.send_request(req).await.map_err(|e| format!("transport-refused:{e:?}").replace(' ', "_"))?;
            recs.push(read_response(res).await);
        }
    }
    Ok(recs)
}

pub fn execute(case: &str) -> String {
    let Some(p) = parse(case) else { return "bad-case".into() };
    let h = Handler::default();
    let mut reg = match Reg::new(if p.reg.len() % 2 == 0 { "routes" } else { "builder" }) {
        Some(r) => r,
        None => return "bad-case".into(),
    };
    let first_round = if p.mode.starts_with("grow") { p.reg.len() / 2 } else { p.reg.len() };
    for &g in &p.reg[..first_round] {
        if register(&mut reg, g, &p.ctor, &h).is_none() {
            return "bad-case".into();
        }
    }
    let Built::Routes(mut routes) = reg.finish() else { return "bad-case".into() };
    let server = p.mode.starts_with("srv");
    let grow = p.mode.starts_with("grow");
    let mut reqs = Vec::new();
    for (k, (f, path, q)) in p.reqs.iter().enumerate() {
        match build_req(f, server && p.mode != "srv-h1", p.mode == "srv-h1", k, path, q.as_deref()) {
            Ok(r) => reqs.push(r),
            Err(e) => return e,
        }
    }
    let rt = tokio::runtime::Builder::new_current_thread().enable_all().build().unwrap();
    let mut kept: Option<tonic::service::Routes> = None;
    if grow {
        // round one on the half-built router (answers not reported), then reconfigure it
        let mut round1 = Vec::new();
        for (k, (f, path, q)) in p.reqs.iter().enumerate() {
            match build_req(f, false, false, k, path, q.as_deref()) {
                Ok(r) => round1.push(r),
                Err(e) => return e,
            }
        }
        // (on the value itself, not on a clone: it is this value that is reconfigured afterwards)
        rt.block_on(async {
            for req in round1 {
                let res = ServiceExt::<HReq>::ready(&mut routes).await.unwrap().call(req).await.unwrap();
                let _ = read_response(res).await;
            }
        });
        kept = Some(routes.clone());
        h.rec.lock().unwrap().clear();
        let mut reg = if p.mode == "grow-builder" { Reg::Builder(tonic::service::RoutesBuilder::from(routes)) } else { Reg::Routes(Some(routes)) };
        for &g in &p.reg[first_round..] {
            if register(&mut reg, g, &p.ctor, &h).is_none() {
                return "bad-case".into();
            }
        }
        routes = match reg.finish() {
            Built::Routes(r) => r,
            _ => return "bad-case".into(),
        };
    }
    let mode = if grow { "same".to_string() } else { p.mode.clone() };
    let recs = rt.block_on(async move {
        if server {
            run_server(&mode, routes, reqs).await
        } else if MODES_LOCAL.contains(&mode.as_str()) {
            Ok(run_local(&mode, routes, reqs).await)
        } else {
            Err("bad-case".to_string())
        }
    });
    let recs = match recs {
        Ok(r) => r,
        Err(e) => return e,
    };
    drop(kept);
    // the handlers' own record must tell the same story as the response messages
    let mut hits: Vec<(usize, usize, usize)> = h
        .events()
        .iter()
        .filter_map(|e| if let Ev::Hit(i, j, _) = e { Some((*i, *j, 0)) } else { None })
        .collect();
    let mut told: Vec<(usize, usize, usize)> = recs.iter().filter_map(|r| r.answered.map(|(i, j, _)| (i, j, 0))).collect();
    hits.sort();
    told.sort();
    let consistent = hits == told && recs.iter().enumerate().all(|(k, r)| r.answered.map_or(true, |(i, j, l)| l == k && i < n_all() && j < g_methods(i).len()));
    let mut out = Vec::new();
    for r in &recs {
        let handler = match r.answered {
            _ if !consistent => "multiple multiple".to_string(),
            None => "- -".to_string(),
            Some((i, j, _)) => format!("{} {}", g_name(i), g_methods(i)[j].0),
        };
        out.push(format!("handler {handler} status {} http {} ct {}", r.status, r.http, r.ct));
    }
    out.join(" ")
}
