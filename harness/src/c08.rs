//! C08 — user metadata crosses the wire intact; protocol headers cannot be forged; typed
//! accessors never miscategorise.  Drives tonic's typed metadata API and the real client /
//! server call machinery (client::Grpc ↔ server::Grpc in-process, no network).
use crate::c04::{entries_tok, gen_entries, gen_value, parse_entries, render_map};
use crate::common::*;
use bytes::{Buf, BufMut};
use http::{HeaderMap, HeaderValue};
use std::sync::{Arc, Mutex};
use tonic::codec::{Codec, DecodeBuf, Decoder, EncodeBuf, Encoder};
use tonic::metadata::{Ascii, Binary, KeyAndValueRef, KeyRef, MetadataKey, MetadataMap, MetadataValue, ValueRef};
use tonic::{Code, Request, Response, Status};

#[path = "c08_entry.rs"]
mod entry_api;
#[path = "c08_api.rs"]
mod typed_api;
#[path = "c08_dim.rs"]
mod dim;

// ---------------------------------------------------------------------------------------------
// raw codec

#[derive(Clone, Default)]
struct RawCodec;
struct RawEnc;
struct RawDec;
impl Encoder for RawEnc {
    type Item = Vec<u8>;
    type Error = Status;
    fn encode(&mut self, item: Vec<u8>, dst: &mut EncodeBuf<'_>) -> Result<(), Status> {
        dst.put_slice(&item);
        Ok(())
    }
}
impl Decoder for RawDec {
    type Item = Vec<u8>;
    type Error = Status;
    fn decode(&mut self, src: &mut DecodeBuf<'_>) -> Result<Option<Vec<u8>>, Status> {
        let n = src.remaining();
        Ok(Some(src.copy_to_bytes(n).to_vec()))
    }
}
impl Codec for RawCodec {
    type Encode = Vec<u8>;
    type Decode = Vec<u8>;
    type Encoder = RawEnc;
    type Decoder = RawDec;
    fn encoder(&mut self) -> RawEnc {
        RawEnc
    }
    fn decoder(&mut self) -> RawDec {
        RawDec
    }
}

// ---------------------------------------------------------------------------------------------
// typed entries: `<n> (A|B <key> <value>)*`

type Typed = Vec<(bool, Vec<u8>, Vec<u8>)>; // (is_binary, key, raw value)

fn typed_tok(es: &Typed) -> String {
    let mut out = vec![es.len().to_string()];
    for (b, k, v) in es {
        out.push(if *b { "B" } else { "A" }.to_string());
        out.push(hex(k));
        out.push(hex(v));
    }
    out.join(" ")
}

fn parse_typed<'a>(it: &mut impl Iterator<Item = &'a str>) -> Option<Typed> {
    let n: usize = it.next()?.parse().ok()?;
    let mut out = Vec::new();
    for _ in 0..n {
        let b = match it.next()? {
            "A" => false,
            "B" => true,
            _ => return None,
        };
        out.push((b, unhex(it.next()?)?, unhex(it.next()?)?));
    }
    Some(out)
}

/// What user code does: `map.append(key.parse()?, value.try_into()?)`; rejected entries are skipped.
fn build_typed(es: &Typed) -> MetadataMap {
    let mut m = MetadataMap::new();
    for (b, k, v) in es {
        if *b {
            if let Ok(key) = MetadataKey::<Binary>::from_bytes(k) {
                m.append_bin(key, MetadataValue::<Binary>::from_bytes(v));
            }
        } else if let Ok(key) = MetadataKey::<Ascii>::from_bytes(k) {
            if let Ok(val) = MetadataValue::<Ascii>::try_from(&v[..]) {
                m.append(key, val);
            }
        }
    }
    m
}

fn opt_hex(o: Option<&[u8]>) -> String {
    match o {
        Some(b) => hex(b),
        None => "none".into(),
    }
}

/// `<n> (A|B <name> <bytes|!>)*`: every entry as iter() presents it, to_bytes() applied,
/// sorted by name (values of one name stay in order).
fn typed_view(m: &MetadataMap) -> String {
    let mut rows: Vec<(String, String)> = Vec::new();
    for kv in m.iter() {
        match kv {
            KeyAndValueRef::Ascii(k, v) => {
                let b = v.to_bytes().map(|b| hex(&b)).unwrap_or_else(|_| "!".into());
                rows.push((k.as_str().to_string(), format!("A {} {}", hex(k.as_str().as_bytes()), b)));
            }
            KeyAndValueRef::Binary(k, v) => {
                let b = v.to_bytes().map(|b| hex(&b)).unwrap_or_else(|_| "!".into());
                rows.push((k.as_str().to_string(), format!("B {} {}", hex(k.as_str().as_bytes()), b)));
            }
        }
    }
    rows.sort_by(|a, b| a.0.as_bytes().cmp(b.0.as_bytes()));
    let mut out = vec![rows.len().to_string()];
    out.extend(rows.into_iter().map(|r| r.1));
    out.join(" ")
}

// ---------------------------------------------------------------------------------------------
// execution

pub fn execute(case: &str) -> String {
    let mut it = case.split(' ');
    match it.next() {
        Some("bin") => {
            let v = unhex(it.next().unwrap()).unwrap();
            let mv = MetadataValue::<Binary>::from_bytes(&v);
            let wire = mv.as_encoded_bytes().to_vec();
            let d1 = mv.to_bytes().ok().map(|b| b.to_vec());
            // the peer pads: the standard padded form arrives under a -bin name
            use base64::Engine;
            let padded = base64::engine::general_purpose::STANDARD.encode(&v);
            let mut h = HeaderMap::new();
            h.insert("k-bin", HeaderValue::from_str(&padded).unwrap());
            let m = MetadataMap::from_headers(h);
            let d2 = m.get_bin("k-bin").and_then(|x| x.to_bytes().ok()).map(|b| b.to_vec());
            let eq = m.get_bin("k-bin").map(|x| *x == mv).unwrap_or(false);
            format!("w {} {} {} {}", hex(&wire), d1.map(|b| hex(&b)).unwrap_or("!".into()), d2.map(|b| hex(&b)).unwrap_or("!".into()), eq as u8)
        }
        Some("binw") => {
            let w = unhex(it.next().unwrap()).unwrap();
            let hv = match HeaderValue::from_bytes(&w) {
                Ok(v) => v,
                Err(_) => return "not-a-header-value".into(),
            };
            let mut h = HeaderMap::new();
            h.insert("k-bin", hv);
            let m = MetadataMap::from_headers(h);
            let x = m.get_bin("k-bin").unwrap();
            format!("d {} {}", x.to_bytes().map(|b| hex(&b)).unwrap_or("!".into()), x.is_empty() as u8)
        }
        Some("bineq") => {
            let a = unhex(it.next().unwrap()).unwrap();
            let b = unhex(it.next().unwrap()).unwrap();
            let (ha, hb) = match (HeaderValue::from_bytes(&a), HeaderValue::from_bytes(&b)) {
                (Ok(x), Ok(y)) => (x, y),
                _ => return "not-a-header-value".into(),
            };
            let mut h = HeaderMap::new();
            h.append("k-bin", ha);
            h.append("k-bin", hb);
            let m = MetadataMap::from_headers(h);
            let vs: Vec<&MetadataValue<Binary>> = m.get_all_bin("k-bin").iter().collect();
            ((vs[0] == vs[1]) as u8).to_string()
        }
        Some("ascv") => {
            let v = unhex(it.next().unwrap()).unwrap();
            match MetadataValue::<Ascii>::try_from(&v[..]) {
                Ok(mv) => format!("ok {} {}", hex(mv.as_encoded_bytes()), hex(&mv.to_bytes().unwrap())),
                Err(_) => "err".into(),
            }
        }
        Some("key") => {
            let enc = it.next().unwrap();
            let k = unhex(it.next().unwrap()).unwrap();
            let r = if enc == "B" {
                MetadataKey::<Binary>::from_bytes(&k).map(|k| k.as_str().to_string()).ok()
            } else {
                MetadataKey::<Ascii>::from_bytes(&k).map(|k| k.as_str().to_string()).ok()
            };
            match r {
                Some(s) => format!("ok {}", hex(s.as_bytes())),
                None => "err".into(),
            }
        }
        Some("acc") => {
            let h = match parse_entries(&mut it) {
                Some(h) => h,
                None => return "bad-case".into(),
            };
            let ks = match String::from_utf8(unhex(it.next().unwrap()).unwrap()) {
                Ok(s) => s,
                Err(_) => return "bad-case".into(),
            };
            let m = MetadataMap::from_headers(h);
            let ks = ks.as_str();
            let mut out = Vec::new();
            out.push(format!("get {}", opt_hex(m.get(ks).map(|v| v.as_encoded_bytes()))));
            out.push(format!("getbin {}", opt_hex(m.get_bin(ks).map(|v| v.as_encoded_bytes()))));
            let all: Vec<String> = m.get_all(ks).iter().map(|v| hex(v.as_encoded_bytes())).collect();
            out.push(format!("all {} {}", all.len(), all.join(" ")).trim_end().to_string());
            let allb: Vec<String> = m.get_all_bin(ks).iter().map(|v| hex(v.as_encoded_bytes())).collect();
            out.push(format!("allbin {} {}", allb.len(), allb.join(" ")).trim_end().to_string());
            out.push(format!("has {}", m.contains_key(ks) as u8));
            let mut m1 = m.clone();
            let r1 = m1.remove(ks);
            out.push(format!("rm {} {}", opt_hex(r1.as_ref().map(|v| v.as_encoded_bytes())), render_map(&m1.into_headers())));
            let mut m2 = m.clone();
            let r2 = m2.remove_bin(ks);
            out.push(format!("rmbin {} {}", opt_hex(r2.as_ref().map(|v| v.as_encoded_bytes())), render_map(&m2.into_headers())));
            // mutable accessors agree with the shared ones
            let mut m3 = m.clone();
            let g1 = m3.get_mut(ks).map(|v| v.as_encoded_bytes().to_vec());
            let g2 = m3.get_bin_mut(ks).map(|v| v.as_encoded_bytes().to_vec());
            out.push(format!("mut {} {}", opt_hex(g1.as_deref()), opt_hex(g2.as_deref())));
            // the accessors are implemented once per key TYPE (&str, String, &String, typed keys):
            // every key type must give what `&str` gave
            let sig = |get: Option<Vec<u8>>, getb: Option<Vec<u8>>, all: Vec<Vec<u8>>, allb: Vec<Vec<u8>>, has: bool, rm: Option<Vec<u8>>, rmb: Option<Vec<u8>>, ent: (bool, bool)| {
                format!("{:?}|{:?}|{:?}|{:?}|{}|{:?}|{:?}|{:?}", get, getb, all, allb, has, rm, rmb, ent)
            };
            let eb = |v: &MetadataValue<Ascii>| v.as_encoded_bytes().to_vec();
            let ebb = |v: &MetadataValue<Binary>| v.as_encoded_bytes().to_vec();
            let base = {
                let (mut a, mut b, mut c, mut d) = (m.clone(), m.clone(), m.clone(), m.clone());
                sig(m.get(ks).map(eb), m.get_bin(ks).map(ebb), m.get_all(ks).iter().map(eb).collect(), m.get_all_bin(ks).iter().map(ebb).collect(), m.contains_key(ks),
                    a.remove(ks).as_ref().map(eb), b.remove_bin(ks).as_ref().map(ebb), (c.entry(ks).is_ok(), d.entry_bin(ks).is_ok()))
            };
            let owned = ks.to_string();
            let by_string = {
                let (mut a, mut b, mut c, mut d) = (m.clone(), m.clone(), m.clone(), m.clone());
                sig(m.get(owned.clone()).map(eb), m.get_bin(owned.clone()).map(ebb), m.get_all(owned.clone()).iter().map(eb).collect(), m.get_all_bin(owned.clone()).iter().map(ebb).collect(), m.contains_key(owned.clone()),
                    a.remove(owned.clone()).as_ref().map(eb), b.remove_bin(owned.clone()).as_ref().map(ebb), (c.entry(owned.clone()).is_ok(), d.entry_bin(owned.clone()).is_ok()))
            };
            let by_ref_string = {
                let (mut a, mut b, mut c, mut d) = (m.clone(), m.clone(), m.clone(), m.clone());
                sig(m.get(&owned).map(eb), m.get_bin(&owned).map(ebb), m.get_all(&owned).iter().map(eb).collect(), m.get_all_bin(&owned).iter().map(ebb).collect(), m.contains_key(&owned),
                    a.remove(&owned).as_ref().map(eb), b.remove_bin(&owned).as_ref().map(ebb), (c.entry(&owned).is_ok(), d.entry_bin(&owned).is_ok()))
            };
            let mut agree = base == by_string && base == by_ref_string;
            // typed keys exist only for names of their own category: they must then find exactly
            // what the string key found through the accessor of that category
            if let Ok(k) = MetadataKey::<Ascii>::from_bytes(ks.as_bytes()) {
                let mut a = m.clone();
                agree &= m.get(&k).map(eb) == m.get(ks).map(eb)
                    && m.get_all(&k).iter().map(eb).collect::<Vec<_>>() == m.get_all(ks).iter().map(eb).collect::<Vec<_>>()
                    && a.remove(k.clone()).as_ref().map(eb) == m.clone().remove(ks).as_ref().map(eb)
                    && m.get(k).map(eb) == m.get(ks).map(eb);
            }
            if let Ok(k) = MetadataKey::<Binary>::from_bytes(ks.as_bytes()) {
                let mut a = m.clone();
                agree &= m.get_bin(&k).map(ebb) == m.get_bin(ks).map(ebb)
                    && m.get_all_bin(&k).iter().map(ebb).collect::<Vec<_>>() == m.get_all_bin(ks).iter().map(ebb).collect::<Vec<_>>()
                    && a.remove_bin(k.clone()).as_ref().map(ebb) == m.clone().remove_bin(ks).as_ref().map(ebb)
                    && m.get_bin(k).map(ebb) == m.get_bin(ks).map(ebb);
            }
            out.push(format!("kt {}", agree as u8));
            out.join(" ")
        }
        Some("iter") => {
            let h = match parse_entries(&mut it) {
                Some(h) => h,
                None => return "bad-case".into(),
            };
            let m = MetadataMap::from_headers(h);
            let mut rows: Vec<(String, String)> = Vec::new();
            let mut names: Vec<String> = Vec::new();
            for kv in m.iter() {
                let (tag, k, v) = match kv {
                    KeyAndValueRef::Ascii(k, v) => ("A", k.as_str().to_string(), v.as_encoded_bytes().to_vec()),
                    KeyAndValueRef::Binary(k, v) => ("B", k.as_str().to_string(), v.as_encoded_bytes().to_vec()),
                };
                names.push(k.clone());
                rows.push((k.clone(), format!("{} {} {}", tag, hex(k.as_bytes()), hex(&v))));
            }
            rows.sort_by(|a, b| a.0.as_bytes().cmp(b.0.as_bytes()));
            let mut keys: Vec<(String, String)> = m
                .keys()
                .map(|k| match k {
                    KeyRef::Ascii(k) => (k.as_str().to_string(), format!("A {}", hex(k.as_str().as_bytes()))),
                    KeyRef::Binary(k) => (k.as_str().to_string(), format!("B {}", hex(k.as_str().as_bytes()))),
                })
                .collect();
            keys.sort_by(|a, b| a.0.as_bytes().cmp(b.0.as_bytes()));
            // values() iterates in the same order as iter(): pair each value with iter()'s name
            let mut vals: Vec<(String, String)> = m
                .values()
                .zip(names.iter())
                .map(|(v, n)| match v {
                    ValueRef::Ascii(v) => (n.clone(), format!("A {}", hex(v.as_encoded_bytes()))),
                    ValueRef::Binary(v) => (n.clone(), format!("B {}", hex(v.as_encoded_bytes()))),
                })
                .collect();
            vals.sort_by(|a, b| a.0.as_bytes().cmp(b.0.as_bytes()));
            // iter_mut / values_mut categorise the same way
            let mut mm = m.clone();
            let mut_tags: Vec<&str> = mm
                .iter_mut()
                .map(|kv| match kv {
                    tonic::metadata::KeyAndMutValueRef::Ascii(_, _) => "A",
                    tonic::metadata::KeyAndMutValueRef::Binary(_, _) => "B",
                })
                .collect();
            let imm_tags: Vec<&str> = m
                .iter()
                .map(|kv| match kv {
                    KeyAndValueRef::Ascii(_, _) => "A",
                    KeyAndValueRef::Binary(_, _) => "B",
                })
                .collect();
            format!(
                "{} {} keys {} {} values {} {} mut-agrees {}",
                rows.len(),
                rows.iter().map(|r| r.1.clone()).collect::<Vec<_>>().join(" "),
                keys.len(),
                keys.iter().map(|r| r.1.clone()).collect::<Vec<_>>().join(" "),
                vals.len(),
                vals.iter().map(|r| r.1.clone()).collect::<Vec<_>>().join(" "),
                (mut_tags == imm_tags && {
                    // values_mut categorises like values
                    let mut mv = m.clone();
                    let vm: Vec<&str> = mv.values_mut().map(|v| match v { tonic::metadata::ValueRefMut::Ascii(_) => "A", tonic::metadata::ValueRefMut::Binary(_) => "B" }).collect();
                    let vi: Vec<&str> = m.values().map(|v| match v { ValueRef::Ascii(_) => "A", ValueRef::Binary(_) => "B" }).collect();
                    vm == vi
                }) as u8
            )
            .split(' ')
            .filter(|t| !t.is_empty())
            .collect::<Vec<_>>()
            .join(" ")
        }
        Some("ops") => {
            let n: usize = it.next().unwrap().parse().unwrap();
            let mut m = MetadataMap::new();
            let mut out = Vec::new();
            for _ in 0..n {
                let op = it.next().unwrap();
                let enc = it.next().unwrap();
                let k = unhex(it.next().unwrap()).unwrap();
                match op {
                    "ins" | "app" => {
                        let v = unhex(it.next().unwrap()).unwrap();
                        if enc == "B" {
                            match MetadataKey::<Binary>::from_bytes(&k) {
                                Err(_) => out.push("keyerr".to_string()),
                                Ok(key) => {
                                    let val = MetadataValue::<Binary>::from_bytes(&v);
                                    if op == "ins" {
                                        let p = m.insert_bin(key, val);
                                        out.push(format!("prev:{}", opt_hex(p.as_ref().map(|x| x.as_encoded_bytes()))));
                                    } else {
                                        out.push(format!("existed:{}", m.append_bin(key, val) as u8));
                                    }
                                }
                            }
                        } else {
                            match MetadataKey::<Ascii>::from_bytes(&k) {
                                Err(_) => out.push("keyerr".to_string()),
                                Ok(key) => match MetadataValue::<Ascii>::try_from(&v[..]) {
                                    Err(_) => out.push("valerr".to_string()),
                                    Ok(val) => {
                                        if op == "ins" {
                                            let p = m.insert(key, val);
                                            out.push(format!("prev:{}", opt_hex(p.as_ref().map(|x| x.as_encoded_bytes()))));
                                        } else {
                                            out.push(format!("existed:{}", m.append(key, val) as u8));
                                        }
                                    }
                                },
                            }
                        }
                    }
                    "ent" => {
                        let v = unhex(it.next().unwrap()).unwrap();
                        let ks = match String::from_utf8(k) {
                            Ok(s) => s,
                            Err(_) => return "bad-case".into(),
                        };
                        if enc == "B" {
                            match m.entry_bin(ks.as_str()) {
                                Err(_) => out.push("keyerr".to_string()),
                                Ok(e) => {
                                    let r = e.or_insert(MetadataValue::<Binary>::from_bytes(&v));
                                    out.push(format!("entry:{}", hex(r.as_encoded_bytes())));
                                }
                            }
                        } else {
                            match m.entry(ks.as_str()) {
                                Err(_) => out.push("keyerr".to_string()),
                                Ok(e) => match MetadataValue::<Ascii>::try_from(&v[..]) {
                                    Err(_) => out.push("valerr".to_string()),
                                    Ok(val) => {
                                        let r = e.or_insert(val);
                                        out.push(format!("entry:{}", hex(r.as_encoded_bytes())));
                                    }
                                },
                            }
                        }
                    }
                    "rm" => {
                        let ks = match String::from_utf8(k) {
                            Ok(s) => s,
                            Err(_) => return "bad-case".into(),
                        };
                        if enc == "B" {
                            let r = m.remove_bin(ks.as_str());
                            out.push(format!("removed:{}", opt_hex(r.as_ref().map(|x| x.as_encoded_bytes()))));
                        } else {
                            let r = m.remove(ks.as_str());
                            out.push(format!("removed:{}", opt_hex(r.as_ref().map(|x| x.as_encoded_bytes()))));
                        }
                    }
                    _ => return "bad-case".into(),
                }
            }
            format!("r {} map {} view {}", out.join(" "), render_map(&m.clone().into_headers()), typed_view(&m))
        }
        Some("hmap") => {
            // direct tie of the ordered-multimap model to http::HeaderMap
            let n: usize = it.next().unwrap().parse().unwrap();
            let mut m = HeaderMap::new();
            let mut out = Vec::new();
            for _ in 0..n {
                match it.next().unwrap() {
                    "ins" => {
                        let k = http::HeaderName::from_bytes(&unhex(it.next().unwrap()).unwrap()).unwrap();
                        let v = HeaderValue::from_bytes(&unhex(it.next().unwrap()).unwrap()).unwrap();
                        out.push(format!("prev:{}", opt_hex(m.insert(k, v).as_ref().map(|x| x.as_bytes()))));
                    }
                    "app" => {
                        let k = http::HeaderName::from_bytes(&unhex(it.next().unwrap()).unwrap()).unwrap();
                        let v = HeaderValue::from_bytes(&unhex(it.next().unwrap()).unwrap()).unwrap();
                        out.push(format!("existed:{}", m.append(k, v) as u8));
                    }
                    "rm" => {
                        let k = http::HeaderName::from_bytes(&unhex(it.next().unwrap()).unwrap()).unwrap();
                        out.push(format!("removed:{}", opt_hex(m.remove(k).as_ref().map(|x| x.as_bytes()))));
                    }
                    "get" => {
                        let k = String::from_utf8(unhex(it.next().unwrap()).unwrap()).unwrap();
                        let all: Vec<String> = m.get_all(k.as_str()).iter().map(|v| hex(v.as_bytes())).collect();
                        out.push(format!("got:{}:{}:{}", opt_hex(m.get(k.as_str()).map(|x| x.as_bytes())), m.contains_key(k.as_str()) as u8, all.join(",")));
                    }
                    "ext" => {
                        let other = parse_entries(&mut it).unwrap();
                        m.extend(other);
                        out.push("extended".to_string());
                    }
                    _ => return "bad-case".into(),
                }
            }
            format!("r {} map {}", out.join(" "), render_map(&m))
        }
        Some("e2e") => {
            let mode = it.next().unwrap().to_string();
            let code: i32 = it.next().unwrap().parse().unwrap();
            let msg = String::from_utf8(unhex(it.next().unwrap()).unwrap()).unwrap();
            let det = unhex(it.next().unwrap()).unwrap();
            let (req, resp, stmd) = match (parse_typed(&mut it), parse_typed(&mut it), parse_typed(&mut it)) {
                (Some(a), Some(b), Some(c)) => (a, b, c),
                _ => return "bad-case".into(),
            };
            e2e(&mode, code, msg, det, req, resp, stmd)
        }
        Some("eops") => entry_api::execute(&mut it),
        Some(k @ ("kctor" | "vctor" | "veq" | "ferr")) => typed_api::execute(k, &mut it),
        Some(k @ ("e2x" | "peer" | "mapi")) => dim::execute(k, &mut it),
        _ => "bad-case".into(),
    }
}

#[derive(Default)]
struct Seen {
    reqwire: Option<String>,
    srv: Option<String>,
    respwire: Option<String>,
}

fn e2e(mode: &str, code: i32, msg: String, det: Vec<u8>, req: Typed, resp: Typed, stmd: Typed) -> String {
    let seen = Arc::new(Mutex::new(Seen::default()));
    let status = Status::with_details_and_metadata(Code::from_i32(code), msg, det.into(), build_typed(&stmd));
    let respmd = build_typed(&resp);
    let mode_s = mode.to_string();
    let seen_svc = seen.clone();
    // the "network": hand the client's http request straight to the server-side call machinery
    let svc = tower::service_fn(move |hreq: http::Request<tonic::body::Body>| {
        let seen = seen_svc.clone();
        let status = status.clone();
        let respmd = respmd.clone();
        let mode = mode_s.clone();
        async move {
            seen.lock().unwrap().reqwire = Some(render_map(hreq.headers()));
            let mut server = tonic::server::Grpc::new(RawCodec);
            let seen_h = seen.clone();
            let hresp = if mode == "sserr" || mode == "umix" {
                let handler = tower::service_fn(move |r: Request<Vec<u8>>| {
                    seen_h.lock().unwrap().srv = Some(typed_view(r.metadata()));
                    let status = status.clone();
                    let respmd = respmd.clone();
                    async move {
                        let items: Vec<Result<Vec<u8>, Status>> = vec![Err(status)];
                        let mut out = Response::new(tokio_stream::iter(items));
                        *out.metadata_mut() = respmd;
                        Ok::<_, Status>(out)
                    }
                });
                server.server_streaming(handler, hreq).await
            } else {
                let handler = tower::service_fn(move |r: Request<Vec<u8>>| {
                    seen_h.lock().unwrap().srv = Some(typed_view(r.metadata()));
                    let status = status.clone();
                    let respmd = respmd.clone();
                    let mode = mode.clone();
                    async move {
                        if mode == "err" {
                            Err(status)
                        } else {
                            let mut out = Response::new(vec![1u8, 2, 3]);
                            *out.metadata_mut() = respmd;
                            Ok(out)
                        }
                    }
                });
                server.unary(handler, hreq).await
            };
            seen.lock().unwrap().respwire = Some(render_map(hresp.headers()));
            Ok::<_, Status>(hresp)
        }
    });
    let mut client = tonic::client::Grpc::new(svc);
    let mut request = Request::new(vec![9u8]);
    *request.metadata_mut() = build_typed(&req);
    let path = http::uri::PathAndQuery::from_static("/svc/Method");
    let rt = tokio::runtime::Builder::new_current_thread().build().unwrap();
    let client_side = rt.block_on(async move {
        client.ready().await.unwrap();
        if mode == "sserr" {
            match client.server_streaming::<Vec<u8>, Vec<u8>, _>(request, path, RawCodec).await {
                Ok(r) => {
                    let head = typed_view(r.metadata());
                    let mut s = r.into_inner();
                    let tail = match s.message().await {
                        Ok(None) => match s.trailers().await {
                            Ok(Some(t)) => format!("end some {}", typed_view(&t)),
                            Ok(None) => "end none".to_string(),
                            Err(_) => "end trailers-err".to_string(),
                        },
                        Ok(Some(_)) => "unexpected-message".to_string(),
                        Err(st) => format!("err {}", status_view(&st)),
                    };
                    format!("ok {} then {}", head, tail)
                }
                Err(st) => format!("err {}", status_view(&st)),
            }
        } else {
            // ("umix": a unary client against a server that answers headers + error trailers, as
            // other gRPC servers do for a unary error after headers)
            match client.unary::<Vec<u8>, Vec<u8>, _>(request, path, RawCodec).await {
                Ok(r) => format!("ok {}", typed_view(r.metadata())),
                Err(st) => format!("err {}", status_view(&st)),
            }
        }
    });
    let s = seen.lock().unwrap();
    format!(
        "reqwire {} srv {} respwire {} client {}",
        s.reqwire.clone().unwrap_or("none".into()),
        s.srv.clone().unwrap_or("none".into()),
        s.respwire.clone().unwrap_or("none".into()),
        client_side
    )
}

const DET_ERR_PREFIX: &str = "Error deserializing status details header: ";

fn status_view(st: &Status) -> String {
    let msg: &str = if st.message().starts_with(DET_ERR_PREFIX) { DET_ERR_PREFIX } else { st.message() };
    format!("{} {} {} {}", st.code() as i32, hex(msg.as_bytes()), hex(st.details()), typed_view(st.metadata()))
}

// ---------------------------------------------------------------------------------------------
// generation

const RESERVED: [&str; 6] = ["te", "user-agent", "content-type", "grpc-message", "grpc-message-type", "grpc-status"];
const BASES: [&str; 10] = ["x-a", "foo", "x-trace-id", "bin", "a.b_c~d", "x-bin-x", "k", "grpc-timeout", "x-b", "authorization"];

fn gen_typed_key(rng: &mut Rng, binary: bool) -> Vec<u8> {
    let mut k: Vec<u8> = match rng.below(12) {
        0 | 1 => RESERVED[rng.below(6) as usize].as_bytes().to_vec(),
        2 => b"grpc-status-details-bin".to_vec(),
        _ => {
            let mut s = BASES[rng.below(BASES.len() as u64) as usize].as_bytes().to_vec();
            // mostly the right suffix for the encoding, sometimes the wrong one
            let want_bin = if rng.chance(9, 10) { binary } else { !binary };
            if want_bin {
                s.extend_from_slice(b"-bin");
            }
            s
        }
    };
    // user code may spell keys in mixed case: from_bytes normalises
    if rng.chance(1, 6) {
        for b in k.iter_mut() {
            if rng.chance(1, 2) {
                *b = b.to_ascii_uppercase();
            }
        }
    }
    if rng.chance(1, 40) {
        k.push(b' ');
    }
    k
}

fn gen_bin_value(rng: &mut Rng) -> Vec<u8> {
    let n = match rng.below(4) {
        0 => rng.below(4),
        1 => rng.range(4, 9),
        2 => rng.range(0, 3),
        _ => rng.range(9, 33),
    } as usize;
    match rng.below(4) {
        0 => vec![0xff; n],
        1 => vec![0; n],
        _ => rng.bytes(n),
    }
}

fn gen_typed(rng: &mut Rng, max: u64) -> Typed {
    let n = match rng.below(6) {
        0 => 0,
        1 => 1,
        _ => rng.range(0, max),
    };
    let mut out: Typed = Vec::new();
    for _ in 0..n {
        if !out.is_empty() && rng.chance(1, 3) {
            // repeat an earlier key (same encoding)
            let (b, k, _) = out[rng.below(out.len() as u64) as usize].clone();
            let v = if b { gen_bin_value(rng) } else { gen_value(rng) };
            out.push((b, k, v));
        } else {
            let b = rng.chance(1, 2);
            let k = gen_typed_key(rng, b);
            let v = if b {
                gen_bin_value(rng)
            } else if rng.chance(1, 12) {
                b"bad\nvalue".to_vec()
            } else {
                gen_value(rng)
            };
            out.push((b, k, v));
        }
    }
    out
}

/// typed entries for the e2e runs: names that the call machinery itself interprets
/// (grpc-encoding, grpc-accept-encoding) are not in the vocabulary
fn lookup_variants(rng: &mut Rng, stored: &[(Vec<u8>, Vec<u8>)]) -> Vec<u8> {
    let mut k: Vec<u8> = if !stored.is_empty() && rng.chance(4, 5) {
        stored[rng.below(stored.len() as u64) as usize].0.clone()
    } else {
        let b = rng.chance(1, 2);
        gen_typed_key(rng, b)
    };
    match rng.below(8) {
        0 => {
            for b in k.iter_mut() {
                *b = b.to_ascii_uppercase();
            }
        }
        1 => {
            // upper-case only (part of) the suffix
            let n = k.len();
            let from = n.saturating_sub(rng.range(1, 4) as usize);
            for b in k[from..].iter_mut() {
                *b = b.to_ascii_uppercase();
            }
        }
        2 => {
            let i = rng.below(k.len().max(1) as u64) as usize;
            if i < k.len() {
                k[i] = k[i].to_ascii_uppercase();
            }
        }
        3 => {
            if k.ends_with(b"-bin") {
                k.truncate(k.len() - 4);
            } else {
                k.extend_from_slice(if rng.chance(1, 2) { b"-bin" } else { b"-BIN" });
            }
        }
        4 => {
            if rng.chance(1, 4) {
                k = match rng.below(5) {
                    0 => vec![],
                    1 => b"a b".to_vec(),
                    2 => "é-bin".as_bytes().to_vec(),
                    3 => b"x-a\0".to_vec(),
                    _ => b"-BIN".to_vec(),
                };
            }
        }
        _ => {}
    }
    k
}

pub fn generate(tier: &str, rng: &mut Rng) -> Vec<String> {
    let thorough = tier == "thorough";
    let mut out: Vec<String> = Vec::new();

    // ---- corpus: 5.6 witnesses
    let foo = vec![(b"foo-bin".to_vec(), b"AAEC".to_vec())];
    for ks in ["foo-BIN", "FOO-BIN", "foo-Bin", "foo-bin", "Foo-bin", "foo-biN"] {
        out.push(format!("acc {} {}", entries_tok(&foo), hex(ks.as_bytes())));
    }
    out.push(format!("acc {} {}", entries_tok(&[(b"foo".to_vec(), b"v".to_vec())]), hex(b"FOO")));
    out.push(format!("ops 2 ins B {} {} rm A {}", hex(b"foo-bin"), hex(&[0, 1, 2]), hex(b"foo-BIN")));
    out.push(format!("ops 1 ent A {} {}", hex(b"foo-BIN"), hex(b"not base64!")));
    out.push(format!("ops 1 ent B {} {}", hex(b"FOO-BIN"), hex(&[1, 2])));

    // ---- exhaustive small domains
    // header-name character table: every byte as a one-byte key, and inside a longer key
    for b in 0u16..=255 {
        let b = b as u8;
        out.push(format!("key A {}", hex(&[b])));
        out.push(format!("key A {}", hex(&[b'x', b, b'y'])));
        out.push(format!("key B {}", hex(&[b, b'-', b'b', b'i', b'n'])));
        // suffix rule: every byte in each position of the suffix
        for pos in 0..4 {
            let mut k = b"k-bin".to_vec();
            k[1 + pos] = b;
            out.push(format!("key B {}", hex(&k)));
            out.push(format!("key A {}", hex(&k)));
        }
        // ascii value byte table
        out.push(format!("ascv {}", hex(&[b])));
        out.push(format!("ascv {}", hex(&[b'a', b, b'z'])));
        // binary: every one-byte value; every byte as a wire symbol
        out.push(format!("bin {}", hex(&[b])));
        for pat in [vec![b, b'A', b'A', b'A'], vec![b'A', b'A', b'A', b], vec![b'A', b'A', b], vec![b'A', b], vec![b'A', b'A', b, b'='], vec![b'A', b, b'=', b'='], vec![b]] {
            out.push(format!("binw {}", hex(&pat)));
        }
    }
    // all 16 case spellings of the suffix, looked up against a binary and an ascii entry
    for mask in 0..16u8 {
        let mut sfx = *b"-bin";
        for i in 0..4 {
            if mask & (1 << i) != 0 {
                sfx[i] = sfx[i].to_ascii_uppercase();
            }
        }
        let mut ks = b"foo".to_vec();
        ks.extend_from_slice(&sfx);
        out.push(format!("acc {} {}", entries_tok(&foo), hex(&ks)));
        out.push(format!("key A {}", hex(&ks)));
        out.push(format!("key B {}", hex(&ks)));
        out.push(format!("ops 2 ins B {} {} rm A {}", hex(b"foo-bin"), hex(&[7]), hex(&ks)));
    }
    // binary values of every length 0..=40 (every length mod 3), patterns
    for n in 0..=40usize {
        out.push(format!("bin {}", hex(&vec![0xffu8; n])));
        out.push(format!("bin {}", hex(&(0..n).map(|i| (i * 37 + 1) as u8).collect::<Vec<u8>>())));
    }
    let n2 = if thorough { 65536 } else { 2048 };
    for i in 0..n2 {
        let v: u16 = if thorough { i as u16 } else { rng.next() as u16 };
        out.push(format!("bin {}", hex(&v.to_be_bytes())));
    }
    let n3 = if thorough { 100000 } else { 3000 };
    for _ in 0..n3 {
        let len = rng.range(3, 12) as usize;
        out.push(format!("bin {}", hex(&rng.bytes(len))));
    }
    // arbitrary wire values under a -bin name; equality of two wire values
    let nw = if thorough { 60000 } else { 3000 };
    for _ in 0..nw {
        let w: Vec<u8> = if rng.chance(1, 2) {
            let n = rng.range(0, 10) as usize;
            (0..n).map(|_| *rng.pick(b"ABCDwxyz0189+/==-_ ")).collect()
        } else {
            // a valid encoding (padded or not) with at most one small mutation
            use base64::Engine;
            let v = gen_bin_value(rng);
            let mut w = if rng.chance(1, 2) {
                base64::engine::general_purpose::STANDARD.encode(&v).into_bytes()
            } else {
                base64::engine::general_purpose::STANDARD_NO_PAD.encode(&v).into_bytes()
            };
            match rng.below(6) {
                0 if !w.is_empty() => {
                    let i = rng.below(w.len() as u64) as usize;
                    w[i] = *rng.pick(b"ABQgw/+=-_ ");
                }
                1 if !w.is_empty() => {
                    let i = rng.below(w.len() as u64) as usize;
                    w.remove(i);
                }
                2 => w.push(b'='),
                3 => {
                    let i = rng.below(w.len() as u64 + 1) as usize;
                    w.insert(i, *rng.pick(b"AQ="));
                }
                _ => {}
            }
            w
        };
        out.push(format!("binw {}", hex(&w)));
        let n = rng.range(0, 6) as usize;
        let a: Vec<u8> = (0..n).map(|_| *rng.pick(b"AQgw=")).collect();
        let n = rng.range(0, 6) as usize;
        let b: Vec<u8> = (0..n).map(|_| *rng.pick(b"AQgw=")).collect();
        out.push(format!("bineq {} {}", hex(&a), hex(&b)));
    }

    // ---- large values (8 KiB, 64 KiB) in every kind that carries a value
    for n in [8192usize, 65536] {
        let pat: Vec<u8> = (0..n).map(|i| (i * 37 + 1) as u8).collect();
        for v in [vec![0xffu8; n], pat.clone(), pat[..n - 1].to_vec(), pat[..n - 2].to_vec()] {
            out.push(format!("bin {}", hex(&v)));
        }
        let ascii_big: Vec<u8> = (0..n).map(|i| 32 + (i % 95) as u8).collect();
        out.push(format!("ascv {}", hex(&ascii_big)));
        let mut bad = ascii_big.clone();
        bad[n - 1] = b'\n';
        out.push(format!("ascv {}", hex(&bad)));
        use base64::Engine;
        out.push(format!("binw {}", hex(base64::engine::general_purpose::STANDARD.encode(&pat[..n - 1]).as_bytes())));
        out.push(format!("binw {}", hex(base64::engine::general_purpose::STANDARD_NO_PAD.encode(&pat[..n - 2]).as_bytes())));
        let big_entries = vec![(b"x-a".to_vec(), ascii_big.clone()), (b"k-bin".to_vec(), base64::engine::general_purpose::STANDARD_NO_PAD.encode(&pat).into_bytes()), (b"x-a".to_vec(), b"small".to_vec())];
        out.push(format!("iter {}", entries_tok(&big_entries)));
        out.push(format!("acc {} {}", entries_tok(&big_entries), hex(b"K-BIN")));
        out.push(format!("acc {} {}", entries_tok(&big_entries), hex(b"x-a")));
        out.push(format!("ops 3 app A {} {} ins B {} {} app A {} {}", hex(b"x-a"), hex(&ascii_big), hex(b"k-bin"), hex(&pat), hex(b"x-a"), hex(b"2")));
        let (padded, unpadded) = (base64::engine::general_purpose::STANDARD.encode(&pat[..n - 1]).into_bytes(), base64::engine::general_purpose::STANDARD_NO_PAD.encode(&pat[..n - 1]).into_bytes());
        out.push(format!("bineq {} {}", hex(&padded), hex(&unpadded)));
        out.push(format!("veq B {} {} {}", hex(&padded), hex(&unpadded), hex(&pat[..n - 1])));
        out.push(format!("veq A {} {} {}", hex(&ascii_big), hex(&ascii_big), hex(&ascii_big)));
        out.push(format!("hmap 4 app {} {} app {} {} get {} ext 1 {} {}", hex(b"a"), hex(&ascii_big), hex(b"a"), hex(&unpadded), hex(b"A"), hex(b"k-bin"), hex(&padded)));
        // end to end: a large ASCII value and a large binary value in the request, the response and the status,
        // and (64 KiB) a large status message and details
        let big_md: Typed = vec![(false, b"x-big".to_vec(), ascii_big.clone()), (true, b"big-bin".to_vec(), pat.clone()), (false, b"x-big".to_vec(), b"after".to_vec())];
        let msg: String = "m\u{e9}%".repeat(n / 4);
        let det: Vec<u8> = pat.clone();
        for mode in ["ok", "err", "sserr", "umix"] {
            out.push(format!("e2e {} 9 {} {} {} {} {}", mode, hex(msg.as_bytes()), hex(&det), typed_tok(&big_md), typed_tok(&big_md[..1].to_vec()), typed_tok(&big_md[1..].to_vec())));
        }
    }
    // end to end with binary values of the lengths where encoders change strategy (seed C08j)
    for (i, n) in [255usize, 256, 511, 512, 767, 768, 769, 800, 1000, 1023, 1024, 1025, 1365, 1366, 2047, 2048, 3071, 3072, 3073, 4095, 4096, 4097].iter().enumerate() {
        let v: Vec<u8> = (0..*n).map(|j| (j * 7 + i) as u8).collect();
        let md: Typed = vec![(true, b"len-bin".to_vec(), v.clone()), (false, b"x-len".to_vec(), vec![b'a'; *n])];
        let mode = ["ok", "err", "sserr", "umix"][i % 4];
        out.push(format!("e2e {} 9 {} x {} {} {}", mode, hex(b"m"), typed_tok(&md), typed_tok(&md), typed_tok(&md)));
    }
    // ---- the entry API as operation sequences; every constructor and comparison; Status::from_error
    entry_api::generate(thorough, rng, &mut out);
    typed_api::generate(thorough, rng, &mut out);

    // ---- accessors and iterators over arbitrary received header maps
    let na = if thorough { 240000 } else { 5000 };
    for i in 0..na {
        let es = gen_entries(rng, 6);
        if i % 3 == 0 {
            out.push(format!("iter {}", entries_tok(&es)));
        } else {
            let ks = lookup_variants(rng, &es);
            if std::str::from_utf8(&ks).is_ok() {
                out.push(format!("acc {} {}", entries_tok(&es), hex(&ks)));
            }
        }
    }
    // ---- typed operation sequences
    let no = if thorough { 120000 } else { 3000 };
    for _ in 0..no {
        let n = rng.range(1, 7);
        let mut toks = vec![format!("ops {}", n)];
        let mut used: Vec<Vec<u8>> = Vec::new();
        for _ in 0..n {
            let b = rng.chance(1, 2);
            let k = if !used.is_empty() && rng.chance(1, 2) { used[rng.below(used.len() as u64) as usize].clone() } else { gen_typed_key(rng, b) };
            used.push(k.clone());
            match rng.below(6) {
                5 => {
                    let stored: Vec<(Vec<u8>, Vec<u8>)> = used.iter().map(|k| (k.to_ascii_lowercase(), vec![])).collect();
                    let mut ks = lookup_variants(rng, &stored);
                    if std::str::from_utf8(&ks).is_err() {
                        ks = k.clone();
                    }
                    toks.push(format!("ent {} {} {}", if b { "B" } else { "A" }, hex(&ks), hex(&if b { gen_bin_value(rng) } else { gen_value(rng) })));
                }
                0 => {
                    let stored: Vec<(Vec<u8>, Vec<u8>)> = used.iter().map(|k| (k.to_ascii_lowercase(), vec![])).collect();
                    let ks = lookup_variants(rng, &stored);
                    if std::str::from_utf8(&ks).is_ok() {
                        toks.push(format!("rm {} {}", if b { "B" } else { "A" }, hex(&ks)));
                    } else {
                        toks.push(format!("rm {} {}", if b { "B" } else { "A" }, hex(&k)));
                    }
                }
                1 | 2 => toks.push(format!("ins {} {} {}", if b { "B" } else { "A" }, hex(&k), hex(&if b { gen_bin_value(rng) } else { gen_value(rng) }))),
                _ => toks.push(format!("app {} {} {}", if b { "B" } else { "A" }, hex(&k), hex(&if b { gen_bin_value(rng) } else { gen_value(rng) }))),
            }
        }
        out.push(toks.join(" "));
    }
    // ---- end to end: client::Grpc ↔ server::Grpc
    // corpus: reserved names in every position, forged protocol headers
    for r in RESERVED {
        let forged: Typed = vec![(false, b"x-a".to_vec(), b"1".to_vec()), (false, r.as_bytes().to_vec(), b"forged".to_vec()), (false, b"x-a".to_vec(), b"2".to_vec())];
        for mode in ["ok", "err", "sserr", "umix"] {
            out.push(format!("e2e {} 5 {} x {} {} {}", mode, hex(b"nope"), typed_tok(&forged), typed_tok(&forged), typed_tok(&forged)));
        }
    }
    // ---- http::HeaderMap operations against the multimap model
    let nh = if thorough { 40000 } else { 3000 };
    for _ in 0..nh {
        let n = rng.range(1, 8);
        let mut toks = vec![format!("hmap {}", n)];
        const NAMES: [&str; 5] = ["a", "b", "x-c", "te", "k-bin"];
        for _ in 0..n {
            let k = rng.pick(&NAMES).as_bytes().to_vec();
            match rng.below(7) {
                0 | 1 => toks.push(format!("ins {} {}", hex(&k), hex(&gen_value(rng)))),
                2 | 3 => toks.push(format!("app {} {}", hex(&k), hex(&gen_value(rng)))),
                4 => toks.push(format!("rm {}", hex(&k))),
                5 => {
                    let mut q = k.clone();
                    if rng.chance(1, 2) {
                        q = q.to_ascii_uppercase();
                    }
                    if rng.chance(1, 10) {
                        q = b"not a name".to_vec();
                    }
                    toks.push(format!("get {}", hex(&q)))
                }
                _ => {
                    let cnt = rng.range(0, 4);
                    let mut es: Vec<(Vec<u8>, Vec<u8>)> = Vec::new();
                    for _ in 0..cnt {
                        es.push((rng.pick(&NAMES).as_bytes().to_vec(), gen_value(rng)));
                    }
                    toks.push(format!("ext {}", entries_tok(&es)));
                }
            }
        }
        out.push(toks.join(" "));
    }
    let ne = if thorough { 120000 } else { 2500 };
    for _ in 0..ne {
        let mode = *rng.pick(&["ok", "ok", "err", "sserr", "umix"]);
        let code = if mode == "err" || mode == "umix" { rng.range(1, 16) } else { rng.below(17) };
        let msg: &str = *rng.pick(&["", "boom", "é %", "a\nb"]);
        let det = if rng.chance(1, 3) { gen_bin_value(rng) } else { vec![] };
        let req = gen_typed(rng, 6);
        let resp = gen_typed(rng, 5);
        let stmd = gen_typed(rng, 4);
        out.push(format!("e2e {} {} {} {} {} {} {}", mode, code, hex(msg.as_bytes()), hex(&det), typed_tok(&req), typed_tok(&resp), typed_tok(&stmd)));
    }
    // ---- dimension audit (last, so that the cases above stay what they were for a given seed):
    // API routes, call shapes, interceptors, real transport, foreign peers
    dim::generate(thorough, rng, &mut out);
    out
}
