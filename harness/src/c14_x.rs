//! C14, dimensions added by the proactive audit (aC14). Included from `c14.rs` with `#[path]`.
//!
//! * `e2c <L|E> <outcomes> <ops>` — the script of `e2n`, but the channel is built with the
//!   lower-level public entry points `Channel::new(connector, endpoint)` (lazy) /
//!   `Channel::connect(connector, endpoint)` (eager): the user's connector is used as it is, without
//!   tonic's `Connector` wrapper (whose `call` turns every connector error into a `ConnectError`) and
//!   without `hyper_timeout::TimeoutConnector`. Same prediction, same oracle.
//! * further `e2d` endpoint options, every one of which must be INVISIBLE to the property (the model
//!   is run without them):
//!   `y` the scripted connector insists on tower's readiness protocol: its `poll_ready` answers
//!       `Pending` (with a wake-up) before every `Ready`, and a `call` that was not preceded by a
//!       `Ready` panics (a legal user connector: tower's own `Buffer`, `ConcurrencyLimit`, … behave so);
//!   `k` `Endpoint::http2_keep_alive_interval(10 ms)`, `keep_alive_timeout(20 ms)`,
//!       `keep_alive_while_idle(true)`; allows the op `h`: the peer goes SILENT (the connection stays
//!       open and carries nothing): by the next quiescent point the client has given the connection up,
//!       so `h` is predicted and judged as `d`;
//!   `o` `Endpoint::origin(other authority)` + `Endpoint::user_agent(..)`: requests carry another
//!       authority, connection attempts still go to the endpoint's own URI (the scripted connector
//!       refuses every other URI);
//!   `x` `Endpoint::executor(custom)`: the buffer worker and the connection tasks are spawned through
//!       a user executor;
//!   `w` window sizes, adaptive window, header-list size, `tcp_nodelay(false)`, `tcp_keepalive`;
//!   `b` `Endpoint::buffer_size(1)`.
//! * further ops of all e2e kinds: `a` a call that the application ABANDONS (drops the future of)
//!   while the request is with the peer's handler: reported like an answered call; what is judged is
//!   what the calls after it see (same connection, nothing left behind in the limit layers).
//! * `net <ctor> …`: the `Endpoint` constructors other than `from_shared("unix:<path>")` /
//!   `from_shared("http://…")`: `uds2` = `from_shared("unix://<path>")`, `udss` / `udss2` =
//!   `from_static` of the two forms, `udsp` = `str::parse::<Endpoint>()`, `udst` = `TryFrom<String>`,
//!   `tcps` = `from_static`, `tcpn` = `Endpoint::new(String)` (what generated `connect()` calls),
//!   `tcpb` = `Channel::builder(uri)`, `tcpc` = `Channel::from_shared`. Same prediction as `uds` / `tcp`.
//! * `e2a <L|E> <outcomes> <ops over c, d, A>` — scripts in which the application ABANDONS calls: `A` is
//!   a call whose future is dropped as soon as it has to wait for a connection attempt (the attempt it
//!   triggers is held in progress by the scripted connector until the call is gone, then goes on and
//!   ends as the script says, with nobody waiting for it); an `A` that needs no new attempt completes
//!   like `c`. Observed `A:a<attempts>`. Own model (`Model/ReconnectAbandon`: the buffer worker forgets
//!   a cancelled request without touching the service, `Reconnect` stays in `Connecting`) and own
//!   oracle (`Spec/ReconnectAbandon`). The code as found hands the failure of the abandoned call's
//!   attempt to the NEXT call: known finding C14-F1.
use super::*;

#[derive(Clone)]
pub(super) struct CountingExec(pub Arc<std::sync::atomic::AtomicUsize>);

impl<F> hyper::rt::Executor<F> for CountingExec
where
    F: Future<Output = ()> + Send + 'static,
{
    fn execute(&self, fut: F) {
        self.0.fetch_add(1, std::sync::atomic::Ordering::SeqCst);
        tokio::spawn(fut);
    }
}

pub(super) fn configure(endpoint: tonic::transport::Endpoint, opts: &str) -> tonic::transport::Endpoint {
    let mut e = endpoint;
    if opts.contains('k') {
        e = e
            .http2_keep_alive_interval(Duration::from_millis(10))
            .keep_alive_timeout(Duration::from_millis(20))
            .keep_alive_while_idle(true);
    }
    if opts.contains('o') {
        e = e
            .origin(http::Uri::from_static("http://other.example:4321"))
            .user_agent("verif-c14/1.0")
            .expect("valid user agent");
    }
    if opts.contains('x') {
        e = e.executor(CountingExec(Arc::new(std::sync::atomic::AtomicUsize::new(0))));
    }
    if opts.contains('w') {
        e = e
            .initial_stream_window_size(Some(131_070))
            .initial_connection_window_size(Some(1 << 20))
            .http2_adaptive_window(true)
            .http2_max_header_list_size(64 * 1024)
            .tcp_nodelay(false)
            .tcp_keepalive(Some(Duration::from_secs(1)));
    }
    if opts.contains('b') {
        e = e.buffer_size(1);
    }
    e
}

/// `net` constructor variants: the `Endpoint` for a TCP port / unix socket path, or `None` when
/// the token is unknown or the constructor refuses.
pub(super) fn net_endpoint(ctor: &str, tcp_uri: Option<String>, uds_path: Option<String>) -> Option<tonic::transport::Endpoint> {
    use tonic::transport::{Channel, Endpoint};
    fn leak(s: String) -> &'static str {
        Box::leak(s.into_boxed_str())
    }
    match (ctor, tcp_uri, uds_path) {
        ("tcp", Some(u), _) => Endpoint::from_shared(u).ok(),
        ("tcps", Some(u), _) => Some(Endpoint::from_static(leak(u))),
        ("tcpn", Some(u), _) => Endpoint::new(u).ok(),
        ("tcpb", Some(u), _) => Some(Channel::builder(u.parse::<http::Uri>().ok()?)),
        ("tcpc", Some(u), _) => Channel::from_shared(u).ok(),
        ("uds" | "udsl", _, Some(p)) => Endpoint::from_shared(format!("unix:{}", p)).ok(),
        ("uds2", _, Some(p)) => Endpoint::from_shared(format!("unix://{}", p)).ok(),
        ("udss", _, Some(p)) => Some(Endpoint::from_static(leak(format!("unix:{}", p)))),
        ("udss2", _, Some(p)) => Some(Endpoint::from_static(leak(format!("unix://{}", p)))),
        ("udsp", _, Some(p)) => format!("unix:{}", p).parse::<Endpoint>().ok(),
        ("udst", _, Some(p)) => Endpoint::try_from(format!("unix://{}", p)).ok(),
        _ => None,
    }
}

pub(super) const NET_CTORS_TCP: &[&str] = &["tcps", "tcpn", "tcpb", "tcpc"];
pub(super) const NET_CTORS_UDS: &[&str] = &["uds2", "udss", "udss2", "udsp", "udst", "udsl"];

pub(super) fn is_net_ctor(t: &str) -> bool {
    t == "tcp" || t == "uds" || NET_CTORS_TCP.contains(&t) || NET_CTORS_UDS.contains(&t)
}

/// The cases of the added dimensions (appended to C14's list before the real-time cases are spread).
pub(super) fn generate_x(thorough: bool, rng: &mut Rng, out: &mut Vec<String>) {
    let modes = ["L", "E"];
    // ---- corpus ----
    for c in [
        // Channel::new / Channel::connect with the user's connector as it is: a refused attempt is
        // UNAVAILABLE although no `Connector` wrapped its error (mutant aC14-1)
        "e2c L FS cc",
        "e2c E F c",
        "e2c E SFS cdcc",
        "e2c L XS cc",
        "e2c E X c",
        "e2c L FFS zzc",
        "e2c L FS p",
        "e2c E SS icc",
        "e2c L sfS cdcc",
        // a connector that insists on poll_ready before call (mutant aC14-3)
        "e2d L y FS cc",
        "e2d E y SFS cdcc",
        "e2d E y F c",
        "e2d L y FS pc",
        "e2d L yq SFS cdpp",
        "e2d L y sfS cdcc",
        // the peer goes silent; HTTP/2 keep-alive gives the connection up (mutant aC14-2)
        "e2d L k SS chc",
        "e2d E k SS hc",
        "e2d E k SFS chcc",
        "e2d L k SSS chchc",
        "e2d L kq SS chcc",
        "e2d L k S ccc",
        "e2d L k SS cdc",
        // origin / user agent: attempts go to the endpoint's URI (mutant aC14-4)
        "e2d L o FS cc",
        "e2d E o SFS cdcc",
        "e2d L o S c",
        // executor, windows, one-slot buffer
        "e2d L x FS cc",
        "e2d E x SFS cdcc",
        "e2d L w SS icc",
        "e2d E b SFS cdcc",
        "e2d L b FS zcc",
        "e2d L xwbo SFS cdcc",
        // abandoned calls: the next call uses the same connection; with concurrency_limit(1) the
        // permit of the abandoned call comes back
        "e2e L S ac",
        "e2e L S aaac",
        "e2e E SS adc",
        "e2e L FS ac",
        "e2d L q S aac",
        "e2d L q SS aicc",
        "e2d E qr S aapc",
        "e2d L z FS ac",
        "e2d L s S aac",
        "e2c L S aac",
        // a call abandoned while its attempt is in progress: the attempt's failure goes to the NEXT
        // call (finding C14-F1; witness of C14_abandon_spec_fails first), its connection is used
        "e2a L FS Ac",
        "e2a L FS Acc",
        "e2a L SS Ac",
        "e2a L FF Acc",
        "e2a L FS AAc",
        "e2a L FS AdAc",
        "e2a E SFS dAcc",
        "e2a E SSS dAdc",
        "e2a E SFS Ac",
        "e2a L XS Acc",
        "e2a L fS Acc",
        "e2a L sF AdcdAc",
        "e2a L - AA",
        "e2a E F A",
    ] {
        out.push(c.to_string());
    }
    // ---- e2a: every script with an abandoned call up to the bound ----
    let ops_max = if thorough { 7 } else { 5 };
    for m in modes {
        for ops in all_strings_upto(&['c', 'd', 'A'], ops_max) {
            if !ops.contains('A') {
                continue;
            }
            let calls = ops.chars().filter(|c| *c != 'd').count();
            let attempts = calls + if m == "E" { 1 } else { 0 };
            if !thorough && ops.len() == ops_max && attempts > 4 {
                let all_s: String = "S".repeat(attempts);
                let alt: String = (0..attempts).map(|i| if i % 2 == 0 { 'F' } else { 'S' }).collect();
                let alt2: String = (0..attempts).map(|i| if i % 2 == 0 { 'S' } else { 'F' }).collect();
                for outs in [all_s, alt, alt2] {
                    out.push(format!("e2a {} {} {}", m, tok(&outs), tok(&ops)));
                }
                continue;
            }
            for outs in all_strings(&['F', 'S'], attempts) {
                out.push(format!("e2a {} {} {}", m, tok(&outs), tok(&ops)));
            }
        }
    }
    let n = if thorough { 2000 } else { 150 };
    for _ in 0..n {
        let m = *rng.pick(&modes);
        let olen = rng.range(1, if thorough { 16 } else { 10 }) as usize;
        let ops = rand_string(rng, &[('c', 4), ('A', 3), ('d', 2)], olen);
        let alen = rng.range(0, olen as u64 + 2) as usize;
        let outs = rand_string(rng, &[('F', 3), ('S', 4), ('X', 1), ('f', 1), ('s', 2), ('x', 1)], alen);
        out.push(format!("e2a {} {} {}", m, tok(&outs), tok(&ops)));
    }
    // ---- e2c: every fault script up to the bound (as e2n) ----
    let ops_max = if thorough { 6 } else { 4 };
    for m in modes {
        for ops in all_strings_upto(&['c', 'd'], ops_max) {
            let calls = ops.matches('c').count();
            let attempts = calls + if m == "E" { 1 } else { 0 };
            for outs in all_strings(&['F', 'S', 'X'], attempts) {
                out.push(format!("e2c {} {} {}", m, tok(&outs), tok(&ops)));
            }
        }
    }
    // ---- every added option under every small fault script ----
    let ops_max = if thorough { 5 } else { 3 };
    for m in modes {
        for opt in ["y", "k", "o", "x", "w", "b", "yk", "yq", "kq", "ox"] {
            let mut alpha = vec!['c', 'd', 'a'];
            if opt.contains('k') {
                alpha.push('h');
            }
            for ops in all_strings_upto(&alpha, ops_max) {
                let calls = ops.chars().filter(|c| *c == 'c' || *c == 'a').count();
                if calls == 0 {
                    continue;
                }
                let attempts = calls + if m == "E" { 1 } else { 0 };
                for outs in all_strings(&['F', 'S'], attempts) {
                    out.push(format!("e2d {} {} {} {}", m, opt, tok(&outs), tok(&ops)));
                }
            }
        }
    }
    // ---- abandoned calls at every script position of the plain kinds ----
    let ops_max = if thorough { 6 } else { 4 };
    for m in modes {
        for ops in all_strings_upto(&['c', 'a', 'd', 'i'], ops_max) {
            if !ops.contains('a') {
                continue;
            }
            let calls = ops.chars().filter(|c| *c != 'd').count();
            let attempts = calls + if m == "E" { 1 } else { 0 };
            for outs in all_strings(&['F', 'S'], attempts) {
                out.push(format!("e2e {} {} {}", m, tok(&outs), tok(&ops)));
                if outs.len() % 2 == 0 {
                    out.push(format!("e2d {} q {} {}", m, tok(&outs), tok(&ops)));
                }
            }
        }
    }
    // ---- random: all options, all ops ----
    let n = if thorough { 3000 } else { 250 };
    for _ in 0..n {
        let m = *rng.pick(&modes);
        let mut opt = String::new();
        for (c, w) in [('y', 3), ('k', 3), ('o', 4), ('x', 4), ('w', 5), ('b', 5), ('q', 5), ('r', 8), ('l', 8)] {
            if rng.chance(1, w) {
                opt.push(c);
            }
        }
        let olen = rng.range(1, if thorough { 14 } else { 9 }) as usize;
        let mut alpha = vec![('c', 4), ('z', 1), ('a', 2), ('i', 2), ('j', 1), ('d', 2), ('g', 1)];
        if opt.contains('k') {
            alpha.push(('h', 3));
        }
        if !opt.contains('b') {
            alpha.push(('p', 2));
        }
        let ops = rand_string(rng, &alpha, olen);
        let alen = rng.range(0, olen as u64 + 2) as usize;
        let outs = rand_string(rng, &[('F', 3), ('S', 5), ('X', 1), ('f', 1), ('s', 2)], alen);
        if opt.is_empty() || (!ops.contains('h') && rng.chance(1, 5)) {
            out.push(format!("e2c {} {} {}", m, tok(&outs), tok(&ops)));
        } else {
            out.push(format!("e2d {} {} {} {}", m, opt, tok(&outs), tok(&ops)));
        }
    }
    // ---- net: the other Endpoint constructors (real time; few) ----
    let scripts: &[&str] = if thorough {
        &["bc", "ubc", "bcuckcuc", "ubckcucc", "ukbcuc", "bcucxcuc"]
    } else {
        &["bcuckcuc", "ubckcucc"]
    };
    // the socket behind a symlinked directory that every server generation re-points (seed C14g)
    for m in modes {
        for sc in ["ubckcuc", "ubcxcucc", "ubckcuckcuc"] {
            out.push(format!("net udsl {} {}", m, sc));
        }
    }
    for ctor in NET_CTORS_TCP.iter().chain(NET_CTORS_UDS.iter()) {
        for m in modes {
            for sc in scripts {
                if sc.contains('x') && ctor.starts_with("tcp") {
                    continue;
                }
                out.push(format!("net {} {} {}", ctor, m, sc));
            }
        }
    }
}
