//! C19 — reflection resolves every registered symbol and file, and nothing else.
//!
//! A case is a builder configuration, a list of registrations (descriptor sets given decoded,
//! encoded, or as bytes prost rejects) and a list of request streams.  `execute` builds the REAL
//! `tonic_reflection::server::Builder` twice (`build_v1`, `build_v1alpha`), drives each service
//! in-process through its generated client (`ServerReflectionClient` directly over
//! `ServerReflectionServer`, i.e. the real codec, `client::Grpc`, `server::Grpc` and the request
//! loop) and canonicalises every response:
//!   * a file descriptor response is decoded with prost and compared (full prost equality) with
//!     every registered `FileDescriptorProto`; the token is the smallest matching index in
//!     registration order (`fd <i>`), the own reflection descriptor being the last index;
//!   * errors are `err <code>`: the status code only.  The message text of a status is not part of
//!     the comparison (DESIGN §3.3); the structural class of an error is the request it answers,
//!     which is visible from its position in the stream.  Likewise a builder error is
//!     `build-err decode` / `build-err invalid` (the two variants of `Error`), without its text;
//!   * the service list is printed sorted when no service name was chosen (the property then fixes
//!     the list only up to order), and as answered when names were chosen.
//!
//! Case grammar (tokens; optional names are `-` or `x<hex>`):
//!   case   := <kind label> inc <0|1> chosen (none | <k> name*k) regs <n> reg*n streams <s> stream*s
//!             [own <file> <file>]                      -- v1 then v1alpha own descriptor, iff inc=1
//!             [drive <via> <seq|par> <ops>]            -- HOW the case is driven (absent = direct seq, canonical ops)
//!   via    := direct   each generated client directly over its own `ServerReflectionServer`
//!           | routes   ONE `tonic::service::Routes` holding v1, v1alpha and a tonic-health service (routed by
//!                      `NamedService::NAME`); both clients call clones of it
//!           | h2 | h2z the same three services in the real `transport::Server` stack over an in-memory duplex
//!                      pipe, reached through a real `Channel` (h2z: gzip accepted + sent on both sides)
//!   par    := all streams of a version are open at the same time on clones of the one service
//!   step   := (in place of seq / par) lock-step: the request stream stays open and request i+1 is sent only
//!             after answer i was read (an interactive client such as grpcurl); a missing answer is `stalled`
//!   ops    := the builder program, a word over r (next registration), n (next `with_service_name`),
//!             i / o (`include_reflection_service(true / false)`); no i/o at all = the builder's default.
//!             `inc`, `chosen`, `regs` above are what the documented API says the program configures (the last
//!             i/o counts, default on); a case whose word disagrees with them is a bad case.
//!   reg    := S <k> file*k | E <k> file*k | B <hex>
//!   file   := F <name?> <pkg?> <extra> <k> msg*k <k> enum*k <k> svc*k
//!   msg    := <name?> <k> msg*k <k> enum*k <k> name?*k <k> name?*k      (nested, enums, fields, oneofs)
//!   enum   := <name?> <k> name?*k
//!   svc    := <name?> <k> name?*k
//!   stream := <k> req*k
//!   req    := <host> (N | F <hex> | Y <hex> | X <hex> <num> | A <hex> | L <hex>)
use crate::common::*;
use prost::Message;
use prost_types::{
    DescriptorProto, EnumDescriptorProto, EnumValueDescriptorProto, FieldDescriptorProto,
    FileDescriptorProto, FileDescriptorSet, MethodDescriptorProto, OneofDescriptorProto,
    ServiceDescriptorProto,
};
use std::collections::BTreeSet;
use tonic_reflection::server::{Builder, Error};

type Nm = Option<String>;

#[derive(Clone, Debug, PartialEq)]
struct EnumD {
    name: Nm,
    values: Vec<Nm>,
}
#[derive(Clone, Debug, PartialEq)]
struct Msg {
    name: Nm,
    nested: Vec<Msg>,
    enums: Vec<EnumD>,
    fields: Vec<Nm>,
    oneofs: Vec<Nm>,
}
#[derive(Clone, Debug, PartialEq)]
struct Svc {
    name: Nm,
    methods: Vec<Nm>,
}
#[derive(Clone, Debug, PartialEq)]
struct FileD {
    name: Nm,
    package: Nm,
    extra: u64,
    msgs: Vec<Msg>,
    enums: Vec<EnumD>,
    svcs: Vec<Svc>,
}
#[derive(Clone, Debug)]
enum Reg {
    S(Vec<FileD>),
    E(Vec<FileD>),
    B(Vec<u8>),
}
#[derive(Clone, Debug)]
enum ReqK {
    N,
    F(String),
    Y(String),
    X(String, i32),
    A(String),
    L(String),
}
#[derive(Clone, Debug)]
struct Req {
    host: String,
    k: ReqK,
}
#[derive(Clone, Debug)]
struct Case {
    inc: bool,
    chosen: Option<Vec<String>>,
    regs: Vec<Reg>,
    streams: Vec<Vec<Req>>,
    own: Option<(FileD, FileD)>,
    drive: Option<Drive>,
}
#[derive(Clone, Copy, Debug, PartialEq)]
enum Via {
    Direct,
    Routes,
    H2,
    H2z,
}
#[derive(Clone, Debug)]
struct Drive {
    via: Via,
    mode: Mode,
    ops: String,
}
#[derive(Clone, Copy, Debug, PartialEq)]
enum Mode {
    Seq,
    Par,
    Step,
}
impl Via {
    fn tok(self) -> &'static str {
        match self {
            Via::Direct => "direct",
            Via::Routes => "routes",
            Via::H2 => "h2",
            Via::H2z => "h2z",
        }
    }
}
/// the builder program of a case without a `drive` section: registrations, names, include(inc)
fn canonical_ops(c: &Case) -> String {
    let mut s = "r".repeat(c.regs.len());
    s.push_str(&"n".repeat(c.chosen.as_ref().map_or(0, |l| l.len())));
    s.push(if c.inc { 'i' } else { 'o' });
    s
}
/// what the documented API says a builder program configures: (registrations, names, include)
fn ops_reading(ops: &str) -> Option<(usize, usize, bool)> {
    let (mut r, mut n, mut inc) = (0, 0, true);
    for ch in ops.chars() {
        match ch {
            'r' => r += 1,
            'n' => n += 1,
            'i' => inc = true,
            'o' => inc = false,
            _ => return None,
        }
    }
    Some((r, n, inc))
}

// ---------------------------------------------------------------- rendering

fn nm_tok(n: &Nm) -> String {
    match n {
        None => "-".into(),
        Some(s) => hex(s.as_bytes()),
    }
}
fn push_names(out: &mut Vec<String>, ns: &[Nm]) {
    out.push(ns.len().to_string());
    for n in ns {
        out.push(nm_tok(n));
    }
}
fn push_enum(out: &mut Vec<String>, e: &EnumD) {
    out.push(nm_tok(&e.name));
    push_names(out, &e.values);
}
fn push_msg(out: &mut Vec<String>, m: &Msg) {
    out.push(nm_tok(&m.name));
    out.push(m.nested.len().to_string());
    for x in &m.nested {
        push_msg(out, x);
    }
    out.push(m.enums.len().to_string());
    for e in &m.enums {
        push_enum(out, e);
    }
    push_names(out, &m.fields);
    push_names(out, &m.oneofs);
}
fn push_file(out: &mut Vec<String>, f: &FileD) {
    out.push("F".into());
    out.push(nm_tok(&f.name));
    out.push(nm_tok(&f.package));
    out.push(f.extra.to_string());
    out.push(f.msgs.len().to_string());
    for m in &f.msgs {
        push_msg(out, m);
    }
    out.push(f.enums.len().to_string());
    for e in &f.enums {
        push_enum(out, e);
    }
    out.push(f.svcs.len().to_string());
    for s in &f.svcs {
        out.push(nm_tok(&s.name));
        push_names(out, &s.methods);
    }
}
fn render_case(c: &Case) -> String {
    let mut o: Vec<String> = Vec::new();
    o.push("inc".into());
    o.push(if c.inc { "1" } else { "0" }.into());
    o.push("chosen".into());
    match &c.chosen {
        None => o.push("none".into()),
        Some(l) => {
            o.push(l.len().to_string());
            for s in l {
                o.push(hex(s.as_bytes()));
            }
        }
    }
    o.push("regs".into());
    o.push(c.regs.len().to_string());
    for r in &c.regs {
        match r {
            Reg::S(fs) | Reg::E(fs) => {
                o.push(if matches!(r, Reg::S(_)) { "S" } else { "E" }.into());
                o.push(fs.len().to_string());
                for f in fs {
                    push_file(&mut o, f);
                }
            }
            Reg::B(b) => {
                o.push("B".into());
                o.push(hex(b));
            }
        }
    }
    o.push("streams".into());
    o.push(c.streams.len().to_string());
    for s in &c.streams {
        o.push(s.len().to_string());
        for r in s {
            o.push(hex(r.host.as_bytes()));
            match &r.k {
                ReqK::N => o.push("N".into()),
                ReqK::F(s) => {
                    o.push("F".into());
                    o.push(hex(s.as_bytes()))
                }
                ReqK::Y(s) => {
                    o.push("Y".into());
                    o.push(hex(s.as_bytes()))
                }
                ReqK::X(s, n) => {
                    o.push("X".into());
                    o.push(hex(s.as_bytes()));
                    o.push(n.to_string())
                }
                ReqK::A(s) => {
                    o.push("A".into());
                    o.push(hex(s.as_bytes()))
                }
                ReqK::L(s) => {
                    o.push("L".into());
                    o.push(hex(s.as_bytes()))
                }
            }
        }
    }
    if let Some((a, b)) = &c.own {
        o.push("own".into());
        push_file(&mut o, a);
        push_file(&mut o, b);
    }
    if let Some(d) = &c.drive {
        o.push("drive".into());
        o.push(d.via.tok().into());
        o.push(match d.mode {
            Mode::Seq => "seq",
            Mode::Par => "par",
            Mode::Step => "step",
        }
        .into());
        o.push(if d.ops.is_empty() { "-".into() } else { d.ops.clone() });
    }
    o.join(" ")
}

// ---------------------------------------------------------------- parsing

struct P<'a> {
    t: Vec<&'a str>,
    i: usize,
}
impl<'a> P<'a> {
    fn next(&mut self) -> Option<&'a str> {
        let r = self.t.get(self.i).copied();
        self.i += 1;
        r
    }
    fn expect(&mut self, s: &str) -> Option<()> {
        if self.next()? == s {
            Some(())
        } else {
            None
        }
    }
    fn num(&mut self) -> Option<usize> {
        self.next()?.parse().ok()
    }
    fn string(&mut self) -> Option<String> {
        String::from_utf8(unhex(self.next()?)?).ok()
    }
    fn nm(&mut self) -> Option<Nm> {
        let t = self.next()?;
        if t == "-" {
            Some(None)
        } else {
            Some(Some(String::from_utf8(unhex(t)?).ok()?))
        }
    }
    fn names(&mut self) -> Option<Vec<Nm>> {
        let k = self.num()?;
        (0..k).map(|_| self.nm()).collect()
    }
    fn enumd(&mut self) -> Option<EnumD> {
        Some(EnumD { name: self.nm()?, values: self.names()? })
    }
    fn msg(&mut self, depth: usize) -> Option<Msg> {
        if depth > 64 {
            return None;
        }
        let name = self.nm()?;
        let k = self.num()?;
        let nested = (0..k).map(|_| self.msg(depth + 1)).collect::<Option<Vec<_>>>()?;
        let k = self.num()?;
        let enums = (0..k).map(|_| self.enumd()).collect::<Option<Vec<_>>>()?;
        let fields = self.names()?;
        let oneofs = self.names()?;
        Some(Msg { name, nested, enums, fields, oneofs })
    }
    fn file(&mut self) -> Option<FileD> {
        self.expect("F")?;
        let name = self.nm()?;
        let package = self.nm()?;
        let extra = self.next()?.parse().ok()?;
        let k = self.num()?;
        let msgs = (0..k).map(|_| self.msg(0)).collect::<Option<Vec<_>>>()?;
        let k = self.num()?;
        let enums = (0..k).map(|_| self.enumd()).collect::<Option<Vec<_>>>()?;
        let k = self.num()?;
        let svcs = (0..k)
            .map(|_| Some(Svc { name: self.nm()?, methods: self.names()? }))
            .collect::<Option<Vec<_>>>()?;
        Some(FileD { name, package, extra, msgs, enums, svcs })
    }
    fn case(&mut self) -> Option<Case> {
        self.expect("inc")?;
        let inc = match self.next()? {
            "0" => false,
            "1" => true,
            _ => return None,
        };
        self.expect("chosen")?;
        let chosen = if self.t.get(self.i).copied()? == "none" {
            self.i += 1;
            None
        } else {
            let k = self.num()?;
            Some((0..k).map(|_| self.string()).collect::<Option<Vec<_>>>()?)
        };
        self.expect("regs")?;
        let n = self.num()?;
        let mut regs = Vec::new();
        for _ in 0..n {
            match self.next()? {
                "S" => {
                    let k = self.num()?;
                    regs.push(Reg::S((0..k).map(|_| self.file()).collect::<Option<Vec<_>>>()?));
                }
                "E" => {
                    let k = self.num()?;
                    regs.push(Reg::E((0..k).map(|_| self.file()).collect::<Option<Vec<_>>>()?));
                }
                "B" => regs.push(Reg::B(unhex(self.next()?)?)),
                _ => return None,
            }
        }
        self.expect("streams")?;
        let s = self.num()?;
        let mut streams = Vec::new();
        for _ in 0..s {
            let k = self.num()?;
            let mut reqs = Vec::new();
            for _ in 0..k {
                let host = self.string()?;
                let k = match self.next()? {
                    "N" => ReqK::N,
                    "F" => ReqK::F(self.string()?),
                    "Y" => ReqK::Y(self.string()?),
                    "X" => {
                        let s = self.string()?;
                        ReqK::X(s, self.next()?.parse().ok()?)
                    }
                    "A" => ReqK::A(self.string()?),
                    "L" => ReqK::L(self.string()?),
                    _ => return None,
                };
                reqs.push(Req { host, k });
            }
            streams.push(reqs);
        }
        let own = if inc {
            self.expect("own")?;
            Some((self.file()?, self.file()?))
        } else {
            None
        };
        let drive = if self.i < self.t.len() {
            self.expect("drive")?;
            let via = match self.next()? {
                "direct" => Via::Direct,
                "routes" => Via::Routes,
                "h2" => Via::H2,
                "h2z" => Via::H2z,
                _ => return None,
            };
            let mode = match self.next()? {
                "seq" => Mode::Seq,
                "par" => Mode::Par,
                "step" => Mode::Step,
                _ => return None,
            };
            let ops = match self.next()? {
                "-" => String::new(),
                w => w.to_string(),
            };
            let (r, n, i) = ops_reading(&ops)?;
            if r != regs.len() || n != chosen.as_ref().map_or(0, |l: &Vec<String>| l.len()) || i != inc {
                return None;
            }
            Some(Drive { via, mode, ops })
        } else {
            None
        };
        if self.i != self.t.len() {
            return None;
        }
        Some(Case { inc, chosen, regs, streams, own, drive })
    }
}

fn parse_case(s: &str) -> Option<Case> {
    let mut p = P { t: s.split(' ').filter(|x| !x.is_empty()).collect(), i: 0 };
    // leading label (`corpus`, `structured`, …): only for the evidence statistics
    if p.t.first().map_or(false, |t| *t != "inc") {
        p.i = 1;
    }
    p.case()
}

// ---------------------------------------------------------------- descriptor <-> prost

/// `rich = false`: a skeleton descriptor (names only; what `ReflWire.encFile` models byte for
/// byte).  `rich = true`: numbers, labels, types as protoc would write them.
fn enum_proto(e: &EnumD, rich: bool) -> EnumDescriptorProto {
    EnumDescriptorProto {
        name: e.name.clone(),
        value: e
            .values
            .iter()
            .enumerate()
            .map(|(i, v)| EnumValueDescriptorProto { name: v.clone(), number: if rich { Some(i as i32) } else { None }, options: None })
            .collect(),
        ..Default::default()
    }
}
fn msg_proto(m: &Msg, rich: bool) -> DescriptorProto {
    DescriptorProto {
        name: m.name.clone(),
        nested_type: m.nested.iter().map(|x| msg_proto(x, rich)).collect(),
        enum_type: m.enums.iter().map(|x| enum_proto(x, rich)).collect(),
        field: m
            .fields
            .iter()
            .enumerate()
            .map(|(i, f)| FieldDescriptorProto {
                name: f.clone(),
                number: if rich { Some(i as i32 + 1) } else { None },
                label: if rich { Some(1) } else { None },
                r#type: if rich { Some(9) } else { None },
                json_name: if rich { f.clone() } else { None },
                // rich descriptors: the first fields are members of the message's oneofs, every other one
                // as a proto3 `optional` field (its oneof is then "synthetic" - still a declared name that
                // must resolve: seed C19e)
                oneof_index: if rich && i < m.oneofs.len() { Some(i as i32) } else { None },
                proto3_optional: if rich && i < m.oneofs.len() && i % 2 == 0 { Some(true) } else { None },
                ..Default::default()
            })
            .collect(),
        oneof_decl: m.oneofs.iter().map(|o| OneofDescriptorProto { name: o.clone(), options: None }).collect(),
        ..Default::default()
    }
}
/// Deterministic and injective on `FileD`: everything the model does not look at is a function
/// of `extra`.
fn file_proto(f: &FileD) -> FileDescriptorProto {
    let x = f.extra;
    let rich = x != 0;
    FileDescriptorProto {
        name: f.name.clone(),
        package: f.package.clone(),
        dependency: if x == 0 { vec![] } else { vec![format!("dep{}.proto", x)] },
        public_dependency: if x % 2 == 1 { vec![0] } else { vec![] },
        syntax: match x % 3 {
            0 => None,
            1 => Some("proto3".into()),
            _ => Some("proto2".into()),
        },
        options: if x >= 2 {
            Some(prost_types::FileOptions { java_package: Some(format!("com.example.x{}", x)), deprecated: Some(true), ..Default::default() })
        } else {
            None
        },
        source_code_info: if x >= 3 {
            Some(prost_types::SourceCodeInfo {
                location: vec![prost_types::source_code_info::Location {
                    path: vec![4, 0],
                    span: vec![1, 2, 3],
                    // extra = 5: a descriptor larger than an HTTP/2 flow-control window and tonic's
                    // buffer sizes (its answer takes several DATA frames and window updates)
                    leading_comments: Some(if x == 5 { "// é comment ".repeat(6000) } else { "// é comment".into() }),
                    ..Default::default()
                }],
            })
        } else {
            None
        },
        message_type: f.msgs.iter().map(|m| msg_proto(m, rich)).collect(),
        enum_type: f.enums.iter().map(|e| enum_proto(e, rich)).collect(),
        service: f
            .svcs
            .iter()
            .map(|s| ServiceDescriptorProto {
                name: s.name.clone(),
                method: s
                    .methods
                    .iter()
                    .map(|m| MethodDescriptorProto {
                        name: m.clone(),
                        input_type: if rich { Some(".google.protobuf.Empty".into()) } else { None },
                        ..Default::default()
                    })
                    .collect(),
                options: None,
            })
            .collect(),
        ..Default::default()
    }
}
fn enum_of_proto(e: &EnumDescriptorProto) -> EnumD {
    EnumD { name: e.name.clone(), values: e.value.iter().map(|v| v.name.clone()).collect() }
}
fn msg_of_proto(m: &DescriptorProto) -> Msg {
    Msg {
        name: m.name.clone(),
        nested: m.nested_type.iter().map(msg_of_proto).collect(),
        enums: m.enum_type.iter().map(enum_of_proto).collect(),
        fields: m.field.iter().map(|f| f.name.clone()).collect(),
        oneofs: m.oneof_decl.iter().map(|o| o.name.clone()).collect(),
    }
}
/// `extra` of a real (protoc-made) descriptor: its content beyond the names is opaque.
const OPAQUE: u64 = 999;

/// The name skeleton of a real descriptor (used for the reflection services' own descriptors).
fn file_of_proto(f: &FileDescriptorProto) -> FileD {
    FileD {
        name: f.name.clone(),
        package: f.package.clone(),
        extra: OPAQUE,
        msgs: f.message_type.iter().map(msg_of_proto).collect(),
        enums: f.enum_type.iter().map(enum_of_proto).collect(),
        svcs: f
            .service
            .iter()
            .map(|s| Svc { name: s.name.clone(), methods: s.method.iter().map(|m| m.name.clone()).collect() })
            .collect(),
    }
}
fn own_protos() -> (FileDescriptorProto, FileDescriptorProto) {
    let a = FileDescriptorSet::decode(tonic_reflection::pb::v1::FILE_DESCRIPTOR_SET).expect("own v1");
    let b = FileDescriptorSet::decode(tonic_reflection::pb::v1alpha::FILE_DESCRIPTOR_SET).expect("own v1alpha");
    assert!(a.file.len() == 1 && b.file.len() == 1);
    (a.file[0].clone(), b.file[0].clone())
}

// ---------------------------------------------------------------- execution against the real code

/// The builder program of the case, call by call, on the REAL builder.
fn builder_for<'b>(c: &Case, encoded: &'b [Option<Vec<u8>>]) -> Builder<'b> {
    let ops = match &c.drive {
        Some(d) => d.ops.clone(),
        None => canonical_ops(c),
    };
    let mut b = Builder::configure();
    let (mut ri, mut ni) = (0usize, 0usize);
    for ch in ops.chars() {
        match ch {
            'r' => {
                match &c.regs[ri] {
                    Reg::S(fs) => {
                        b = b.register_file_descriptor_set(FileDescriptorSet { file: fs.iter().map(file_proto).collect() });
                    }
                    Reg::E(_) | Reg::B(_) => {
                        b = b.register_encoded_file_descriptor_set(encoded[ri].as_ref().unwrap());
                    }
                }
                ri += 1;
            }
            'n' => {
                b = b.with_service_name(c.chosen.as_ref().unwrap()[ni].clone());
                ni += 1;
            }
            'i' => b = b.include_reflection_service(true),
            'o' => b = b.include_reflection_service(false),
            _ => unreachable!("checked by the parser"),
        }
    }
    b
}

fn build_err(e: &Error) -> String {
    match e {
        Error::DecodeError(_) => "build-err decode".into(),
        Error::InvalidFileDescriptorSet(_) => "build-err invalid".into(),
    }
}

fn fnv1a(b: &[u8]) -> u64 {
    let mut h: u64 = 0xcbf29ce484222325;
    for x in b {
        h = (h ^ (*x as u64)).wrapping_mul(0x100000001b3);
    }
    h
}

/// `fd <i> <bytes>`: index of the registered descriptor the answer decodes to (prost, full
/// equality) and the answer bytes themselves: `-` when descriptor i is opaque (`extra != 0`),
/// the bytes when at most 96 of them, else their FNV-1a digest.
fn fd_token(bytes: &[Vec<u8>], all: &[FileDescriptorProto], extras: &[u64]) -> String {
    if bytes.len() != 1 {
        return format!("fds {}", bytes.len());
    }
    match FileDescriptorProto::decode(&bytes[0][..]) {
        Err(_) => "fd-undecodable".into(),
        Ok(fd) => match all.iter().position(|x| *x == fd) {
            Some(i) => {
                let b = &bytes[0];
                let w = if extras[i] != 0 {
                    "-".to_string()
                } else if b.len() <= 96 {
                    hex(b)
                } else {
                    format!("h{:016x}", fnv1a(b))
                };
                format!("fd {} {}", i, w)
            }
            None => "fd-unknown".into(),
        },
    }
}

/// what the canonicalisation of one version's answers needs
struct Ctx {
    all: Vec<FileDescriptorProto>,
    extras: Vec<u64>,
    sort_services: bool,
}

type StdError = Box<dyn std::error::Error + Send + Sync + 'static>;
type LocalFut<'a, T> = std::pin::Pin<Box<dyn std::future::Future<Output = T> + 'a>>;

/// Polls every future on each wake-up until all are done (no spawning: the futures are all alive
/// and interleaved on the one thread, in a fixed order).
async fn join_all<'a, T>(mut futs: Vec<LocalFut<'a, T>>) -> Vec<T> {
    let mut outs: Vec<Option<T>> = futs.iter().map(|_| None).collect();
    std::future::poll_fn(|cx| {
        let mut pending = false;
        for (i, f) in futs.iter_mut().enumerate() {
            if outs[i].is_none() {
                match f.as_mut().poll(cx) {
                    std::task::Poll::Ready(v) => outs[i] = Some(v),
                    std::task::Poll::Pending => pending = true,
                }
            }
        }
        if pending {
            std::task::Poll::Pending
        } else {
            std::task::Poll::Ready(())
        }
    })
    .await;
    outs.into_iter().map(|o| o.unwrap()).collect()
}

macro_rules! version_mod {
    ($m:ident, $pb:path, $build:ident) => {
        mod $m {
            use super::*;
            use $pb as pb;
            use pb::server_reflection_client::ServerReflectionClient;
            use pb::server_reflection_request::MessageRequest;
            use pb::server_reflection_response::MessageResponse;
            use pb::server_reflection_server::{ServerReflection, ServerReflectionServer};
            use tonic::codec::CompressionEncoding;

            /// the real builder run on the case's program, then `build_v1` / `build_v1alpha`
            pub fn build(c: &Case, encoded: &[Option<Vec<u8>>], gzip: bool) -> Result<ServerReflectionServer<impl ServerReflection>, Error> {
                let s = builder_for(c, encoded).$build()?;
                Ok(if gzip { s.accept_compressed(CompressionEncoding::Gzip).send_compressed(CompressionEncoding::Gzip) } else { s })
            }

            /// `NamedService::NAME` of the generated server: what `Routes` / `transport::Server` route by
            pub fn server_name<S: ServerReflection>(_: &ServerReflectionServer<S>) -> &'static str {
                <ServerReflectionServer<S> as tonic::server::NamedService>::NAME
            }

            /// one call of `ServerReflectionInfo` through the generated client over `t`
            async fn one_stream<T>(t: T, gzip: bool, step: bool, stream: &[Req], ctx: &Ctx) -> Vec<String>
            where
                T: tonic::client::GrpcService<tonic::body::Body>,
                T::Error: Into<StdError>,
                T::ResponseBody: http_body::Body<Data = bytes::Bytes> + Send + 'static,
                <T::ResponseBody as http_body::Body>::Error: Into<StdError> + Send,
            {
                let reqs: Vec<pb::ServerReflectionRequest> = stream
                    .iter()
                    .map(|r| pb::ServerReflectionRequest {
                        host: r.host.clone(),
                        message_request: match &r.k {
                            ReqK::N => None,
                            ReqK::F(s) => Some(MessageRequest::FileByFilename(s.clone())),
                            ReqK::Y(s) => Some(MessageRequest::FileContainingSymbol(s.clone())),
                            ReqK::X(s, n) => Some(MessageRequest::FileContainingExtension(pb::ExtensionRequest {
                                containing_type: s.clone(),
                                extension_number: *n,
                            })),
                            ReqK::A(s) => Some(MessageRequest::AllExtensionNumbersOfType(s.clone())),
                            ReqK::L(s) => Some(MessageRequest::ListServices(s.clone())),
                        },
                    })
                    .collect();
                let sent = reqs.clone();
                let mut o: Vec<String> = vec!["[".into()];
                let mut client = ServerReflectionClient::new(t);
                if gzip {
                    client = client.send_compressed(CompressionEncoding::Gzip).accept_compressed(CompressionEncoding::Gzip);
                }
                // lock-step: the requests go through a channel, one at a time, each after the previous answer
                let (tx, rx) = tokio::sync::mpsc::channel::<pb::ServerReflectionRequest>(1);
                let mut tx = Some(tx);
                let resp = if step {
                    client.server_reflection_info(tokio_stream::wrappers::ReceiverStream::new(rx)).await
                } else {
                    tx = None;
                    drop(rx);
                    client.server_reflection_info(tokio_stream::iter(reqs)).await
                };
                let mut inbound = match resp {
                    Err(st) => {
                        o.push(format!("call-err {}", st.code() as i32));
                        o.push("]".into());
                        return o;
                    }
                    Ok(r) => r.into_inner(),
                };
                let mut idx = 0usize;
                loop {
                    if step {
                        if idx < sent.len() {
                            if let Some(tx) = &tx {
                                let _ = tx.send(sent[idx].clone()).await;
                            }
                        } else {
                            tx = None; // all requests sent and answered: end the request stream
                        }
                    }
                    let next = if step {
                        match tokio::time::timeout(std::time::Duration::from_secs(5), inbound.message()).await {
                            Ok(r) => r,
                            Err(_) => {
                                o.push("stalled".into());
                                break;
                            }
                        }
                    } else {
                        inbound.message().await
                    };
                    match next {
                        Ok(Some(m)) => {
                            let echo = idx < sent.len() && m.valid_host == sent[idx].host && m.original_request.as_ref() == Some(&sent[idx]);
                            o.push(if echo { "r1".into() } else { "r0".into() });
                            match m.message_response {
                                None => o.push("empty".into()),
                                Some(MessageResponse::FileDescriptorResponse(f)) => o.push(fd_token(&f.file_descriptor_proto, &ctx.all, &ctx.extras)),
                                Some(MessageResponse::AllExtensionNumbersResponse(e)) => {
                                    if e == pb::ExtensionNumberResponse::default() {
                                        o.push("ext-empty".into())
                                    } else {
                                        o.push("ext-other".into())
                                    }
                                }
                                Some(MessageResponse::ListServicesResponse(l)) => {
                                    o.push(format!("svcs {}", l.service.len()));
                                    let mut names: Vec<&str> = l.service.iter().map(|s| s.name.as_str()).collect();
                                    if ctx.sort_services {
                                        names.sort_unstable_by(|a, b| a.as_bytes().cmp(b.as_bytes()));
                                    }
                                    for n in names {
                                        o.push(hex(n.as_bytes()));
                                    }
                                }
                                Some(MessageResponse::ErrorResponse(e)) => o.push(format!("error-response {}", e.error_code)),
                            }
                            idx += 1;
                            if idx > sent.len() + 4 {
                                o.push("runaway".into());
                                break;
                            }
                        }
                        Ok(None) => {
                            o.push("end".into());
                            break;
                        }
                        Err(st) => {
                            o.push(format!("err {}", st.code() as i32));
                            break;
                        }
                    }
                }
                o.push("]".into());
                o
            }

            /// every stream of the case over clones of `t`: one after the other, or (`par`) all open at once
            pub async fn run<T>(t: T, gzip: bool, mode: Mode, streams: &[Vec<Req>], ctx: &Ctx) -> String
            where
                T: tonic::client::GrpcService<tonic::body::Body> + Clone,
                T::Error: Into<StdError>,
                T::ResponseBody: http_body::Body<Data = bytes::Bytes> + Send + 'static,
                <T::ResponseBody as http_body::Body>::Error: Into<StdError> + Send,
            {
                let mut out: Vec<String> = vec!["ok".into()];
                let step = mode == Mode::Step;
                if mode == Mode::Par {
                    let futs: Vec<LocalFut<'_, Vec<String>>> =
                        streams.iter().map(|s| Box::pin(one_stream(t.clone(), gzip, step, s, ctx)) as LocalFut<'_, Vec<String>>).collect();
                    for toks in join_all(futs).await {
                        out.extend(toks);
                    }
                } else {
                    for s in streams {
                        out.extend(one_stream(t.clone(), gzip, step, s, ctx).await);
                    }
                }
                out.join(" ")
            }
        }
    };
}
version_mod!(ver1, tonic_reflection::pb::v1, build_v1);
version_mod!(ver1a, tonic_reflection::pb::v1alpha, build_v1alpha);

pub fn execute(case: &str) -> String {
    let c = match parse_case(case) {
        Some(c) => c,
        None => return "bad-case".into(),
    };
    let (own1, own1a) = own_protos();
    if let Some((a, b)) = &c.own {
        if *a != file_of_proto(&own1) || *b != file_of_proto(&own1a) {
            return "bad-case own-descriptor-differs".into();
        }
    }
    // bytes for the encoded registrations (prost encoding of the descriptor set, or the raw bytes)
    let encoded: Vec<Option<Vec<u8>>> = c
        .regs
        .iter()
        .map(|r| match r {
            Reg::S(_) => None,
            Reg::E(fs) => Some(FileDescriptorSet { file: fs.iter().map(file_proto).collect() }.encode_to_vec()),
            Reg::B(b) => Some(b.clone()),
        })
        .collect();
    // all registered descriptors in registration (call) order; own descriptor last
    let mut all: Vec<FileDescriptorProto> = Vec::new();
    for r in &c.regs {
        match r {
            Reg::S(fs) | Reg::E(fs) => all.extend(fs.iter().map(file_proto)),
            Reg::B(_) => {}
        }
    }
    let mut extras: Vec<u64> = Vec::new();
    for r in &c.regs {
        match r {
            Reg::S(fs) | Reg::E(fs) => extras.extend(fs.iter().map(|f| f.extra)),
            Reg::B(_) => {}
        }
    }
    let mut all1 = all.clone();
    let mut all1a = all;
    if c.inc {
        all1.push(own1);
        all1a.push(own1a);
        extras.push(OPAQUE);
    }
    let sort_services = c.chosen.is_none();
    let ctx1 = Ctx { all: all1, extras: extras.clone(), sort_services };
    let ctx1a = Ctx { all: all1a, extras, sort_services };
    let (via, par) = match &c.drive {
        Some(d) => (d.via, d.mode),
        None => (Via::Direct, Mode::Seq),
    };
    let gzip = via == Via::H2z;
    let b1 = ver1::build(&c, &encoded, gzip);
    let b1a = ver1a::build(&c, &encoded, gzip);
    // virtual time: nothing here waits for a timer except the lock-step client's stall watchdog, which
    // therefore fires exactly when no task can make progress any more (deterministic, costs no real time)
    let rt = paused_rt();
    let (a, b) = match (b1, b1a) {
        (Ok(s1), Ok(s1a)) if via != Via::Direct => {
            // the route names the two generated servers register under (`NamedService::NAME`)
            let names = format!("names {} {}", hex(ver1::server_name(&s1).as_bytes()), hex(ver1a::server_name(&s1a).as_bytes()));
            let (_reporter, health) = tonic_health::server::health_reporter();
            let streams = &c.streams;
            let (a, b) = rt.block_on(async {
                if via == Via::Routes {
                    let routes = tonic::service::Routes::new(s1).add_service(s1a).add_service(health);
                    let a = ver1::run(routes.clone(), gzip, par, streams, &ctx1).await;
                    let b = ver1a::run(routes, gzip, par, streams, &ctx1a).await;
                    (a, b)
                } else {
                    use tokio_stream::StreamExt;
                    let (cio, sio) = tokio::io::duplex(1 << 16);
                    let incoming = tokio_stream::once(Ok::<_, std::io::Error>(sio)).chain(tokio_stream::pending());
                    tokio::spawn(async move {
                        let _ = tonic::transport::Server::builder().add_service(s1).add_service(s1a).add_service(health).serve_with_incoming(incoming).await;
                    });
                    let io = std::sync::Arc::new(std::sync::Mutex::new(Some(cio)));
                    let connector = tower::service_fn(move |_uri: http::Uri| {
                        let io = io.lock().unwrap().take();
                        async move {
                            match io {
                                Some(io) => Ok(hyper_util::rt::TokioIo::new(io)),
                                None => Err(std::io::Error::new(std::io::ErrorKind::ConnectionRefused, "one connection only")),
                            }
                        }
                    });
                    let channel = match tonic::transport::Endpoint::from_static("http://verif.test").connect_with_connector(connector).await {
                        Ok(ch) => ch,
                        Err(_) => return ("connect-failed".to_string(), "connect-failed".to_string()),
                    };
                    let a = ver1::run(channel.clone(), gzip, par, streams, &ctx1).await;
                    let b = ver1a::run(channel, gzip, par, streams, &ctx1a).await;
                    (a, b)
                }
            });
            (format!("{} {}", a, names), b)
        }
        (b1, b1a) => {
            let a = match b1 {
                Err(e) => build_err(&e),
                Ok(s) => rt.block_on(ver1::run(s, gzip, par, &c.streams, &ctx1)),
            };
            let b = match b1a {
                Err(e) => build_err(&e),
                Ok(s) => rt.block_on(ver1a::run(s, gzip, par, &c.streams, &ctx1a)),
            };
            (a, b)
        }
    };
    // leading class token: only for the evidence statistics (the model prints it too)
    let class = if a.starts_with("ok") {
        "built"
    } else if a.starts_with("build-err decode") {
        "rejected-undecodable"
    } else {
        "rejected-unnamed"
    };
    format!("{} v1 {} v1a {}", class, a, b)
}

// ---------------------------------------------------------------- generation

/// Small name pools so that collisions (same symbol in two files, a message named like a package,
/// a dotted name that looks like a nested one) are frequent.
const IDENTS: [&str; 14] = ["A", "B", "C", "a", "b", "Ab", "A.B", "p", "q", "", "é", "名", "A_", "a.b"];
const PKGS: [&str; 9] = ["", "p", "p.q", "A", "a.b", "q", "p.q.r", "é", "A.B"];
// (`dep<k>.proto` is what a file with `extra = k` imports: registered files that import each other,
// seed C19j)
const FILES: [&str; 10] = ["a.proto", "b.proto", "dir/a.proto", "", "A", "c.proto", "reflection_v1.proto", "dep1.proto", "dep2.proto", "dep3.proto"];

/// Path-shaped file names: spellings that a "helpful" lookup might identify with each other
/// (`./x`, `/x`, `x/`, doubled separators, `..`, case, trailing NUL / space, percent-escapes,
/// backslashes).  The index must treat every one of them as a different name.
const PATHY: [&str; 18] = [
    "./a.proto", "/a.proto", "a.proto/", "dir//a.proto", "dir/../a.proto", "dir/./a.proto", "A.PROTO", "Dir/a.proto",
    "a.proto ", " a.proto", "a.proto\0", "a%2Eproto", "dir%2Fa.proto", "dir%2fa.proto", "dir\\a.proto", "././a.proto",
    "../a.proto", "a.proto%00",
];

/// Path-shaped near misses of a file name (both directions: adding and removing decoration).
fn path_variants(s: &str) -> Vec<String> {
    let mut v: Vec<String> = vec![
        format!("./{}", s),
        format!("././{}", s),
        format!("/{}", s),
        format!("{}/", s),
        format!("dir/../{}", s),
        format!("../{}", s),
        format!("{} ", s),
        format!(" {}", s),
        format!("{}\0", s),
        format!("{}%00", s),
        s.to_uppercase(),
        s.to_lowercase(),
        s.replace('.', "%2E"),
        s.replace('.', "%2e"),
        s.replace('/', "%2F"),
        s.replace('/', "\\"),
        s.replacen('/', "//", 1),
        s.replacen('/', "/./", 1),
        s.replace("%2E", ".").replace("%2e", ".").replace("%2F", "/").replace("%2f", "/").replace("%00", ""),
        s.replace("//", "/"),
        s.replace("/./", "/"),
        s.replace("\\", "/"),
        s.trim_start_matches("./").to_string(),
        s.trim_start_matches('/').to_string(),
        s.trim_end_matches('/').to_string(),
        s.trim().to_string(),
        s.trim_end_matches('\0').to_string(),
    ];
    if let Some((d, f)) = s.split_once('/') {
        v.push(format!("{}/../{}/{}", d, d, f));
        v.push(format!("{}//{}", d, f));
        if d == ".." || d == "." {
            v.push(f.to_string());
        }
    } else {
        v.push(format!("dir//{}", s));
    }
    if let Some(rest) = s.strip_prefix("dir/../") {
        v.push(rest.to_string());
    }
    v.retain(|x| x != s);
    v.sort();
    v.dedup();
    v
}

fn mutate_path(rng: &mut Rng, s: &str) -> String {
    let v = path_variants(s);
    if v.is_empty() {
        format!("./{}", s)
    } else {
        rng.pick(&v).clone()
    }
}

struct G<'a> {
    rng: &'a mut Rng,
    /// probability (percent) of a missing name at each position
    p_missing: u64,
}
impl<'a> G<'a> {
    fn ident(&mut self) -> Nm {
        if self.rng.chance(self.p_missing, 100) {
            return None;
        }
        if self.rng.chance(1, 12) {
            // a fresh longer name
            let n = self.rng.range(1, 6) as usize;
            return Some((0..n).map(|_| *self.rng.pick(&['x', 'Y', 'z', '_', '1'])).collect());
        }
        Some((*self.rng.pick(&IDENTS)).to_string())
    }
    fn count(&mut self, max: u64) -> usize {
        // biased to 0,1,2
        match self.rng.below(8) {
            0 | 1 => 0,
            2 | 3 | 4 => 1,
            5 | 6 => 2.min(max) as usize,
            _ => self.rng.range(0, max) as usize,
        }
    }
    fn names(&mut self, max: u64) -> Vec<Nm> {
        let k = self.count(max);
        (0..k).map(|_| self.ident()).collect()
    }
    fn enumd(&mut self) -> EnumD {
        EnumD { name: self.ident(), values: self.names(3) }
    }
    fn msg(&mut self, depth: u64) -> Msg {
        let nested = if depth == 0 {
            vec![]
        } else {
            let k = if self.rng.chance(1, 3) { self.count(2).max(1) } else { self.count(2) };
            (0..k).map(|_| self.msg(depth - 1)).collect()
        };
        let ne = self.count(2);
        Msg {
            name: self.ident(),
            nested,
            enums: (0..ne).map(|_| self.enumd()).collect(),
            fields: self.names(3),
            oneofs: self.names(2),
        }
    }
    fn file(&mut self) -> FileD {
        let depth = *self.rng.pick(&[0u64, 1, 1, 2, 2, 3, 4]);
        let nm = self.count(3);
        let ne = self.count(2);
        let ns = self.count(2);
        let name = if self.rng.chance(self.p_missing, 100) {
            None
        } else if self.rng.chance(1, 6) {
            Some((*self.rng.pick(&PATHY)).to_string())
        } else {
            Some((*self.rng.pick(&FILES)).to_string())
        };
        let package = match self.rng.below(10) {
            0 | 1 => None,
            _ => Some((*self.rng.pick(&PKGS)).to_string()),
        };
        FileD {
            name,
            package,
            extra: if self.rng.chance(1, 60) { 5 } else { *self.rng.pick(&[0u64, 0, 0, 1, 2, 3, 4]) },
            msgs: (0..nm).map(|_| self.msg(depth)).collect(),
            enums: (0..ne).map(|_| self.enumd()).collect(),
            svcs: (0..ns).map(|_| Svc { name: self.ident(), methods: self.names(3) }).collect(),
        }
    }
}

/// Independent enumeration of the fully-qualified names a file declares (used only to pick
/// queries; the verdict is computed in Lean).
fn q(pre: &str, n: &str) -> String {
    if pre.is_empty() {
        n.to_string()
    } else {
        format!("{}.{}", pre, n)
    }
}
fn enum_names(pre: &str, e: &EnumD, out: &mut Vec<String>) {
    if let Some(n) = &e.name {
        let en = q(pre, n);
        for v in e.values.iter().flatten() {
            out.push(q(&en, v));
            out.push(q(pre, v)); // protobuf's own (sibling) scoping of enum values: a near miss here
        }
        out.push(en);
    }
}
fn msg_names(pre: &str, m: &Msg, out: &mut Vec<String>) {
    if let Some(n) = &m.name {
        let mn = q(pre, n);
        for x in &m.nested {
            msg_names(&mn, x, out);
        }
        for e in &m.enums {
            enum_names(&mn, e, out);
        }
        for f in m.fields.iter().chain(m.oneofs.iter()).flatten() {
            out.push(q(&mn, f));
        }
        out.push(mn);
    }
}
fn file_names(f: &FileD, out: &mut Vec<String>) {
    let pkg = f.package.clone().unwrap_or_default();
    for m in &f.msgs {
        msg_names(&pkg, m, out);
    }
    for e in &f.enums {
        enum_names(&pkg, e, out);
    }
    for s in &f.svcs {
        if let Some(n) = &s.name {
            let sn = q(&pkg, n);
            for m in s.methods.iter().flatten() {
                out.push(q(&sn, m));
            }
            out.push(sn);
        }
    }
    if !pkg.is_empty() {
        out.push(pkg); // a package is not a symbol of the index
    }
}

fn mutate_name(rng: &mut Rng, s: &str) -> String {
    let parts: Vec<&str> = s.split('.').collect();
    if rng.chance(1, 3) {
        // spellings a "helpful" look-up might identify with the declared name: blanks / NUL / newline
        // around it, the gRPC path and type-URL forms, one ASCII letter in the other case, a
        // decomposed accent
        let last_dot_slash = match s.rfind('.') {
            Some(i) => format!("{}/{}", &s[..i], &s[i + 1..]),
            None => format!("/{}", s),
        };
        let flip = |at_end: bool| -> String {
            let mut cs: Vec<char> = s.chars().collect();
            let idx: Vec<usize> = cs.iter().enumerate().filter(|(_, c)| c.is_ascii_alphabetic()).map(|(i, _)| i).collect();
            if let Some(&i) = if at_end { idx.last() } else { idx.first() } {
                cs[i] = if cs[i].is_ascii_uppercase() { cs[i].to_ascii_lowercase() } else { cs[i].to_ascii_uppercase() };
            } else {
                cs.push('_');
            }
            cs.into_iter().collect()
        };
        let v: Vec<String> = vec![
            format!(" {}", s),
            format!("{} ", s),
            format!("{}\0", s),
            format!("{}\n", s),
            format!("\t{}", s),
            format!("/{}", s),
            format!("{}/", s),
            last_dot_slash.clone(),
            format!("/{}", last_dot_slash),
            format!("type.googleapis.com/{}", s),
            format!("type.googleapis.com/.{}", s),
            format!("({})", s),
            format!("[{}]", s),
            flip(false),
            flip(true),
            if s.contains('é') { s.replace('é', "e\u{301}") } else { format!("{}\u{301}", s) },
            s.replace('.', "/"),
            s.replace('.', "::"),
            s.replace('.', "$"),
        ];
        return rng.pick(&v).clone();
    }
    match rng.below(12) {
        0 => format!("{}.", s),
        1 => format!(".{}", s),
        2 => {
            // drop one component
            if parts.len() > 1 {
                let k = rng.below(parts.len() as u64) as usize;
                parts.iter().enumerate().filter(|(i, _)| *i != k).map(|(_, p)| *p).collect::<Vec<_>>().join(".")
            } else {
                String::new()
            }
        }
        3 => {
            // duplicate one component
            let k = rng.below(parts.len() as u64) as usize;
            let mut v = parts.clone();
            v.insert(k, parts[k]);
            v.join(".")
        }
        4 => s.to_uppercase(),
        5 => s.to_lowercase(),
        6 => s.replace('.', ".."),
        7 => s.replacen('.', "", 1),
        8 => format!("{}x", s),
        9 => {
            // swap two components
            let mut v = parts.clone();
            if v.len() > 1 {
                let k = rng.below(v.len() as u64 - 1) as usize;
                v.swap(k, k + 1);
            }
            v.join(".")
        }
        10 => {
            let mut cs: Vec<char> = s.chars().collect();
            cs.pop();
            cs.into_iter().collect()
        }
        _ => format!("{}.{}", s, rng.pick(&IDENTS)),
    }
}

fn host(rng: &mut Rng) -> String {
    (*rng.pick(&["", "", "h", "localhost:50051", "é"])).to_string()
}

/// Request streams for a set of files: every declared name, every file name, near misses,
/// services, extension requests; an error ends a stream, so possibly-unknown names go last.
fn streams_for(rng: &mut Rng, files: &[&FileD], own: Option<&(FileD, FileD)>, dense: bool) -> Vec<Vec<Req>> {
    let mut declared: Vec<String> = Vec::new();
    for f in files {
        file_names(f, &mut declared);
    }
    let mut fnames: Vec<String> = files.iter().filter_map(|f| f.name.clone()).collect();
    if let Some((a, b)) = own {
        let mut on = Vec::new();
        file_names(a, &mut on);
        file_names(b, &mut on);
        // a few of the own names
        for _ in 0..3 {
            declared.push(rng.pick(&on).clone());
        }
        fnames.push(a.name.clone().unwrap());
        fnames.push(b.name.clone().unwrap());
    }
    let set: BTreeSet<String> = declared.iter().cloned().collect();
    let declared: Vec<String> = set.into_iter().collect();
    // `ok`: requests expected to be answered; `bad`: requests expected to end the stream.  (The
    // expectation is only used to arrange the streams; the model and the spec decide.)
    let mut ok: Vec<ReqK> = Vec::new();
    let mut bad: Vec<ReqK> = Vec::new();
    ok.push(ReqK::L(String::new()));
    let cap = if dense { 60 } else { 24 };
    let mut pick: Vec<String> = declared.clone();
    while pick.len() > cap {
        let k = rng.below(pick.len() as u64) as usize;
        pick.swap_remove(k);
    }
    for n in &pick {
        ok.push(ReqK::Y(n.clone()));
    }
    for n in &fnames {
        ok.push(ReqK::F(n.clone()));
    }
    // near misses
    let nmut = if dense { 16 } else { 8 };
    for _ in 0..nmut {
        if !declared.is_empty() {
            let n = rng.pick(&declared).clone();
            bad.push(ReqK::Y(mutate_name(rng, &n)));
        }
    }
    for _ in 0..3 {
        if !fnames.is_empty() {
            let n = rng.pick(&fnames).clone();
            bad.push(ReqK::F(mutate_name(rng, &n)));
            // path-shaped near misses of a file name
            bad.push(ReqK::F(mutate_path(rng, &n)));
            bad.push(ReqK::F(mutate_path(rng, &n)));
            // a symbol asked as a file and a file asked as a symbol
            bad.push(ReqK::Y(n));
        }
        if !declared.is_empty() {
            bad.push(ReqK::F(rng.pick(&declared).clone()));
        }
    }
    bad.push(ReqK::Y(String::new()));
    bad.push(ReqK::F(String::new()));
    bad.push(ReqK::Y("no.such.Symbol".into()));
    ok.push(ReqK::A(declared.first().cloned().unwrap_or_default()));
    bad.push(ReqK::X(declared.first().cloned().unwrap_or_default(), rng.below(5) as i32));
    bad.push(ReqK::N);
    ok.push(ReqK::L("*".into()));
    // the same request again (a look-up must not depend on what was asked before)
    if rng.chance(1, 3) {
        for _ in 0..rng.range(1, 4) {
            let k = rng.pick(&ok).clone();
            ok.push(k);
        }
    }
    for v in [&mut ok, &mut bad] {
        for i in (1..v.len()).rev() {
            let j = rng.below(i as u64 + 1) as usize;
            v.swap(i, j);
        }
    }
    // streams: a run of 0..5 `ok` requests, then usually one `bad` one (which ends the stream),
    // sometimes followed by more requests that must then stay unanswered
    let mut streams: Vec<Vec<Req>> = Vec::new();
    if rng.chance(1, 8) {
        // one long stream with every request expected to be answered (the response channel has
        // capacity 1: exercises the loop's back-pressure path), then one that ends it
        let mut cur: Vec<Req> = ok.drain(..).map(|k| Req { host: host(rng), k }).collect();
        if let Some(r) = bad.pop() {
            cur.push(Req { host: host(rng), k: r });
        }
        streams.push(cur);
    }
    while !ok.is_empty() || !bad.is_empty() {
        let mut cur: Vec<Req> = Vec::new();
        let k = rng.range(0, 5) as usize;
        for _ in 0..k {
            if let Some(r) = ok.pop() {
                cur.push(Req { host: host(rng), k: r });
            }
        }
        if ok.is_empty() || rng.chance(4, 5) {
            if let Some(r) = bad.pop() {
                cur.push(Req { host: host(rng), k: r });
                if rng.chance(1, 6) {
                    cur.push(Req { host: host(rng), k: ReqK::L(String::new()) });
                }
            }
        }
        if !cur.is_empty() {
            streams.push(cur);
        }
    }
    // histories inside one stream: a name served from one table, then asked of the other table
    if rng.chance(1, 4) && !fnames.is_empty() {
        let n = rng.pick(&fnames).clone();
        streams.push(vec![
            Req { host: host(rng), k: ReqK::F(n.clone()) },
            Req { host: host(rng), k: ReqK::F(n.clone()) },
            Req { host: host(rng), k: ReqK::Y(n) },
        ]);
    }
    if rng.chance(1, 4) && !declared.is_empty() {
        let n = rng.pick(&declared).clone();
        streams.push(vec![
            Req { host: host(rng), k: ReqK::Y(n.clone()) },
            Req { host: host(rng), k: ReqK::Y(n.clone()) },
            Req { host: host(rng), k: ReqK::F(n) },
        ]);
    }
    if rng.chance(1, 10) {
        streams.push(Vec::new()); // a stream with no request at all
    }
    streams
}

fn own_files() -> (FileD, FileD) {
    let (a, b) = own_protos();
    (file_of_proto(&a), file_of_proto(&b))
}

fn all_files(regs: &[Reg]) -> Vec<&FileD> {
    let mut v = Vec::new();
    for r in regs {
        match r {
            Reg::S(fs) | Reg::E(fs) => v.extend(fs.iter()),
            Reg::B(_) => {}
        }
    }
    v
}

/// A builder program for (`nregs` registrations, `nchosen` names, include = `inc`): the calls in any
/// interleaving, `include_reflection_service` called never (default), once, or several times (the
/// last call counts).
fn gen_ops(rng: &mut Rng, nregs: usize, nchosen: usize, inc: bool) -> String {
    let mut w: Vec<char> = Vec::new();
    w.extend(std::iter::repeat('r').take(nregs));
    w.extend(std::iter::repeat('n').take(nchosen));
    for i in (1..w.len()).rev() {
        let j = rng.below(i as u64 + 1) as usize;
        w.swap(i, j);
    }
    let fin = if inc { 'i' } else { 'o' };
    let calls: Vec<char> = match rng.below(5) {
        0 | 1 if inc => vec![],
        0 | 1 | 2 => vec![fin],
        3 => vec![if inc { 'o' } else { 'i' }, fin],
        _ => vec![*rng.pick(&['i', 'o']), *rng.pick(&['i', 'o']), fin],
    };
    for ch in calls {
        // each later include call goes somewhere after the previous one
        let from = w.iter().rposition(|x| *x == 'i' || *x == 'o').map_or(0, |p| p + 1);
        let at = rng.range(from as u64, w.len() as u64) as usize;
        w.insert(at, ch);
    }
    w.into_iter().collect()
}

fn gen_drive(rng: &mut Rng, c: &Case) -> Drive {
    let via = match rng.below(20) {
        0..=2 => Via::Routes,
        3 | 4 => Via::H2,
        5 => Via::H2z,
        _ => Via::Direct,
    };
    let mode = match rng.below(8) {
        0 | 1 => Mode::Par,
        2 => Mode::Step,
        _ => Mode::Seq,
    };
    let ops = if rng.chance(1, 2) { canonical_ops(c) } else { gen_ops(rng, c.regs.len(), c.chosen.as_ref().map_or(0, |l| l.len()), c.inc) };
    Drive { via, mode, ops }
}

fn finish(kind: &str, rng: &mut Rng, inc: bool, chosen: Option<Vec<String>>, regs: Vec<Reg>, dense: bool) -> String {
    let own = if inc { Some(own_files()) } else { None };
    let streams = {
        let files = all_files(&regs);
        streams_for(rng, &files, own.as_ref(), dense)
    };
    let mut c = Case { inc, chosen, regs, streams, own, drive: None };
    c.drive = Some(gen_drive(rng, &c));
    format!("{} {}", kind, render_case(&c))
}

/// the same, driven in a given way
fn finish_with(kind: &str, rng: &mut Rng, inc: bool, chosen: Option<Vec<String>>, regs: Vec<Reg>, via: Via, mode: Mode, ops: Option<&str>) -> String {
    let own = if inc { Some(own_files()) } else { None };
    let streams = {
        let files = all_files(&regs);
        streams_for(rng, &files, own.as_ref(), true)
    };
    let mut c = Case { inc, chosen, regs, streams, own, drive: None };
    let ops = ops.map(|s| s.to_string()).unwrap_or_else(|| canonical_ops(&c));
    c.drive = Some(Drive { via, mode, ops });
    format!("{} {}", kind, render_case(&c))
}

fn undecodable(rng: &mut Rng) -> Vec<u8> {
    // candidates that prost rejects as a FileDescriptorSet; verified here with prost itself
    let cands: Vec<Vec<u8>> = vec![
        vec![0x0a, 0x05, 0x01],             // truncated length-delimited field
        vec![0x0a],                         // tag without length
        vec![0xff, 0xff, 0xff, 0xff, 0xff, 0xff, 0xff, 0xff, 0xff, 0xff, 0xff], // overlong varint
        vec![0x0b, 0x00],                   // wire type 3 for field 1
        vec![0x0a, 0x02, 0x0a, 0x05],       // inner truncated string
        vec![0x0a, 0x03, 0x0a, 0x01, 0xff], // name is not UTF-8
        vec![0x0f],                         // invalid wire type 7
    ];
    loop {
        let c = if rng.chance(3, 4) { rng.pick(&cands).clone() } else { let n = rng.range(1, 12) as usize; rng.bytes(n) };
        if FileDescriptorSet::decode(&c[..]).is_err() {
            return c;
        }
    }
}

fn m(name: &str, nested: Vec<Msg>, enums: Vec<EnumD>, fields: &[&str], oneofs: &[&str]) -> Msg {
    Msg {
        name: Some(name.into()),
        nested,
        enums,
        fields: fields.iter().map(|s| Some(s.to_string())).collect(),
        oneofs: oneofs.iter().map(|s| Some(s.to_string())).collect(),
    }
}
fn en(name: &str, values: &[&str]) -> EnumD {
    EnumD { name: Some(name.into()), values: values.iter().map(|s| Some(s.to_string())).collect() }
}
fn sv(name: &str, methods: &[&str]) -> Svc {
    Svc { name: Some(name.into()), methods: methods.iter().map(|s| Some(s.to_string())).collect() }
}
fn fl(name: &str, pkg: Option<&str>, extra: u64, msgs: Vec<Msg>, enums: Vec<EnumD>, svcs: Vec<Svc>) -> FileD {
    FileD { name: Some(name.into()), package: pkg.map(|s| s.to_string()), extra, msgs, enums, svcs }
}

fn corpus(rng: &mut Rng) -> Vec<String> {
    let mut out = Vec::new();
    let deep = m(
        "Outer",
        vec![m(
            "Mid",
            vec![m("Inner", vec![m("Leaf", vec![], vec![en("E", &["V0", "V1"])], &["f"], &["o"])], vec![], &["x"], &[])],
            vec![en("Kind", &["A", "B"])],
            &["mid_field"],
            &["choice"],
        )],
        vec![en("Top", &["T0"])],
        &["a", "b"],
        &["one"],
    );
    let f1 = fl("a.proto", Some("pkg.sub"), 0, vec![deep.clone()], vec![en("FileEnum", &["X", "Y"])], vec![sv("Svc", &["Get", "Put"])]);
    let f1_nopkg = fl("b.proto", None, 0, vec![deep.clone()], vec![en("FileEnum", &["X"])], vec![sv("Svc", &["Get"])]);
    let f1_emptypkg = fl("c.proto", Some(""), 1, vec![m("M", vec![], vec![], &["f"], &[])], vec![], vec![sv("S2", &[])]);
    // 1. tonic's own three test symbols' shape: only the own descriptor
    out.push(finish("corpus", rng, true, None, vec![], true));
    // 2. depth-4 nesting, package present / absent / empty
    out.push(finish("corpus", rng, false, None, vec![Reg::S(vec![f1.clone()])], true));
    out.push(finish("corpus", rng, false, None, vec![Reg::E(vec![f1_nopkg.clone()])], true));
    out.push(finish("corpus", rng, true, None, vec![Reg::E(vec![f1.clone(), f1_nopkg.clone(), f1_emptypkg.clone()])], true));
    // 3. duplicate registration: identical file twice (same set, two sets, decoded + encoded)
    out.push(finish("corpus", rng, false, None, vec![Reg::S(vec![f1.clone(), f1.clone()])], false));
    out.push(finish("corpus", rng, false, None, vec![Reg::E(vec![f1.clone()]), Reg::S(vec![f1.clone()])], false));
    // 4. same file name, different content: encoded registered first, decoded second (the builder
    //    processes decoded sets first)
    let f1b = fl("a.proto", Some("other"), 0, vec![m("Only", vec![], vec![], &["z"], &[])], vec![], vec![sv("OtherSvc", &["M"])]);
    out.push(finish("corpus", rng, false, None, vec![Reg::E(vec![f1.clone()]), Reg::S(vec![f1b.clone()])], true));
    out.push(finish("corpus", rng, false, None, vec![Reg::S(vec![f1.clone()]), Reg::S(vec![f1b.clone()])], true));
    out.push(finish("corpus", rng, false, None, vec![Reg::E(vec![f1b.clone(), f1.clone()])], true));
    // 5. same symbol in two different files (last processed wins)
    let g1 = fl("x.proto", Some("p"), 0, vec![m("M", vec![], vec![], &["f"], &[])], vec![], vec![sv("S", &["m"])]);
    let g2 = fl("y.proto", Some("p"), 0, vec![m("M", vec![], vec![], &["g"], &[])], vec![], vec![sv("S", &["n"])]);
    out.push(finish("corpus", rng, false, None, vec![Reg::S(vec![g1.clone(), g2.clone()])], true));
    out.push(finish("corpus", rng, false, None, vec![Reg::E(vec![g1.clone()]), Reg::S(vec![g2.clone()])], true));
    // 5b. registered files that import each other: a chain top -> dep1.proto -> dep2.proto, and an
    // import of a file that is not registered; each query is answered with its own file alone
    let i0 = fl("top.proto", Some("imp"), 1, vec![m("Top", vec![], vec![], &["f"], &[])], vec![], vec![sv("TopSvc", &["Get"])]);
    let i1 = fl("dep1.proto", Some("imp.d1"), 2, vec![m("Mid", vec![], vec![], &["g"], &[])], vec![], vec![]);
    let i2 = fl("dep2.proto", Some("imp.d2"), 0, vec![m("Leaf", vec![], vec![], &["h"], &[])], vec![en("LeafEnum", &["X"])], vec![]);
    out.push(finish("corpus", rng, false, None, vec![Reg::S(vec![i0.clone(), i1.clone(), i2.clone()])], true));
    out.push(finish("corpus", rng, false, None, vec![Reg::S(vec![i2.clone(), i1.clone(), i0.clone()])], true));
    out.push(finish("corpus", rng, false, None, vec![Reg::E(vec![i0.clone()]), Reg::S(vec![i1.clone()])], true));
    // 6. dotted names that collide with nesting: message "A.B" vs message A { message B }
    let h1 = fl("h1.proto", None, 0, vec![m("A.B", vec![], vec![], &["f"], &[])], vec![], vec![]);
    let h2 = fl("h2.proto", Some("A"), 0, vec![m("B", vec![], vec![], &["g"], &[])], vec![], vec![]);
    out.push(finish("corpus", rng, false, None, vec![Reg::S(vec![h1, h2])], true));
    // 7. explicitly chosen services (existing, unknown, repeated) vs declared
    for chosen in [vec!["pkg.sub.Svc".to_string()], vec!["nope".into(), "nope".into()], vec!["pkg.sub.Svc".into(), "S2".into(), "pkg.sub.Svc".into()]] {
        out.push(finish("corpus", rng, true, Some(chosen.clone()), vec![Reg::S(vec![f1.clone(), f1_emptypkg.clone()])], false));
        out.push(finish("corpus", rng, false, Some(chosen), vec![Reg::E(vec![f1.clone()])], false));
    }
    // 8. missing names at every kind of position
    let mut miss: Vec<FileD> = Vec::new();
    let mut x = f1.clone(); x.name = None; miss.push(x);
    let mut x = f1.clone(); x.msgs[0].name = None; miss.push(x);
    let mut x = f1.clone(); x.msgs[0].nested[0].nested[0].name = None; miss.push(x);
    let mut x = f1.clone(); x.msgs[0].enums[0].name = None; miss.push(x);
    let mut x = f1.clone(); x.msgs[0].enums[0].values[0] = None; miss.push(x);
    let mut x = f1.clone(); x.msgs[0].fields[1] = None; miss.push(x);
    let mut x = f1.clone(); x.msgs[0].oneofs[0] = None; miss.push(x);
    let mut x = f1.clone(); x.enums[0].name = None; miss.push(x);
    let mut x = f1.clone(); x.enums[0].values[1] = None; miss.push(x);
    let mut x = f1.clone(); x.svcs[0].name = None; miss.push(x);
    let mut x = f1.clone(); x.svcs[0].methods[1] = None; miss.push(x);
    for x in miss {
        out.push(finish("corpus", rng, false, None, vec![Reg::S(vec![x.clone()])], false));
        // a skipped duplicate is not examined at all: the bad file hides behind a good one
        let mut y = x.clone();
        if y.name.is_some() {
            out.push(finish("corpus", rng, false, None, vec![Reg::S(vec![f1.clone(), y.clone()])], false));
            y.name = Some("z.proto".into());
            out.push(finish("corpus", rng, true, None, vec![Reg::S(vec![f1.clone()]), Reg::E(vec![y])], false));
        }
    }
    // 9. undecodable bytes: alone, after good sets, before a set with a missing name
    out.push(finish("corpus", rng, false, None, vec![Reg::B(vec![0x0a, 0x05, 0x01])], false));
    out.push(finish("corpus", rng, true, None, vec![Reg::S(vec![f1.clone()]), Reg::B(vec![0x0a])], false));
    let mut noname = f1.clone(); noname.name = None;
    out.push(finish("corpus", rng, false, None, vec![Reg::S(vec![noname]), Reg::B(vec![0x0b, 0x00])], false));
    // 10. a user file that takes the own descriptor's file name (own descriptor is then skipped)
    let squat = fl("reflection_v1.proto", Some("grpc.reflection.v1"), 0, vec![m("ServerReflectionRequest", vec![], vec![], &["host"], &[])], vec![], vec![]);
    out.push(finish("corpus", rng, true, None, vec![Reg::S(vec![squat])], true));
    // 12. path-shaped file names: every spelling is its own name.  Each registered spelling and
    //     every variant of it is asked in a stream of its own (an error ends a stream).
    out.extend(path_corpus());
    // 13. how the case is driven: every transport x sequential / concurrent streams
    let big = fl("big.proto", Some("big"), 5, vec![m("Big", vec![], vec![], &["f"], &["o"])], vec![], vec![sv("BigSvc", &["Get"])]);
    for via in [Via::Direct, Via::Routes, Via::H2, Via::H2z] {
        for par in [Mode::Seq, Mode::Par, Mode::Step] {
            out.push(finish_with("corpus", rng, true, None, vec![Reg::S(vec![f1.clone()]), Reg::E(vec![big.clone(), f1_nopkg.clone()])], via, par, None));
            out.push(finish_with("corpus", rng, false, Some(vec!["pkg.sub.Svc".into()]), vec![Reg::E(vec![f1.clone()])], via, par, None));
        }
    }
    // 14. builder programs: the default (include_reflection_service never called), calls in every order,
    //     include toggled (the last call counts), names before registrations
    for (inc, ops) in [(true, "rr"), (true, "irr"), (true, "roir"), (false, "rro"), (false, "orr"), (false, "irro"), (true, "oorri"), (false, "iroir o")] {
        let ops: String = ops.chars().filter(|c| *c != ' ').collect();
        out.push(finish_with("corpus", rng, inc, None, vec![Reg::S(vec![f1.clone()]), Reg::E(vec![f1_emptypkg.clone()])], Via::Direct, Mode::Seq, Some(&ops)));
    }
    for (inc, ops) in [(true, "nrnr"), (true, "nnrr"), (false, "ornrn"), (false, "nonrir o"), (true, "rnorni")] {
        let ops: String = ops.chars().filter(|c| *c != ' ').collect();
        out.push(finish_with("corpus", rng, inc, Some(vec!["pkg.sub.Svc".into(), "nope".into()]), vec![Reg::S(vec![f1.clone()]), Reg::E(vec![f1_emptypkg.clone()])], Via::Direct, Mode::Seq, Some(&ops)));
    }
    // 11. empty everything
    out.push(finish("corpus", rng, false, None, vec![], false));
    out.push(finish("corpus", rng, false, None, vec![Reg::S(vec![]), Reg::E(vec![])], false));
    out.push(finish("corpus", rng, false, None, vec![Reg::S(vec![fl("", Some(""), 0, vec![m("", vec![m("", vec![], vec![], &[""], &[""])], vec![en("", &[""])], &[], &[])], vec![], vec![sv("", &[""])])])], true));
    out
}

fn path_corpus() -> Vec<String> {
    let mut out = Vec::new();
    let one = |name: &str, i: usize| fl(name, Some("pp"), 0, vec![m(&format!("M{}", i), vec![], vec![], &["f"], &[])], vec![], vec![]);
    let one_stream = |k: ReqK| vec![Req { host: String::new(), k }];
    let groups: Vec<Vec<&str>> = vec![
        vec!["a.proto"],
        vec!["dir/a.proto"],
        vec!["./a.proto"],
        vec!["/a.proto", "a.proto/"],
        vec!["dir//a.proto", "dir/../a.proto"],
        vec!["A.PROTO", "a.proto ", "a.proto\0"],
        vec!["a%2Eproto", "dir%2Fa.proto"],
        // decorated and plain spelling registered side by side: each retrieves its own file
        vec!["a.proto", "./a.proto", "/a.proto", "A.proto"],
    ];
    for g in groups {
        let files: Vec<FileD> = g.iter().enumerate().map(|(i, n)| one(n, i)).collect();
        let mut asked: BTreeSet<String> = BTreeSet::new();
        for n in &g {
            asked.insert(n.to_string());
            asked.extend(path_variants(n));
        }
        let mut streams: Vec<Vec<Req>> = asked.iter().map(|n| one_stream(ReqK::F(n.clone()))).collect();
        // the declared symbol still resolves to its file, whatever the file is called
        for i in 0..g.len() {
            streams.push(one_stream(ReqK::Y(format!("pp.M{}", i))));
        }
        for enc in [false, true] {
            let regs = vec![if enc { Reg::E(files.clone()) } else { Reg::S(files.clone()) }];
            out.push(format!("corpus {}", render_case(&Case { inc: false, chosen: None, regs, streams: streams.clone(), own: None, drive: None })));
        }
    }
    out
}

fn random_case(kind: &str, rng: &mut Rng, p_missing: u64, p_bad: u64, dense: bool) -> String {
    let mut pool: Vec<FileD> = Vec::new();
    let nregs = *rng.pick(&[0usize, 1, 1, 2, 2, 3, 4]);
    let mut regs = Vec::new();
    for _ in 0..nregs {
        if rng.chance(p_bad, 100) {
            regs.push(Reg::B(undecodable(rng)));
            continue;
        }
        let k = *rng.pick(&[0usize, 1, 1, 1, 2, 2, 3]);
        let mut fs = Vec::new();
        for _ in 0..k {
            let f = match rng.below(10) {
                // exact duplicate of an earlier file
                0 | 1 if !pool.is_empty() => rng.pick(&pool).clone(),
                // same name, other content
                2 if !pool.is_empty() => {
                    let mut g = G { rng, p_missing };
                    let mut f = g.file();
                    f.name = g.rng.pick(&pool).name.clone();
                    f
                }
                // same content, other name / other extra
                3 if !pool.is_empty() => {
                    let mut f = rng.pick(&pool).clone();
                    if rng.chance(1, 2) {
                        f.name = Some((*rng.pick(&FILES)).to_string());
                    } else {
                        f.extra += 1;
                    }
                    f
                }
                _ => G { rng, p_missing }.file(),
            };
            pool.push(f.clone());
            fs.push(f);
        }
        regs.push(if rng.chance(1, 2) { Reg::S(fs) } else { Reg::E(fs) });
    }
    let inc = rng.chance(1, 3);
    let chosen = if rng.chance(1, 5) {
        let mut declared = Vec::new();
        for f in &pool {
            for s in &f.svcs {
                if let Some(n) = &s.name {
                    declared.push(q(&f.package.clone().unwrap_or_default(), n));
                }
            }
        }
        let k = rng.range(1, 3) as usize;
        Some(
            (0..k)
                .map(|_| if !declared.is_empty() && rng.chance(2, 3) { rng.pick(&declared).clone() } else { "x.Unknown".to_string() })
                .collect(),
        )
    } else {
        None
    };
    finish(kind, rng, inc, chosen, regs, dense)
}

/// Small-scope exhaustive tier: every sequence of up to three registrations (decoded or encoded,
/// one file each) over a catalogue of file shapes chosen to collide in every way the index can
/// confuse: same file name / same symbols / dotted names / package = message name / identical
/// duplicates.  Queries: every name any catalogue file declares, every file name, near misses.
fn exhaustive() -> Vec<String> {
    let cat: Vec<FileD> = vec![
        fl("a.proto", Some("p"), 0, vec![m("M", vec![m("N", vec![], vec![en("E", &["V"])], &["f"], &[])], vec![], &["f"], &["o"])], vec![], vec![sv("S", &["m"])]),
        // same name as #0, other content
        fl("a.proto", Some("p"), 0, vec![m("M", vec![], vec![], &["g"], &[])], vec![en("E", &["V"])], vec![sv("T", &["m"])]),
        // other name, overlapping symbols with #0
        fl("b.proto", Some("p"), 0, vec![m("M", vec![], vec![], &["f", "h"], &[])], vec![], vec![sv("S", &["n"])]),
        // no package; dotted message name colliding with #0's nesting
        fl("c.proto", None, 0, vec![m("p.M", vec![m("N", vec![], vec![], &[], &[])], vec![], &["f"], &[])], vec![en("p", &["M"])], vec![]),
        // package equal to a full message name of #0
        fl("d.proto", Some("p.M"), 1, vec![m("N", vec![], vec![], &["E"], &["f"])], vec![en("o", &[])], vec![sv("N", &["E"])]),
        // same as #2 except for content the index does not read
        fl("b.proto", Some("p"), 3, vec![m("M", vec![], vec![], &["f", "h"], &[])], vec![], vec![sv("S", &["n"])]),
    ];
    let mut names: BTreeSet<String> = BTreeSet::new();
    for f in &cat {
        let mut v = Vec::new();
        file_names(f, &mut v);
        names.extend(v);
    }
    for extra in ["p.M.N.E.V.x", "p.M.", ".p.M", "M", "p.S.m.m", "p.M.N.V", ""] {
        names.insert(extra.to_string());
    }
    let fnames = ["a.proto", "b.proto", "c.proto", "d.proto", "e.proto"];
    // every symbol query in its own stream (an error ends a stream), one stream for lists/files
    let mut streams: Vec<Vec<Req>> = Vec::new();
    streams.push(vec![Req { host: String::new(), k: ReqK::L(String::new()) }]);
    for n in &names {
        streams.push(vec![Req { host: String::new(), k: ReqK::Y(n.clone()) }]);
    }
    for n in fnames {
        streams.push(vec![Req { host: String::new(), k: ReqK::F(n.to_string()) }]);
    }
    let mut out = Vec::new();
    let k = cat.len();
    let mk = |idx: &[usize], kinds: usize| -> String {
        let regs: Vec<Reg> = idx
            .iter()
            .enumerate()
            .map(|(j, i)| if (kinds >> j) & 1 == 0 { Reg::S(vec![cat[*i].clone()]) } else { Reg::E(vec![cat[*i].clone()]) })
            .collect();
        format!("exhaustive {}", render_case(&Case { inc: false, chosen: None, regs, streams: streams.clone(), own: None, drive: None }))
    };
    for a in 0..k {
        for kinds in 0..2 {
            out.push(mk(&[a], kinds));
        }
        for b in 0..k {
            for kinds in 0..4 {
                out.push(mk(&[a, b], kinds));
            }
            for c in 0..k {
                for kinds in 0..8 {
                    out.push(mk(&[a, b, c], kinds));
                }
            }
        }
    }
    out
}

pub fn generate(tier: &str, rng: &mut Rng) -> Vec<String> {
    let thorough = tier == "thorough";
    let mut out = corpus(rng);
    // structured: well-named forests
    let n_struct = if thorough { 30000 } else { 3000 };
    for _ in 0..n_struct {
        out.push(random_case("structured", rng, 0, 0, false));
    }
    // malformed: missing names, undecodable sets
    let n_mal = if thorough { 9000 } else { 900 };
    for i in 0..n_mal {
        let (kind, pm, pb) = match i % 3 {
            0 => ("malformed-names", 3, 0),
            1 => ("malformed-bytes", 0, 25),
            _ => ("malformed-mixed", 6, 15),
        };
        out.push(random_case(kind, rng, pm, pb, false));
    }
    if thorough {
        out.extend(exhaustive());
    }
    out
}
