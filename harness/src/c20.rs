//! C20 — rich error details round-trip through a status.
//!
//! Cases (one line each):
//!   vec <code> <msg> <b0|b1> <nmeta> (<k> <v>)* <n> <detail>*      Status::with_error_details_vec[_and_metadata]
//!   set <code> <msg> <b0|b1> <nmeta> (<k> <v>)* <slot>*10          Status::with_error_details[_and_metadata]
//!   raw <code> <msg> <bytes>                                        Status::with_details (arbitrary details bytes)
//! detail tokens: RI - | RI <secs> <nanos> | RN <secs> <nanos> (through RetryInfo::new) |
//!   DI <n> <s>* <detail> | QF <n> (<subj> <desc>)* | EI <reason> <domain> <n> (<k> <v>)* |
//!   PF <n> (<type> <subj> <desc>)* | BR <n> (<field> <desc>)* | RQ <id> <data> |
//!   RS <type> <name> <owner> <desc> | HP <n> (<desc> <url>)* | LM <locale> <msg>;  slot = `-` | detail.
//! Every case: build the status, `Status::add_header` into a HeaderMap, `Status::from_header_map`
//! back, then observe on the recovered status
//!   T <code> <msg> <details bytes> M <n> (<k> <v>)*            outer status after the header trip
//!   E ok <code> <msg> <ndetails> | E err                          pb::Status::decode(details)
//!   V ok <n> <detail>* | V err                                    check_error_details_vec
//!   S ok <slot>*10 | S err                                        check_error_details
//!   G <slot>*10                                                   the ten get_details_* getters
//!   D <n> <k>                                                     get_error_details_vec().len(), #present in get_error_details()
//!
//! `x <trip> <pre> <obs> <hist> <vec|set|raw case>`: the same round trip taken another way (other
//! entry points, histories, metadata under reserved names, fuller observation) — see c20_x.rs.
use crate::common::*;
use http::HeaderMap;
use prost::Message;
use std::collections::HashMap;
use std::time::Duration;
use tonic::metadata::{KeyAndValueRef, MetadataKey, MetadataMap, MetadataValue};
use tonic::{Code, Status};
use tonic_types::{
    pb, BadRequest, DebugInfo, ErrorDetail, ErrorDetails, ErrorInfo, FieldViolation, Help, HelpLink,
    LocalizedMessage, PreconditionFailure, PreconditionViolation, QuotaFailure, QuotaViolation,
    RequestInfo, ResourceInfo, RetryInfo, StatusExt,
};

#[path = "c20_x.rs"]
mod x;

// ---------------------------------------------------------------------------------------------
// token cursor

struct Cur<'a> {
    t: Vec<&'a str>,
    i: usize,
}

impl<'a> Cur<'a> {
    fn new(s: &'a str) -> Self {
        Cur { t: s.split(' ').filter(|x| !x.is_empty()).collect(), i: 0 }
    }
    fn next(&mut self) -> Option<&'a str> {
        let r = self.t.get(self.i).copied();
        self.i += 1;
        r
    }
    fn peek(&self) -> Option<&'a str> {
        self.t.get(self.i).copied()
    }
    fn num(&mut self) -> Option<u64> {
        self.next()?.parse().ok()
    }
    fn string(&mut self) -> Option<String> {
        String::from_utf8(unhex(self.next()?)?).ok()
    }
    fn bytes(&mut self) -> Option<Vec<u8>> {
        unhex(self.next()?)
    }
    fn done(&self) -> bool {
        self.i >= self.t.len()
    }
}

fn hs(s: &str) -> String {
    hex(s.as_bytes())
}

fn parse_detail(c: &mut Cur) -> Option<ErrorDetail> {
    let kind = c.next()?;
    Some(match kind {
        "RI" | "RN" => {
            if c.peek()? == "-" {
                c.next();
                if kind == "RN" {
                    RetryInfo::new(None).into()
                } else {
                    RetryInfo { retry_delay: None }.into()
                }
            } else {
                let secs = c.num()?;
                let nanos = c.num()?;
                if nanos >= 1_000_000_000 {
                    return None;
                }
                let d = Duration::new(secs, nanos as u32);
                if kind == "RN" {
                    RetryInfo::new(Some(d)).into()
                } else {
                    RetryInfo { retry_delay: Some(d) }.into()
                }
            }
        }
        "DI" => {
            let n = c.num()?;
            let mut st = Vec::new();
            for _ in 0..n {
                st.push(c.string()?);
            }
            DebugInfo::new(st, c.string()?).into()
        }
        "QF" => {
            let n = c.num()?;
            let mut v = Vec::new();
            for _ in 0..n {
                v.push(QuotaViolation::new(c.string()?, c.string()?));
            }
            QuotaFailure::new(v).into()
        }
        "EI" => {
            let reason = c.string()?;
            let domain = c.string()?;
            let n = c.num()?;
            let mut m = HashMap::new();
            for _ in 0..n {
                let k = c.string()?;
                let v = c.string()?;
                if m.insert(k, v).is_some() {
                    return None; // keys of a case are distinct
                }
            }
            ErrorInfo::new(reason, domain, m).into()
        }
        "PF" => {
            let n = c.num()?;
            let mut v = Vec::new();
            for _ in 0..n {
                v.push(PreconditionViolation::new(c.string()?, c.string()?, c.string()?));
            }
            PreconditionFailure::new(v).into()
        }
        "BR" => {
            let n = c.num()?;
            let mut v = Vec::new();
            for _ in 0..n {
                v.push(FieldViolation::new(c.string()?, c.string()?));
            }
            BadRequest::new(v).into()
        }
        "RQ" => RequestInfo::new(c.string()?, c.string()?).into(),
        "RS" => ResourceInfo::new(c.string()?, c.string()?, c.string()?, c.string()?).into(),
        "HP" => {
            let n = c.num()?;
            let mut v = Vec::new();
            for _ in 0..n {
                v.push(HelpLink::new(c.string()?, c.string()?));
            }
            Help::new(v).into()
        }
        "LM" => LocalizedMessage::new(c.string()?, c.string()?).into(),
        _ => return None,
    })
}

// ---------------------------------------------------------------------------------------------
// canonical rendering of what came out

fn r_retry(x: &RetryInfo) -> String {
    match x.retry_delay {
        None => "RI -".into(),
        Some(d) => format!("RI {} {}", d.as_secs(), d.subsec_nanos()),
    }
}
fn r_debug(x: &DebugInfo) -> String {
    let mut s = format!("DI {}", x.stack_entries.len());
    for e in &x.stack_entries {
        s.push(' ');
        s.push_str(&hs(e));
    }
    s.push(' ');
    s.push_str(&hs(&x.detail));
    s
}
fn r_quota(x: &QuotaFailure) -> String {
    let mut s = format!("QF {}", x.violations.len());
    for v in &x.violations {
        s.push_str(&format!(" {} {}", hs(&v.subject), hs(&v.description)));
    }
    s
}
fn r_errinfo(x: &ErrorInfo) -> String {
    let mut kv: Vec<(&String, &String)> = x.metadata.iter().collect();
    kv.sort_by(|a, b| a.0.as_bytes().cmp(b.0.as_bytes()));
    let mut s = format!("EI {} {} {}", hs(&x.reason), hs(&x.domain), kv.len());
    for (k, v) in kv {
        s.push_str(&format!(" {} {}", hs(k), hs(v)));
    }
    s
}
fn r_prec(x: &PreconditionFailure) -> String {
    let mut s = format!("PF {}", x.violations.len());
    for v in &x.violations {
        s.push_str(&format!(" {} {} {}", hs(&v.r#type), hs(&v.subject), hs(&v.description)));
    }
    s
}
fn r_badreq(x: &BadRequest) -> String {
    let mut s = format!("BR {}", x.field_violations.len());
    for v in &x.field_violations {
        s.push_str(&format!(" {} {}", hs(&v.field), hs(&v.description)));
    }
    s
}
fn r_reqinfo(x: &RequestInfo) -> String {
    format!("RQ {} {}", hs(&x.request_id), hs(&x.serving_data))
}
fn r_resinfo(x: &ResourceInfo) -> String {
    format!(
        "RS {} {} {} {}",
        hs(&x.resource_type),
        hs(&x.resource_name),
        hs(&x.owner),
        hs(&x.description)
    )
}
fn r_help(x: &Help) -> String {
    let mut s = format!("HP {}", x.links.len());
    for v in &x.links {
        s.push_str(&format!(" {} {}", hs(&v.description), hs(&v.url)));
    }
    s
}
fn r_locmsg(x: &LocalizedMessage) -> String {
    format!("LM {} {}", hs(&x.locale), hs(&x.message))
}

fn render_detail(d: &ErrorDetail) -> String {
    match d {
        ErrorDetail::RetryInfo(x) => r_retry(x),
        ErrorDetail::DebugInfo(x) => r_debug(x),
        ErrorDetail::QuotaFailure(x) => r_quota(x),
        ErrorDetail::ErrorInfo(x) => r_errinfo(x),
        ErrorDetail::PreconditionFailure(x) => r_prec(x),
        ErrorDetail::BadRequest(x) => r_badreq(x),
        ErrorDetail::RequestInfo(x) => r_reqinfo(x),
        ErrorDetail::ResourceInfo(x) => r_resinfo(x),
        ErrorDetail::Help(x) => r_help(x),
        ErrorDetail::LocalizedMessage(x) => r_locmsg(x),
        _ => "unknown-kind".into(),
    }
}

fn slot<T>(o: Option<&T>, f: fn(&T) -> String) -> String {
    match o {
        None => "-".into(),
        Some(x) => f(x),
    }
}

fn render_set(d: &ErrorDetails) -> (String, usize) {
    let slots = vec![
        slot(d.retry_info(), r_retry),
        slot(d.debug_info(), r_debug),
        slot(d.quota_failure(), r_quota),
        slot(d.error_info(), r_errinfo),
        slot(d.precondition_failure(), r_prec),
        slot(d.bad_request(), r_badreq),
        slot(d.request_info(), r_reqinfo),
        slot(d.resource_info(), r_resinfo),
        slot(d.help(), r_help),
        slot(d.localized_message(), r_locmsg),
    ];
    let present = slots.iter().filter(|s| *s != "-").count();
    (slots.join(" "), present)
}

fn observe(st: Status) -> String {
    let mut hm = HeaderMap::new();
    if st.add_header(&mut hm).is_err() {
        return "hdr-fail-add".into();
    }
    let st = match Status::from_header_map(&hm) {
        Some(s) => s,
        None => return "hdr-fail-parse".into(),
    };
    render_recovered(&st)
}

/// the `T … M …` head of an observation: the outer status after the header trip
fn render_head(st: &Status) -> String {
    let mut out = format!("T {} {} {}", st.code() as i32, hs(st.message()), hex(st.details()));
    let mut meta: Vec<(String, String)> = st
        .metadata()
        .iter()
        .map(|kv| match kv {
            KeyAndValueRef::Ascii(k, v) => (k.as_str().to_string(), hex(v.as_encoded_bytes())),
            KeyAndValueRef::Binary(k, v) => (k.as_str().to_string(), hex(v.as_encoded_bytes())),
        })
        .collect();
    meta.sort();
    out.push_str(&format!(" M {}", meta.len()));
    for (k, v) in meta {
        out.push_str(&format!(" {} {}", hs(&k), v));
    }
    out
}

fn render_recovered(st: &Status) -> String {
    let mut out = render_head(st);
    match pb::Status::decode(st.details()) {
        Ok(p) => out.push_str(&format!(" E ok {} {} {}", p.code, hs(&p.message), p.details.len())),
        Err(_) => out.push_str(" E err"),
    }
    match st.check_error_details_vec() {
        Ok(v) => {
            out.push_str(&format!(" V ok {}", v.len()));
            for d in &v {
                out.push(' ');
                out.push_str(&render_detail(d));
            }
        }
        Err(_) => out.push_str(" V err"),
    }
    match st.check_error_details() {
        Ok(d) => {
            out.push_str(" S ok ");
            out.push_str(&render_set(&d).0);
        }
        Err(_) => out.push_str(" S err"),
    }
    let g = vec![
        slot(st.get_details_retry_info().as_ref(), r_retry),
        slot(st.get_details_debug_info().as_ref(), r_debug),
        slot(st.get_details_quota_failure().as_ref(), r_quota),
        slot(st.get_details_error_info().as_ref(), r_errinfo),
        slot(st.get_details_precondition_failure().as_ref(), r_prec),
        slot(st.get_details_bad_request().as_ref(), r_badreq),
        slot(st.get_details_request_info().as_ref(), r_reqinfo),
        slot(st.get_details_resource_info().as_ref(), r_resinfo),
        slot(st.get_details_help().as_ref(), r_help),
        slot(st.get_details_localized_message().as_ref(), r_locmsg),
    ];
    out.push_str(" G ");
    out.push_str(&g.join(" "));
    let nvec = st.get_error_details_vec().len();
    let nset = render_set(&st.get_error_details()).1;
    out.push_str(&format!(" D {} {}", nvec, nset));
    out
}

fn parse_meta(c: &mut Cur) -> Option<MetadataMap> {
    let n = c.num()?;
    let mut m = MetadataMap::new();
    for _ in 0..n {
        let k = c.string()?;
        let v = c.string()?;
        let key: MetadataKey<tonic::metadata::Ascii> = MetadataKey::from_bytes(k.as_bytes()).ok()?;
        let val: MetadataValue<tonic::metadata::Ascii> = MetadataValue::try_from(v.as_str()).ok()?;
        m.append(key, val);
    }
    Some(m)
}

/// `style`: 0 = `set_*`, 1 = `add_*` per violation/link, 2 = the first present detail goes through the
/// `ErrorDetails::with_*` constructor (the single-violation form when it has exactly one element), the rest `set_*`.
fn build_set(c: &mut Cur, style: u8) -> Option<ErrorDetails> {
    build_set_from(c, style, ErrorDetails::new())
}

/// the same, starting from a value that already holds details (`x` cases: reconfiguration)
fn build_set_from(c: &mut Cur, style: u8, seed: ErrorDetails) -> Option<ErrorDetails> {
    let style_add = style == 1;
    let mut d = seed;
    let mut first = style == 2;
    for slot_ix in 0..10 {
        if c.peek()? == "-" {
            c.next();
            continue;
        }
        let det = parse_detail(c)?;
        if first {
            first = false;
            d = match det {
                ErrorDetail::RetryInfo(x) => ErrorDetails::with_retry_info(x.retry_delay),
                ErrorDetail::DebugInfo(x) => ErrorDetails::with_debug_info(x.stack_entries, x.detail),
                ErrorDetail::QuotaFailure(mut x) => {
                    if x.violations.len() == 1 {
                        let v = x.violations.pop().unwrap();
                        ErrorDetails::with_quota_failure_violation(v.subject, v.description)
                    } else {
                        ErrorDetails::with_quota_failure(x.violations)
                    }
                }
                ErrorDetail::ErrorInfo(x) => ErrorDetails::with_error_info(x.reason, x.domain, x.metadata),
                ErrorDetail::PreconditionFailure(mut x) => {
                    if x.violations.len() == 1 {
                        let v = x.violations.pop().unwrap();
                        ErrorDetails::with_precondition_failure_violation(v.r#type, v.subject, v.description)
                    } else {
                        ErrorDetails::with_precondition_failure(x.violations)
                    }
                }
                ErrorDetail::BadRequest(mut x) => {
                    if x.field_violations.len() == 1 {
                        let v = x.field_violations.pop().unwrap();
                        ErrorDetails::with_bad_request_violation(v.field, v.description)
                    } else {
                        ErrorDetails::with_bad_request(x.field_violations)
                    }
                }
                ErrorDetail::RequestInfo(x) => ErrorDetails::with_request_info(x.request_id, x.serving_data),
                ErrorDetail::ResourceInfo(x) => ErrorDetails::with_resource_info(x.resource_type, x.resource_name, x.owner, x.description),
                ErrorDetail::Help(mut x) => {
                    if x.links.len() == 1 {
                        let v = x.links.pop().unwrap();
                        ErrorDetails::with_help_link(v.description, v.url)
                    } else {
                        ErrorDetails::with_help(x.links)
                    }
                }
                ErrorDetail::LocalizedMessage(x) => ErrorDetails::with_localized_message(x.locale, x.message),
                _ => return None,
            };
            continue;
        }
        match (slot_ix, det) {
            (0, ErrorDetail::RetryInfo(x)) => {
                d.set_retry_info(x.retry_delay);
            }
            (1, ErrorDetail::DebugInfo(x)) => {
                d.set_debug_info(x.stack_entries, x.detail);
            }
            (2, ErrorDetail::QuotaFailure(x)) => {
                if style_add && !x.violations.is_empty() {
                    for v in x.violations {
                        d.add_quota_failure_violation(v.subject, v.description);
                    }
                } else {
                    d.set_quota_failure(x.violations);
                }
            }
            (3, ErrorDetail::ErrorInfo(x)) => {
                d.set_error_info(x.reason, x.domain, x.metadata);
            }
            (4, ErrorDetail::PreconditionFailure(x)) => {
                if style_add && !x.violations.is_empty() {
                    for v in x.violations {
                        d.add_precondition_failure_violation(v.r#type, v.subject, v.description);
                    }
                } else {
                    d.set_precondition_failure(x.violations);
                }
            }
            (5, ErrorDetail::BadRequest(x)) => {
                if style_add && !x.field_violations.is_empty() {
                    for v in x.field_violations {
                        d.add_bad_request_violation(v.field, v.description);
                    }
                } else {
                    d.set_bad_request(x.field_violations);
                }
            }
            (6, ErrorDetail::RequestInfo(x)) => {
                d.set_request_info(x.request_id, x.serving_data);
            }
            (7, ErrorDetail::ResourceInfo(x)) => {
                d.set_resource_info(x.resource_type, x.resource_name, x.owner, x.description);
            }
            (8, ErrorDetail::Help(x)) => {
                if style_add && !x.links.is_empty() {
                    for v in x.links {
                        d.add_help_link(v.description, v.url);
                    }
                } else {
                    d.set_help(x.links);
                }
            }
            (9, ErrorDetail::LocalizedMessage(x)) => {
                d.set_localized_message(x.locale, x.message);
            }
            _ => return None,
        }
    }
    Some(d)
}

fn build_status(case: &str) -> Option<Status> {
    let mut c = Cur::new(case);
    let kind = c.next()?;
    let code = Code::from_i32(c.num()? as i32);
    let msg = c.string()?;
    match kind {
        "vec" => {
            let _style = c.next()?;
            let meta = parse_meta(&mut c)?;
            let n = c.num()?;
            let mut v = Vec::new();
            for _ in 0..n {
                v.push(parse_detail(&mut c)?);
            }
            if !c.done() {
                return None;
            }
            Some(if meta.is_empty() {
                Status::with_error_details_vec(code, msg, v)
            } else {
                Status::with_error_details_vec_and_metadata(code, msg, v, meta)
            })
        }
        "set" => {
            let style = c.next()?;
            let meta = parse_meta(&mut c)?;
            let d = build_set(&mut c, match style { "b1" => 1, "b2" => 2, _ => 0 })?;
            if !c.done() {
                return None;
            }
            Some(if meta.is_empty() {
                Status::with_error_details(code, msg, d)
            } else {
                Status::with_error_details_and_metadata(code, msg, d, meta)
            })
        }
        "raw" => {
            let b = c.bytes()?;
            if !c.done() {
                return None;
            }
            Some(Status::with_details(code, msg, b.into()))
        }
        _ => None,
    }
}

pub fn execute(case: &str) -> String {
    if case.starts_with("x ") {
        return x::execute(case);
    }
    match build_status(case) {
        Some(st) => observe(st),
        None => "bad-case".into(),
    }
}

// ---------------------------------------------------------------------------------------------
// generators

const POOL: &[&str] = &[
    "", "", "a", "field", "description", "TOS", "example.local", "en-US", "\u{0}", "\u{7f}", "\u{80}",
    "\u{7ff}", "\u{800}", "\u{ffff}", "\u{10000}", "\u{10ffff}", "\u{d7ff}", "\u{e000}", "é", "€", "😀",
    "a b\tc\n", "%41%", "=+/", "type.googleapis.com/google.rpc.Help", "clientip:<ip address>",
    "\u{feff}x", "ÿ", "key", "k", "v",
];

fn gen_string(rng: &mut Rng) -> String {
    match rng.below(48) {
        0..=23 => (*rng.pick(POOL)).to_string(),
        24..=31 => {
            let n = rng.below(6) as usize;
            (0..n).map(|_| (*rng.pick(POOL)).to_string()).collect::<Vec<_>>().join("")
        }
        32..=34 => {
            // lengths around the 1→2 byte varint boundary
            let n = rng.range(118, 136) as usize;
            let mut s = String::new();
            while s.len() < n {
                if s.len() + 4 <= n && rng.chance(1, 8) {
                    s.push('😀');
                } else if s.len() + 2 <= n && rng.chance(1, 6) {
                    s.push('é');
                } else {
                    s.push((b'a' + rng.below(26) as u8) as char);
                }
            }
            s
        }
        35 => {
            if rng.chance(1, 30) {
                let n = rng.range(16376, 16392) as usize;
                "z".repeat(n)
            } else {
                let n = rng.range(250, 262) as usize;
                "y".repeat(n)
            }
        }
        _ => {
            let n = rng.below(10) as usize;
            (0..n)
                .map(|_| match rng.below(5) {
                    0 => char::from_u32(rng.below(0x80) as u32).unwrap(),
                    1 => char::from_u32(0x80 + rng.below(0x780) as u32).unwrap(),
                    2 => char::from_u32(0x800 + rng.below(0xD000) as u32).unwrap(),
                    3 => char::from_u32(0x10000 + rng.below(0x100000) as u32).unwrap(),
                    _ => (b'a' + rng.below(26) as u8) as char,
                })
                .collect()
        }
    }
}

fn gs(rng: &mut Rng) -> String {
    hs(&gen_string(rng))
}

fn gen_count(rng: &mut Rng) -> u64 {
    match rng.below(10) {
        0 | 1 => 0,
        2..=5 => 1,
        6 | 7 => 2,
        8 => 3,
        _ => rng.range(4, 9),
    }
}

const SEC_EDGES: &[u64] = &[
    0,
    1,
    59,
    315_576_000_000 - 1,
    315_576_000_000,
    315_576_000_000 + 1,
    i64::MAX as u64 - 1,
    i64::MAX as u64,
    i64::MAX as u64 + 1,
    u64::MAX - 1,
    u64::MAX,
    127,
    128,
    16383,
    16384,
    u32::MAX as u64,
    u32::MAX as u64 + 1,
];
const NANO_EDGES: &[u64] = &[0, 1, 127, 128, 999_999_998, 999_999_999, 500_000_000];

fn gen_detail(kind: usize, rng: &mut Rng, via_new_only: bool) -> String {
    match kind {
        0 => {
            if rng.chance(1, 6) {
                return if via_new_only || rng.chance(1, 2) { "RN -".into() } else { "RI -".into() };
            }
            let secs = if rng.chance(2, 3) { *rng.pick(SEC_EDGES) } else { rng.next() >> rng.below(64) };
            let nanos = if rng.chance(2, 3) { *rng.pick(NANO_EDGES) } else { rng.below(1_000_000_000) };
            let tag = if via_new_only || rng.chance(1, 2) { "RN" } else { "RI" };
            format!("{} {} {}", tag, secs, nanos)
        }
        1 => {
            let n = gen_count(rng);
            let mut s = format!("DI {}", n);
            for _ in 0..n {
                s.push_str(&format!(" {}", gs(rng)));
            }
            s.push_str(&format!(" {}", gs(rng)));
            s
        }
        2 => {
            let n = gen_count(rng);
            let mut s = format!("QF {}", n);
            for _ in 0..n {
                s.push_str(&format!(" {} {}", gs(rng), gs(rng)));
            }
            s
        }
        3 => {
            let n = gen_count(rng);
            let mut keys: Vec<String> = Vec::new();
            for _ in 0..n {
                let k = gen_string(rng);
                if !keys.contains(&k) {
                    keys.push(k);
                }
            }
            let mut s = format!("EI {} {} {}", gs(rng), gs(rng), keys.len());
            for k in keys {
                s.push_str(&format!(" {} {}", hs(&k), gs(rng)));
            }
            s
        }
        4 => {
            let n = gen_count(rng);
            let mut s = format!("PF {}", n);
            for _ in 0..n {
                s.push_str(&format!(" {} {} {}", gs(rng), gs(rng), gs(rng)));
            }
            s
        }
        5 => {
            let n = gen_count(rng);
            let mut s = format!("BR {}", n);
            for _ in 0..n {
                s.push_str(&format!(" {} {}", gs(rng), gs(rng)));
            }
            s
        }
        6 => format!("RQ {} {}", gs(rng), gs(rng)),
        7 => format!("RS {} {} {} {}", gs(rng), gs(rng), gs(rng), gs(rng)),
        8 => {
            let n = gen_count(rng);
            let mut s = format!("HP {}", n);
            for _ in 0..n {
                s.push_str(&format!(" {} {}", gs(rng), gs(rng)));
            }
            s
        }
        _ => format!("LM {} {}", gs(rng), gs(rng)),
    }
}

fn gen_meta(rng: &mut Rng) -> String {
    if rng.chance(2, 3) {
        return "0".into();
    }
    let names = ["x-request-id", "x-trace", "a", "retry-pushback-ms", "zz-top"];
    let n = rng.range(1, 3) as usize;
    let start = rng.below(names.len() as u64) as usize;
    let mut s = format!("{}", n);
    for i in 0..n {
        let k = names[(start + i) % names.len()];
        let v: String = (0..rng.below(8)).map(|_| (b'!' + rng.below(90) as u8) as char).collect();
        s.push_str(&format!(" {} {}", hs(k), hs(&v)));
    }
    s
}

fn gen_head(kind: &str, rng: &mut Rng) -> String {
    let code = if rng.chance(1, 5) { *rng.pick(&[0u64, 1, 2, 16]) } else { rng.below(17) };
    let msg = if rng.chance(1, 5) { String::new() } else { gen_string(rng) };
    format!("{} {} {} b{} {}", kind, code, hs(&msg), rng.below(3), gen_meta(rng))
}

fn gen_vec_case(rng: &mut Rng) -> String {
    let mut s = gen_head("vec", rng);
    let n = match rng.below(10) {
        0 => 0,
        1..=3 => 1,
        4 | 5 => 2,
        6 | 7 => rng.range(3, 5),
        8 => 10,
        _ => rng.range(6, 14),
    };
    // repeated kinds and unusual orderings on purpose: a "first vs last of kind" or "sorted by
    // kind" mutation is only visible then
    let sticky = rng.below(10) as usize;
    s.push_str(&format!(" {}", n));
    for _ in 0..n {
        let k = if rng.chance(1, 3) { sticky } else { rng.below(10) as usize };
        s.push(' ');
        s.push_str(&gen_detail(k, rng, false));
    }
    s
}

fn gen_set_case(rng: &mut Rng) -> String {
    let mut s = gen_head("set", rng);
    let mode = rng.below(8);
    let single = rng.below(10) as usize;
    for k in 0..10 {
        let present = match mode {
            0 => true,
            1 => false,
            2 => k % 2 == 0,
            // exactly one detail: with style b2 it is built by its `ErrorDetails::with_*` constructor
            3 | 4 => k == single,
            _ => rng.chance(1, 2),
        };
        s.push(' ');
        if present {
            s.push_str(&gen_detail(k, rng, true));
        } else {
            s.push('-');
        }
    }
    s
}

// --- a tiny protobuf wire writer used only to build hostile inputs --------------------------

fn w_varint(mut v: u64, out: &mut Vec<u8>) {
    loop {
        if v < 0x80 {
            out.push(v as u8);
            return;
        }
        out.push((v as u8 & 0x7f) | 0x80);
        v >>= 7;
    }
}
fn w_key(tag: u32, wt: u8, out: &mut Vec<u8>) {
    w_varint(((tag as u64) << 3) | wt as u64, out);
}
fn w_ld(tag: u32, payload: &[u8]) -> Vec<u8> {
    let mut o = Vec::new();
    w_key(tag, 2, &mut o);
    w_varint(payload.len() as u64, &mut o);
    o.extend_from_slice(payload);
    o
}
fn w_vi(tag: u32, v: u64) -> Vec<u8> {
    let mut o = Vec::new();
    w_key(tag, 0, &mut o);
    w_varint(v, &mut o);
    o
}
fn w_any(url: &str, value: &[u8]) -> Vec<u8> {
    let mut a = w_ld(1, url.as_bytes());
    a.extend(w_ld(2, value));
    a
}
fn w_status(code: u64, msg: &[u8], anys: &[Vec<u8>]) -> Vec<u8> {
    let mut o = Vec::new();
    if code != 0 {
        o.extend(w_vi(1, code));
    }
    if !msg.is_empty() {
        o.extend(w_ld(2, msg));
    }
    for a in anys {
        o.extend(w_ld(3, a));
    }
    o
}

const URLS: [&str; 10] = [
    "type.googleapis.com/google.rpc.RetryInfo",
    "type.googleapis.com/google.rpc.DebugInfo",
    "type.googleapis.com/google.rpc.QuotaFailure",
    "type.googleapis.com/google.rpc.ErrorInfo",
    "type.googleapis.com/google.rpc.PreconditionFailure",
    "type.googleapis.com/google.rpc.BadRequest",
    "type.googleapis.com/google.rpc.RequestInfo",
    "type.googleapis.com/google.rpc.ResourceInfo",
    "type.googleapis.com/google.rpc.Help",
    "type.googleapis.com/google.rpc.LocalizedMessage",
];

fn raw_case(bytes: &[u8]) -> String {
    format!("raw 3 {} {}", hs("m"), hex(bytes))
}

fn nested_groups(depth: usize, tag: u32) -> Vec<u8> {
    let mut o = Vec::new();
    for _ in 0..depth {
        w_key(tag, 3, &mut o);
    }
    for _ in 0..depth {
        w_key(tag, 4, &mut o);
    }
    o
}

fn duration_msg(secs: u64, nanos: u64) -> Vec<u8> {
    let mut d = Vec::new();
    if secs != 0 {
        d.extend(w_vi(1, secs));
    }
    if nanos != 0 {
        d.extend(w_vi(2, nanos));
    }
    d
}

/// Hand-written hostile inputs (decode side), also the witnesses of findings.
fn corpus() -> Vec<String> {
    let mut out = Vec::new();
    let ri = URLS[0];
    // witness: RetryInfo{retry_delay{seconds = i64::MIN}} — negation overflow inside
    // prost_types' TryFrom<Duration> (debug builds) reached from tonic-types' From<pb::RetryInfo>
    let min = w_ld(1, &duration_msg(1u64 << 63, 0));
    out.push(raw_case(&w_status(3, b"m", &[w_any(ri, &min)])));
    // the duration table of prost-types' normalize, through RetryInfo
    let i64min = 1u64 << 63;
    let secs: [u64; 14] = [
        0, 1, u64::MAX, /* -1 */ i64min, i64min + 1, i64min + 2, i64::MAX as u64, i64::MAX as u64 - 1, 2,
        u64::MAX - 1, 315_576_000_000, 315_576_000_001, (-315_576_000_000i64) as u64, 5,
    ];
    let nanos: [i64; 15] = [
        0, 1, -1, 999_999_999, -999_999_999, 1_000_000_000, -1_000_000_000, 1_000_000_001, -1_000_000_001,
        1_999_999_999, -1_999_999_999, 2_000_000_000, -2_000_000_000, i32::MAX as i64, i32::MIN as i64,
    ];
    for s in secs {
        for n in nanos {
            let v = w_ld(1, &duration_msg(s, n as u64));
            out.push(raw_case(&w_status(3, b"m", &[w_any(ri, &v)])));
        }
    }
    // nanos given as a 5-byte (truncated to i32) and as a 10-byte varint with high bits set
    for n in [0x1_0000_0001u64, 0xffff_ffff_0000_0005, 0x8000_0000, 0xffff_ffff] {
        let v = w_ld(1, &duration_msg(7, n));
        out.push(raw_case(&w_status(3, b"m", &[w_any(ri, &v)])));
    }
    // retry_delay present twice: message fields merge
    let mut twice = w_ld(1, &duration_msg(5, 0));
    twice.extend(w_ld(1, &duration_msg(0, 7)));
    out.push(raw_case(&w_status(3, b"m", &[w_any(ri, &twice)])));
    out.push(raw_case(&w_status(3, b"m", &[w_any(ri, &w_ld(1, &[]))])));
    out.push(raw_case(&w_status(3, b"m", &[w_any(ri, &[])])));
    // map field of ErrorInfo: wrong wire types, missing key / value, duplicate keys, extra entry fields
    let ei = URLS[3];
    let entry = |k: &[u8], v: &[u8]| {
        let mut e = w_ld(1, k);
        e.extend(w_ld(2, v));
        e
    };
    let mut dup = w_ld(3, &entry(b"k", b"1"));
    dup.extend(w_ld(3, &entry(b"j", b"2")));
    dup.extend(w_ld(3, &entry(b"k", b"3")));
    out.push(raw_case(&w_status(3, b"m", &[w_any(ei, &dup)])));
    out.push(raw_case(&w_status(3, b"m", &[w_any(ei, &w_ld(3, &[]))])));
    out.push(raw_case(&w_status(3, b"m", &[w_any(ei, &w_ld(3, &w_ld(2, b"only-value")))])));
    out.push(raw_case(&w_status(3, b"m", &[w_any(ei, &w_ld(3, &w_ld(1, b"only-key")))])));
    out.push(raw_case(&w_status(3, b"m", &[w_any(ei, &[0x18, 0x00])]))); // field 3 as varint 0
    out.push(raw_case(&w_status(3, b"m", &[w_any(ei, &[0x18, 0x03, 0x0a, 0x01, 0x41])])));
    out.push(raw_case(&w_status(3, b"m", &[w_any(ei, &[0x1d, 0x00])]))); // field 3 as fixed32 key, then len 0
    out.push(raw_case(&w_status(3, b"m", &[w_any(ei, &[0x1b, 0x00, 0x1c])]))); // group wire type on the map
    let mut e3 = entry(b"k", b"v");
    e3.extend(w_vi(3, 9));
    e3.extend(w_ld(1, b"k2"));
    out.push(raw_case(&w_status(3, b"m", &[w_any(ei, &w_ld(3, &e3))])));
    out.push(raw_case(&w_status(3, b"m", &[w_any(ei, &w_ld(3, &w_vi(1, 5)))]))); // key with varint wire type
    // non-UTF-8 strings at every level
    out.push(raw_case(&w_status(3, &[0xff], &[])));
    out.push(raw_case(&w_status(3, b"m", &[w_any("", &[])])));
    out.push(raw_case(&w_status(3, b"m", &[w_ld(1, &[0xc0, 0x80])])));
    for bad in [
        &[0xc0u8, 0x80][..],
        &[0xed, 0xa0, 0x80],
        &[0xf4, 0x90, 0x80, 0x80],
        &[0xe0, 0x9f, 0xbf],
        &[0xf0, 0x8f, 0xbf, 0xbf],
        &[0x80],
        &[0xc2],
        &[0xe2, 0x82],
        &[0xf0, 0x9f, 0x98],
        &[0xf5, 0x80, 0x80, 0x80],
        &[0xc1, 0xbf],
        &[0xef, 0xbf, 0xbf],
        &[0xf4, 0x8f, 0xbf, 0xbf],
        &[0xed, 0x9f, 0xbf],
        &[0xee, 0x80, 0x80],
    ] {
        out.push(raw_case(&w_status(3, b"m", &[w_any(URLS[9], &w_ld(1, bad))])));
        out.push(raw_case(&w_status(3, b"m", &[w_any(URLS[1], &w_ld(1, bad))])));
        out.push(raw_case(&w_status(3, b"m", &[w_any(URLS[2], &w_ld(1, &w_ld(2, bad)))])));
        out.push(raw_case(&w_status(3, b"m", &[w_any(ei, &w_ld(3, &entry(bad, b"v")))])));
        out.push(raw_case(&w_status(3, bad, &[])));
    }
    // same kind several times, one of them corrupt: check_* fail, getters skip to the next good one
    let good = w_ld(1, b"en");
    let corrupt = vec![0x0a, 0x05, 0x41];
    for order in [[0usize, 1, 0], [1, 0, 0], [0, 0, 1], [1, 1, 0]] {
        let anys: Vec<Vec<u8>> =
            order.iter().map(|i| w_any(URLS[9], if *i == 0 { &good } else { &corrupt })).collect();
        out.push(raw_case(&w_status(3, b"m", &anys)));
    }
    // type_url near misses
    for u in [
        "type.googleapis.com/google.rpc.Help ",
        "type.googleapis.com/google.rpc.help",
        "/google.rpc.Help",
        "google.rpc.Help",
        "type.googleapis.com/google.rpc.Hel",
        "type.googleapis.com/google.rpc.Helps",
        "TYPE.GOOGLEAPIS.COM/google.rpc.Help",
        "type.googleapis.com/google.rpc.Status",
        "type.googleapis.com/google.protobuf.Duration",
        "",
    ] {
        out.push(raw_case(&w_status(3, b"m", &[w_any(u, &[0xff, 0xff])])));
        out.push(raw_case(&w_status(3, b"m", &[w_any(u, &w_ld(1, &w_ld(1, b"d")))])));
    }
    // foreign details with NON-ASCII type urls: a multi-byte character at every offset around the length of the
    // standard prefix `type.googleapis.com/google.rpc.` (31 bytes) - they are skipped like any other foreign detail,
    // never sliced in the middle of a character (seed C20i)
    {
        let base = "type.googleapis.com/google.rpc.LocalizedMessageOfOthers";
        for k in 24..40usize {
            for ch in ["\u{e9}", "\u{20ac}", "\u{1f600}"] {
                let u = format!("{}{}{}", &base[..k], ch, &base[k..]);
                out.push(raw_case(&w_status(3, b"m", &[w_any(&u, &w_ld(1, b"en")), w_any(URLS[9], &good)])));
            }
        }
        for u in ["\u{e9}", "type.googleapis.com/\u{4e2d}\u{6587}.rpc.\u{8be6}\u{60c5}", "type.googleapis.com/google.rpc.\u{e9}", "t\u{1f600}ype.googleapis.com/google.rpc.Help"] {
            out.push(raw_case(&w_status(3, b"m", &[w_any(u, &[0xff, 0xff])])));
            out.push(raw_case(&w_status(3, b"m", &[w_any(u, &w_ld(1, b"en"))])));
        }
    }
    // payload of one kind under the url of another
    for (i, u) in URLS.iter().enumerate() {
        let other = w_ld(1, &w_ld(1, b"x"));
        out.push(raw_case(&w_status(3, b"m", &[w_any(u, &other)])));
        out.push(raw_case(&w_status(3, b"m", &[w_any(u, &w_vi(1, i as u64))])));
        out.push(raw_case(&w_status(3, b"m", &[w_any(u, &w_ld(1, b"plain"))])));
        out.push(raw_case(&w_status(3, b"m", &[w_any(u, &[0x0d, 1, 2, 3, 4])]))); // fixed32 on field 1
        out.push(raw_case(&w_status(3, b"m", &[w_any(u, &[0x09, 1, 2, 3, 4, 5, 6, 7, 8])]))); // fixed64
        out.push(raw_case(&w_status(3, b"m", &[w_any(u, &[0x2d, 1, 2, 3, 4, 0x31, 1, 2, 3, 4, 5, 6, 7, 8, 0x28, 0x07])])));
    }
    // groups as unknown fields: recursion limit 100 (top level), 99 inside an Any, …
    for depth in [1usize, 2, 97, 98, 99, 100, 101, 102, 150] {
        out.push(raw_case(&nested_groups(depth, 9)));
        let mut st = nested_groups(depth, 9);
        st.extend(w_status(3, b"m", &[w_any(URLS[9], &good)]));
        out.push(raw_case(&st));
        out.push(raw_case(&w_status(3, b"m", &[w_ld(3, &nested_groups(depth, 7))])));
        out.push(raw_case(&w_status(3, b"m", &[w_any(URLS[9], &nested_groups(depth, 7))])));
        out.push(raw_case(&w_status(3, b"m", &[w_any(URLS[2], &w_ld(1, &nested_groups(depth, 7)))])));
        out.push(raw_case(&w_status(3, b"m", &[w_any(ei, &w_ld(3, &nested_groups(depth, 7)))])));
    }
    out.push(raw_case(&[0x4b, 0x54])); // group 9 closed by end-group 10
    out.push(raw_case(&[0x4b, 0x08, 0x01, 0x4c]));
    out.push(raw_case(&[0x4b, 0x0a, 0x02, 0x4c, 0x4c, 0x4c]));
    out.push(raw_case(&[0x4c]));
    out.push(raw_case(&[0x4b]));
    out.push(raw_case(&[0x0b, 0x0c])); // group on the known field 1
    // varints: 10-byte forms, overflow, over-long, truncated; keys: tag 0, > u32, wire types 6, 7
    let ten_ok = [0xffu8, 0xff, 0xff, 0xff, 0xff, 0xff, 0xff, 0xff, 0xff, 0x01];
    let ten_bad = [0xffu8, 0xff, 0xff, 0xff, 0xff, 0xff, 0xff, 0xff, 0xff, 0x02];
    let eleven = [0x80u8, 0x80, 0x80, 0x80, 0x80, 0x80, 0x80, 0x80, 0x80, 0x80, 0x00];
    let padded = [0x83u8, 0x80, 0x00];
    for v in [&ten_ok[..], &ten_bad[..], &eleven[..], &padded[..], &[0x80][..], &[0xff, 0xff][..]] {
        let mut b = vec![0x08];
        b.extend_from_slice(v);
        out.push(raw_case(&b));
        let mut b = vec![0x08];
        b.extend_from_slice(v);
        b.extend(w_ld(2, b"tail"));
        out.push(raw_case(&b));
        let mut b = vec![0x12];
        b.extend_from_slice(v);
        out.push(raw_case(&b));
        // as a key
        let mut b = v.to_vec();
        b.push(0x00);
        out.push(raw_case(&b));
    }
    out.push(raw_case(&[0x8a, 0x80, 0x00, 0x01, 0x41])); // field 1 length-delimited via padded key
    out.push(raw_case(&[0x00, 0x00]));
    out.push(raw_case(&[0x02, 0x00]));
    out.push(raw_case(&[0x0e, 0x00]));
    out.push(raw_case(&[0x0f, 0x00]));
    out.push(raw_case(&[0x80, 0x80, 0x80, 0x80, 0x10, 0x00])); // key = 2^32
    out.push(raw_case(&[0xf8, 0xff, 0xff, 0xff, 0x0f, 0x00])); // max tag, varint
    out.push(raw_case(&[0xfa, 0xff, 0xff, 0xff, 0x0f, 0x01, 0x00])); // max tag, len
    // status code: negative, truncated to i32, repeated (last wins); message repeated
    for c in [u64::MAX, 0xffff_ffff, 0x1_0000_0003, 0x8000_0000, 0x7fff_ffff, 17, 0] {
        out.push(raw_case(&w_vi(1, c)));
    }
    let mut b = w_vi(1, 5);
    b.extend(w_ld(2, b"first"));
    b.extend(w_vi(1, 9));
    b.extend(w_ld(2, b"second"));
    out.push(raw_case(&b));
    out.push(raw_case(&w_ld(1, b"code-as-bytes")));
    out.push(raw_case(&w_vi(2, 5)));
    out.push(raw_case(&w_vi(3, 5)));
    out.push(raw_case(&[0x1a, 0x05, 0x0a]));
    out.push(raw_case(&[0x1a, 0x01, 0x0a, 0x00])); // inner field overruns its parent
    out.push(raw_case(&[0x1a, 0x03, 0x0a, 0x05, 0x41, 0x42, 0x43, 0x44, 0x45]));
    out.push(raw_case(&[]));
    // empty encodings of the constructive side
    out.push("vec 0 x b0 0 0".to_string());
    out.push("set 0 x b0 0 - - - - - - - - - -".to_string());
    out.push("vec 0 x b0 0 1 RI -".to_string());
    out.push(format!("vec 3 {} b0 0 2 RI {} 999999999 RN {} 999999999", hs("m"), u64::MAX, u64::MAX));
    out
}

fn gen_mutations(rng: &mut Rng, per_base: usize, bases: usize, exhaustive_small: bool) -> Vec<String> {
    let mut out = Vec::new();
    for _ in 0..bases {
        let base_case = if rng.chance(1, 2) { gen_vec_case(rng) } else { gen_set_case(rng) };
        let bytes = match build_status(&base_case) {
            Some(st) => st.details().to_vec(),
            None => continue,
        };
        if bytes.is_empty() || bytes.len() > 3000 {
            continue;
        }
        if exhaustive_small && bytes.len() <= 96 {
            // every truncation point
            for cut in 0..bytes.len() {
                out.push(raw_case(&bytes[..cut]));
            }
        }
        for _ in 0..per_base {
            let mut b = bytes.clone();
            match rng.below(9) {
                0 => {
                    let cut = rng.below(b.len() as u64) as usize;
                    b.truncate(cut);
                }
                1 => {
                    let i = rng.below(b.len() as u64) as usize;
                    b[i] ^= 1 << rng.below(8);
                }
                2 => {
                    let i = rng.below(b.len() as u64) as usize;
                    b[i] = *rng.pick(&[0x00u8, 0x7f, 0x80, 0xff, 0x0a, 0x12, 0x1a, 0x08, 0x0b, 0x0c]);
                }
                3 => {
                    let i = rng.below(b.len() as u64 + 1) as usize;
                    let ins: Vec<u8> = match rng.below(6) {
                        0 => w_vi(rng.range(1, 20) as u32, rng.next() >> rng.below(64)),
                        1 => w_ld(rng.range(1, 20) as u32, &rng.bytes(3)),
                        2 => nested_groups(rng.range(1, 3) as usize, rng.range(4, 20) as u32),
                        3 => vec![0x25, 1, 2, 3, 4],
                        4 => vec![0x21, 1, 2, 3, 4, 5, 6, 7, 8],
                        _ => rng.bytes(2),
                    };
                    b.splice(i..i, ins);
                }
                4 => {
                    let i = rng.below(b.len() as u64) as usize;
                    b.remove(i);
                }
                5 => {
                    // change the wire type of something that looks like a small key
                    let i = rng.below(b.len() as u64) as usize;
                    b[i] = (b[i] & 0xf8) | rng.below(8) as u8;
                }
                6 => {
                    let i = rng.below(b.len() as u64) as usize;
                    b[i] = b[i].wrapping_add(*rng.pick(&[1u8, 0xff, 2, 0x80]));
                }
                7 => {
                    // duplicate a slice (repeated / last-wins fields)
                    let i = rng.below(b.len() as u64) as usize;
                    let j = (i + rng.range(1, 12) as usize).min(b.len());
                    let sl = b[i..j].to_vec();
                    b.splice(j..j, sl);
                }
                _ => {
                    for _ in 0..3 {
                        let i = rng.below(b.len() as u64) as usize;
                        b[i] ^= 1 << rng.below(8);
                    }
                }
            }
            out.push(raw_case(&b));
        }
    }
    out
}

fn gen_structured_raw(rng: &mut Rng, n: usize) -> Vec<String> {
    // well-formed Status messages whose Any list is adversarial: foreign urls, payload of another
    // kind, repeated kinds with some corrupt, durations outside the range
    let mut out = Vec::new();
    for _ in 0..n {
        let k = rng.range(1, 5);
        let mut anys = Vec::new();
        for _ in 0..k {
            let ui = rng.below(10) as usize;
            let url = if rng.chance(1, 8) { "type.googleapis.com/other.Thing" } else { URLS[ui] };
            let value: Vec<u8> = match rng.below(7) {
                0 => {
                    let kind = rng.below(10) as usize;
                    let case = format!("vec 0 x b0 0 1 {}", gen_detail(kind, rng, false));
                    // take the value bytes of the single Any out of a real encoding
                    match build_status(&case).and_then(|s| pb::Status::decode(s.details()).ok()) {
                        Some(p) if !p.details.is_empty() => p.details[0].value.clone(),
                        _ => vec![],
                    }
                }
                1 => {
                    let s = rng.next() >> rng.below(64);
                    let n = match rng.below(3) {
                        0 => rng.below(2_000_000_001),
                        1 => (-(rng.below(2_000_000_001) as i64)) as u64,
                        _ => rng.next(),
                    };
                    let s = if rng.chance(1, 2) { s } else { (-(s as i64 >> 1)) as u64 };
                    w_ld(1, &duration_msg(s, n))
                }
                2 => {
                    let n = rng.below(6) as usize;
                    rng.bytes(n)
                }
                3 => w_ld(rng.range(1, 5) as u32, &w_ld(rng.range(1, 4) as u32, gen_string(rng).as_bytes())),
                4 => w_ld(rng.range(1, 5) as u32, gen_string(rng).as_bytes()),
                5 => {
                    let mut v = Vec::new();
                    for _ in 0..rng.range(1, 4) {
                        let mut e = Vec::new();
                        if rng.chance(3, 4) {
                            e.extend(w_ld(1, rng.pick(&["k", "", "j", "é"]).as_bytes()));
                        }
                        if rng.chance(3, 4) {
                            e.extend(w_ld(2, gen_string(rng).as_bytes()));
                        }
                        v.extend(w_ld(3, &e));
                    }
                    v
                }
                _ => vec![],
            };
            anys.push(w_any(url, &value));
        }
        let code = *rng.pick(&[0u64, 3, 16, 17, u64::MAX]);
        out.push(raw_case(&w_status(code, gen_string(rng).as_bytes(), &anys)));
    }
    out
}

pub fn generate(tier: &str, rng: &mut Rng) -> Vec<String> {
    let thorough = tier == "thorough";
    let mut out = corpus();
    // structured: every kind alone, with edge values
    for k in 0..10 {
        for _ in 0..(if thorough { 200 } else { 25 }) {
            out.push(format!("{} 1 {}", gen_head("vec", rng), gen_detail(k, rng, false)));
        }
    }
    for s in SEC_EDGES {
        for n in NANO_EDGES {
            out.push(format!("vec 14 x b0 0 2 RI {} {} RN {} {}", s, n, s, n));
            out.push(format!("set 14 x b0 0 RN {} {} - - - - - - - - -", s, n));
        }
    }
    let nv = if thorough { 60000 } else { 2500 };
    for _ in 0..nv {
        out.push(gen_vec_case(rng));
    }
    let ns = if thorough { 30000 } else { 1200 };
    for _ in 0..ns {
        out.push(gen_set_case(rng));
    }
    // every `ErrorDetails::with_*` constructor: sets holding exactly one detail, built in style b2
    for k in 0..10 {
        for _ in 0..(if thorough { 200 } else { 24 }) {
            let head = gen_head("set", rng);
            let mut t: Vec<String> = head.split(' ').map(|x| x.to_string()).collect();
            t[3] = "b2".into();
            let mut s = t.join(" ");
            for j in 0..10 {
                s.push(' ');
                if j == k { s.push_str(&gen_detail(j, rng, true)); } else { s.push('-'); }
            }
            out.push(s);
        }
    }
    // malformed
    out.extend(gen_structured_raw(rng, if thorough { 40000 } else { 1500 }));
    out.extend(gen_mutations(rng, if thorough { 40 } else { 12 }, if thorough { 3000 } else { 150 }, true));
    let nr = if thorough { 20000 } else { 800 };
    for _ in 0..nr {
        let n = rng.below(24) as usize;
        let b: Vec<u8> = (0..n)
            .map(|_| {
                if rng.chance(1, 2) {
                    *rng.pick(&[0x08u8, 0x0a, 0x12, 0x1a, 0x00, 0x01, 0x02, 0x03, 0x80, 0xff, 0x0b, 0x0c, 0x41])
                } else {
                    rng.next() as u8
                }
            })
            .collect();
        out.push(raw_case(&b));
    }
    out.extend(x::generate(thorough, rng));
    out
}
